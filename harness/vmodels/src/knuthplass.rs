//! Reference model for TeX's line breaking, written from the DEFINITIONS (TeX: The Program
//! §813–§890, TeXbook ch. 14), not as a transcription of the active-list algorithm:
//!
//! * legal breakpoints (§866–869, TeXbook p.96): at glue preceded by a non-discardable item (outside
//!   math), at an explicit kern or a math-off immediately followed by glue, at a penalty < 10000, at a
//!   discretionary (penalty `\hyphenpenalty`, or `\exhyphenpenalty` if the pre-break text is empty),
//!   and at the end of the list (forced, counted as "hyphenated" for the final-hyphen rule, §873);
//! * the material of the line from break *a* to break *b* (§837, §879): everything after *a* up to
//!   *b*, except the glue, penalty, math and explicit-kern items that follow *a* up to the first
//!   non-discardable item; a discretionary *a* contributes its post-break text and swallows its
//!   `replace_count` items (§840–842) — and only if its post-break text is empty are following
//!   discardables dropped; a discretionary *b* contributes its pre-break text (§869–870);
//!   `\leftskip`+`\rightskip` (+`\emergencystretch`) are added to every line (§827);
//! * badness (§108) and fitness class (§817, §852–853), demerits (§859), feasibility b ≤ threshold
//!   (§851; threshold = min(tolerance, 10000), §863), forced breaks (penalty ≤ −10000);
//! * looseness (§875).
//!
//! Two independent evaluators over these definitions: a dynamic programme over
//! (breakpoint, number of lines so far, fitness class of the last line) and, for ≤ 12 optional
//! breakpoints, brute-force enumeration of all subsets. They must agree with each other.
//!
//! `Rule` selects how the discardable run after a break is treated; `Rule::Tex` is TeX. The other
//! variants exist for known-finding attribution (deviation models) and for one documented
//! ambiguity (see `Rule::TexStopAtNextBreak`).
//!
//! Nothing here depends on /repo.

use std::collections::BTreeMap;

pub const INF_BAD: i32 = 10000;
pub const INF_PENALTY: i32 = 10000;
pub const EJECT_PENALTY: i32 = -10000;
/// §833
pub const AWFUL_BAD: i64 = 0o7777777777;

pub const VERY_LOOSE: u8 = 0;
pub const LOOSE: u8 = 1;
pub const DECENT: u8 = 2;
pub const TIGHT: u8 = 3;

#[derive(Clone, Debug, PartialEq, Eq, Hash)]
pub enum Item {
    /// char, ligature, hlist, vlist, rule: non-discardable, has a width.
    Box { w: i32 },
    /// Glue with finite shrink (§825 forbids infinite shrink in paragraphs).
    Glue {
        w: i32,
        stretch: i32,
        stretch_order: u8,
        shrink: i32,
    },
    Kern { w: i32, explicit: bool },
    Penalty(i32),
    /// Math-on / math-off; zero width (the implementation's Math node carries none).
    MathOn,
    MathOff,
    /// Discretionary: total widths of the pre- and post-break texts, whether they are empty lists,
    /// and the number of following items replaced when the break is taken.
    Disc {
        pre_w: i32,
        pre_empty: bool,
        post_w: i32,
        post_empty: bool,
        replace: usize,
    },
}

#[derive(Clone, Copy, Debug, Default, PartialEq, Eq, Hash)]
pub struct Totals {
    pub w: i64,
    pub stretch: [i64; 4],
    pub shrink: i64,
}

impl Totals {
    pub fn add(&self, o: &Totals) -> Totals {
        Totals {
            w: self.w + o.w,
            stretch: [
                self.stretch[0] + o.stretch[0],
                self.stretch[1] + o.stretch[1],
                self.stretch[2] + o.stretch[2],
                self.stretch[3] + o.stretch[3],
            ],
            shrink: self.shrink + o.shrink,
        }
    }
    pub fn sub(&self, o: &Totals) -> Totals {
        Totals {
            w: self.w - o.w,
            stretch: [
                self.stretch[0] - o.stretch[0],
                self.stretch[1] - o.stretch[1],
                self.stretch[2] - o.stretch[2],
                self.stretch[3] - o.stretch[3],
            ],
            shrink: self.shrink - o.shrink,
        }
    }
    pub fn is_zero(&self) -> bool {
        *self == Totals::default()
    }
}

#[derive(Clone, Debug, PartialEq, Eq, Hash)]
pub struct Params {
    /// Width of line 1, 2, ...; the last entry repeats (non-empty).
    pub line_widths: Vec<i32>,
    pub tolerance: i32,
    pub line_penalty: i32,
    pub hyphen_penalty: i32,
    pub ex_hyphen_penalty: i32,
    pub adj_demerits: i32,
    pub double_hyphen_demerits: i32,
    pub final_hyphen_demerits: i32,
    pub looseness: i32,
    /// `\leftskip` + `\rightskip`, with `\emergencystretch` added to the finite stretch (§827).
    pub background: Totals,
}

#[derive(Clone, Copy, Debug, PartialEq, Eq, Hash)]
pub enum Rule {
    /// TeX: *all* discardable items from the break item up to the first non-discardable one are
    /// removed from the following line (§837 computes `break_width` once per breakpoint).
    Tex,
    /// As `Tex`, but the run of discarded items is cut at the next chosen break (what §879 does
    /// when the lines are actually built). Differs from `Tex` only for an *empty* line whose two
    /// breakpoints lie in one run of discardables (`… glue penalty glue …`: the line from the first
    /// glue to the penalty), where §837 charges the not-yet-seen second glue negatively.
    TexStopAtNextBreak,
    /// Deviation models for the known findings C04-*:
    /// `kern_sign_wrong`: at an explicit-kern break the kern's own width enters the break width with
    /// the wrong sign (the next line is charged twice the kern instead of nothing);
    /// `run_not_discarded`: only the break item itself leaves the next line; the discardable items
    /// after it (and after an empty-post-break discretionary) stay.
    Deviation {
        kern_sign_wrong: bool,
        run_not_discarded: bool,
    },
}

#[derive(Clone, Copy, Debug, PartialEq, Eq, Hash)]
pub enum BreakKind {
    Glue,
    Kern,
    Math,
    Penalty,
    Disc,
    Final,
}

#[derive(Clone, Debug, PartialEq, Eq)]
pub struct Break {
    /// Index into the item list; `items.len()` for the final break.
    pub pos: usize,
    /// Penalty as `try_break` sees it (clamped to −10000 from below).
    pub penalty: i32,
    pub hyphenated: bool,
    pub forced: bool,
    pub kind: BreakKind,
}

#[derive(Clone, Copy, Debug, PartialEq, Eq)]
pub struct LineEval {
    pub badness: i32,
    pub class: u8,
    /// b = inf_bad + 1 (§853)
    pub overfull: bool,
    pub feasible: bool,
    pub width: i64,
    pub shortfall: i64,
}

/// §108
pub fn badness(t: i64, s: i64) -> i32 {
    if t == 0 {
        return 0;
    }
    if s <= 0 {
        return INF_BAD;
    }
    let r: i64 = if t <= 7_230_584 {
        (t * 297) / s
    } else if s >= 1_663_497 {
        t / (s / 297)
    } else {
        t
    };
    if r > 1290 {
        INF_BAD
    } else {
        ((r * r * r + 0o400000) / 0o1000000) as i32
    }
}

fn discardable(it: &Item) -> bool {
    // §837 / §879 / §148: glue, penalty, math, explicit kern
    match it {
        Item::Glue { .. } | Item::Penalty(_) | Item::MathOn | Item::MathOff => true,
        Item::Kern { explicit, .. } => *explicit,
        Item::Box { .. } | Item::Disc { .. } => false,
    }
}

fn precedes_break(it: &Item) -> bool {
    // §148 `precedes_break(#) ≡ type(#) < math_node`, plus §868's extra clause for non-explicit kerns
    match it {
        Item::Box { .. } | Item::Disc { .. } => true,
        Item::Kern { explicit, .. } => !*explicit,
        Item::Glue { .. } | Item::Penalty(_) | Item::MathOn | Item::MathOff => false,
    }
}

fn item_totals(it: &Item) -> Totals {
    let mut t = Totals::default();
    match *it {
        Item::Box { w } => t.w = w as i64,
        Item::Glue {
            w,
            stretch,
            stretch_order,
            shrink,
        } => {
            t.w = w as i64;
            t.stretch[stretch_order as usize] = stretch as i64;
            t.shrink = shrink as i64;
        }
        Item::Kern { w, .. } => t.w = w as i64,
        // pre/post-break texts are not part of the running width; the replaced items are ordinary
        // list items and count themselves
        Item::Penalty(_) | Item::MathOn | Item::MathOff | Item::Disc { .. } => {}
    }
    t
}

pub struct Model {
    pub items: Vec<Item>,
    pub params: Params,
    pub rule: Rule,
    pub breaks: Vec<Break>,
    /// item position -> index into `breaks`
    pub break_at: Vec<Option<usize>>,
    /// cum[i] = totals of items[0..i]
    cum: Vec<Totals>,
    /// per break: start of the discardable run considered after it, its end under §837, and the
    /// totals "consumed" before the run starts (post-break text already credited)
    run_begin: Vec<usize>,
    run_end_tex: Vec<usize>,
    base: Vec<Totals>,
    threshold: i32,
}

/// One optimal solution per number of lines.
#[derive(Clone, Debug, Default, PartialEq, Eq)]
pub struct Solution {
    /// number of lines -> (minimal total demerits, one sequence of break positions achieving it)
    pub best_by_lines: BTreeMap<usize, (i64, Vec<usize>)>,
    /// Largest |partial total| met on any feasible edge (for the awful_bad domain guard).
    pub max_abs_total: i64,
}

impl Solution {
    pub fn feasible(&self) -> bool {
        !self.best_by_lines.is_empty()
    }
    pub fn min_total(&self) -> Option<i64> {
        self.best_by_lines.values().map(|v| v.0).min()
    }
}

/// What a pass may return, given the solution space (`None` = the pass returns no breakpoints).
#[derive(Clone, Debug, PartialEq, Eq)]
pub enum Expected {
    NoSolution,
    /// Any of these (lines, total demerits) pairs is TeX's answer (more than one only when
    /// equal-demerit optima with different line counts exist, §874 then picks by list order).
    OneOf(Vec<(usize, i64)>),
    /// Depending on how a tie in §874 falls, TeX either returns one of `some` or gives the pass up.
    NoneOrOneOf(Vec<(usize, i64)>),
}

impl Model {
    /// Err = the list is outside the model's domain (the monitor must not generate such lists).
    pub fn new(items: Vec<Item>, params: Params, rule: Rule) -> Result<Model, String> {
        if params.line_widths.is_empty() {
            return Err("no line widths".into());
        }
        let n = items.len();
        let mut cum = Vec::with_capacity(n + 1);
        let mut t = Totals::default();
        cum.push(t);
        for it in &items {
            t = t.add(&item_totals(it));
            cum.push(t);
        }
        // first non-discardable position at or after i
        let mut nd = vec![n; n + 1];
        for i in (0..n).rev() {
            nd[i] = if discardable(&items[i]) { nd[i + 1] } else { i };
        }
        // replaced ranges: no breakpoints inside, only box-like items and kerns (§869 skips them without looking for
        // breaks; anything else there is outside the domain)
        let mut in_replaced = vec![false; n];
        for (i, it) in items.iter().enumerate() {
            if let Item::Disc { replace, .. } = it {
                if *replace > 0 && i + replace >= n {
                    return Err(format!("discretionary at {i} replaces past the end"));
                }
                for j in i + 1..=i + replace {
                    // §841 / §869: characters, ligatures, boxes, rules and kern nodes of ANY subtype (an explicit kern too:
                    // \discretionary{a-}{b}{a\kern10pt b}); anything else is `confusion("disc3")` in TeX
                    match items[j] {
                        Item::Box { .. } | Item::Kern { .. } => {}
                        _ => return Err(format!("item {j} replaced by discretionary {i} is not box-like")),
                    }
                    if in_replaced[j] {
                        return Err(format!("item {j} replaced twice"));
                    }
                    in_replaced[j] = true;
                }
                if in_replaced[i] {
                    return Err(format!("discretionary {i} inside a replaced range"));
                }
            }
        }

        let mut breaks: Vec<Break> = vec![];
        let mut break_at = vec![None; n + 1];
        let mut auto_breaking = true;
        for i in 0..n {
            let cand: Option<(i32, bool, BreakKind)> = match &items[i] {
                Item::Box { .. } => None,
                Item::Glue { .. } => {
                    // after a discretionary and the nodes it replaces, prev_p is the discretionary itself (§869:
                    // prev_p:=cur_p; cur_p:=s), whatever the last replaced node is
                    if auto_breaking && i > 0 && (in_replaced[i - 1] || precedes_break(&items[i - 1])) {
                        Some((0, false, BreakKind::Glue))
                    } else {
                        None
                    }
                }
                Item::Kern { explicit, .. } => {
                    if *explicit && auto_breaking && matches!(items.get(i + 1), Some(Item::Glue { .. })) {
                        Some((0, false, BreakKind::Kern))
                    } else {
                        None
                    }
                }
                Item::MathOn => {
                    auto_breaking = false;
                    None
                }
                Item::MathOff => {
                    auto_breaking = true;
                    if matches!(items.get(i + 1), Some(Item::Glue { .. })) {
                        Some((0, false, BreakKind::Math))
                    } else {
                        None
                    }
                }
                Item::Penalty(p) => Some((*p, false, BreakKind::Penalty)),
                Item::Disc { pre_empty, .. } => Some((
                    if *pre_empty {
                        params.ex_hyphen_penalty
                    } else {
                        params.hyphen_penalty
                    },
                    true,
                    BreakKind::Disc,
                )),
            };
            if let Some((p, hyph, kind)) = cand {
                if in_replaced[i] {
                    // §869 steps over the replaced nodes without looking at them: an explicit kern that ends a replaced
                    // range and is followed by glue is NOT a breakpoint
                    debug_assert!(matches!(items[i], Item::Kern { .. }));
                    continue;
                }
                if p < INF_PENALTY {
                    break_at[i] = Some(breaks.len());
                    breaks.push(Break {
                        pos: i,
                        penalty: p.max(EJECT_PENALTY),
                        hyphenated: hyph,
                        forced: p <= EJECT_PENALTY,
                        kind,
                    });
                }
            }
        }
        break_at[n] = Some(breaks.len());
        breaks.push(Break {
            pos: n,
            penalty: EJECT_PENALTY,
            hyphenated: true,
            forced: true,
            kind: BreakKind::Final,
        });

        let mut run_begin = vec![];
        let mut run_end_tex = vec![];
        let mut base = vec![];
        for b in &breaks {
            if b.kind == BreakKind::Final {
                run_begin.push(n);
                run_end_tex.push(n);
                base.push(cum[n]);
                continue;
            }
            match &items[b.pos] {
                Item::Disc {
                    post_w,
                    post_empty,
                    replace,
                    ..
                } => {
                    let rb = b.pos + 1 + replace;
                    let mut t = cum[rb];
                    t.w -= *post_w as i64;
                    run_begin.push(rb);
                    run_end_tex.push(if *post_empty { nd[rb] } else { rb });
                    base.push(t);
                }
                _ => {
                    run_begin.push(b.pos);
                    run_end_tex.push(nd[b.pos]);
                    base.push(cum[b.pos]);
                }
            }
        }
        let threshold = params.tolerance.min(INF_BAD);
        Ok(Model {
            items,
            params,
            rule,
            breaks,
            break_at,
            cum,
            run_begin,
            run_end_tex,
            base,
            threshold,
        })
    }

    pub fn n_items(&self) -> usize {
        self.items.len()
    }

    pub fn final_break(&self) -> usize {
        self.breaks.len() - 1
    }

    /// Totals that have been "used up" when the line after break `a` begins, for a line ending at
    /// break `b`.
    fn consumed(&self, a: usize, b: usize) -> Totals {
        let rb = self.run_begin[a];
        let end = match self.rule {
            Rule::Tex => self.run_end_tex[a],
            Rule::TexStopAtNextBreak => self.run_end_tex[a].min(self.breaks[b].pos.max(rb)),
            Rule::Deviation { run_not_discarded, .. } => {
                if run_not_discarded {
                    match self.breaks[a].kind {
                        BreakKind::Disc => rb,
                        _ => rb + 1, // the break item itself
                    }
                } else {
                    self.run_end_tex[a]
                }
            }
        };
        let mut t = self.base[a].add(&self.cum[end].sub(&self.cum[rb]));
        if let Rule::Deviation {
            kern_sign_wrong: true, ..
        } = self.rule
        {
            if self.breaks[a].kind == BreakKind::Kern {
                if let Item::Kern { w, .. } = self.items[self.breaks[a].pos] {
                    t.w -= 2 * w as i64;
                }
            }
        }
        t
    }

    /// Natural dimensions of the line from break `a` (None = start of the paragraph) to break `b`.
    pub fn line_totals(&self, a: Option<usize>, b: usize) -> Totals {
        let upto = self.cum[self.breaks[b].pos];
        let mut t = match a {
            None => upto,
            Some(a) => upto.sub(&self.consumed(a, b)),
        };
        t = t.add(&self.params.background);
        if let BreakKind::Disc = self.breaks[b].kind {
            if let Item::Disc { pre_w, .. } = self.items[self.breaks[b].pos] {
                t.w += pre_w as i64;
            }
        }
        t
    }

    pub fn line_width_for(&self, line_no: usize) -> i64 {
        let lw = &self.params.line_widths;
        lw[line_no.min(lw.len()) - 1] as i64
    }

    /// Badness, fitness class and feasibility of the line `a`→`b` when it is line number
    /// `line_no` (1-based). §851–853.
    pub fn line(&self, a: Option<usize>, b: usize, line_no: usize) -> LineEval {
        let t = self.line_totals(a, b);
        let shortfall = self.line_width_for(line_no) - t.w;
        let (bad, class, overfull) = if shortfall > 0 {
            if t.stretch[1] != 0 || t.stretch[2] != 0 || t.stretch[3] != 0 {
                (0, DECENT, false)
            } else {
                let b = badness(shortfall, t.stretch[0]);
                let c = if b > 12 {
                    if b > 99 {
                        VERY_LOOSE
                    } else {
                        LOOSE
                    }
                } else {
                    DECENT
                };
                (b, c, false)
            }
        } else {
            let (b, over) = if -shortfall > t.shrink {
                (INF_BAD + 1, true)
            } else {
                (badness(-shortfall, t.shrink), false)
            };
            (b, if b > 12 { TIGHT } else { DECENT }, over)
        };
        LineEval {
            badness: bad,
            class,
            overfull,
            feasible: bad <= self.threshold,
            width: t.w,
            shortfall,
        }
    }

    /// §859. `b_idx` is the break ending the line.
    pub fn demerits(&self, bad: i32, b_idx: usize, prev_class: u8, class: u8, prev_hyphenated: bool) -> i64 {
        let br = &self.breaks[b_idx];
        let mut d: i64 = self.params.line_penalty as i64 + bad as i64;
        d = if d.abs() >= 10000 { 100_000_000 } else { d * d };
        let pi = br.penalty as i64;
        if pi != 0 {
            if pi > 0 {
                d += pi * pi;
            } else if pi > EJECT_PENALTY as i64 {
                d -= pi * pi;
            }
        }
        if br.hyphenated && prev_hyphenated {
            if br.kind == BreakKind::Final {
                d += self.params.final_hyphen_demerits as i64;
            } else {
                d += self.params.double_hyphen_demerits as i64;
            }
        }
        if (class as i32 - prev_class as i32).abs() > 1 {
            d += self.params.adj_demerits as i64;
        }
        d
    }

    fn line_class_count(&self) -> usize {
        self.params.line_widths.len()
    }

    /// Index of the last forced break strictly before break `b` (None if there is none).
    fn last_forced_before(&self) -> Vec<Option<usize>> {
        let mut out = Vec::with_capacity(self.breaks.len());
        let mut last = None;
        for (i, b) in self.breaks.iter().enumerate() {
            out.push(last);
            if b.forced {
                last = Some(i);
            }
        }
        out
    }

    /// The restriction in the property's quantifier: for every line start `a` and every line-width
    /// class, "the line a→b is overfull" is upward closed in `b` (up to the next forced break, past
    /// which TeX never extends a line).
    pub fn monotone(&self) -> bool {
        let nb = self.breaks.len();
        let classes = self.line_class_count();
        for a in std::iter::once(None).chain((0..nb - 1).map(Some)) {
            for ln in 1..=classes {
                let mut seen_overfull = false;
                let from = a.map(|x| x + 1).unwrap_or(0);
                for b in from..nb {
                    let e = self.line(a, b, ln);
                    if seen_overfull && !e.overfull {
                        return false;
                    }
                    if e.overfull {
                        seen_overfull = true;
                    }
                    if self.breaks[b].forced {
                        break;
                    }
                }
            }
        }
        true
    }

    /// Does `Rule::Tex` differ from `Rule::TexStopAtNextBreak` anywhere on this list?
    pub fn degenerate_empty_lines_differ(&self) -> bool {
        for a in 0..self.breaks.len() - 1 {
            let rb = self.run_begin[a];
            let re = self.run_end_tex[a];
            for b in a + 1..self.breaks.len() {
                let p = self.breaks[b].pos;
                if p >= re {
                    break;
                }
                if p >= rb && !self.cum[re].sub(&self.cum[p.max(rb)]).is_zero() {
                    return true;
                }
            }
        }
        false
    }

    /// For trigger predicates: does the break width after break `a` under the given deviation
    /// differ from TeX's?
    pub fn run_after_break_has_dimensions(&self, a: usize) -> bool {
        let rb = self.run_begin[a];
        let first = match self.breaks[a].kind {
            BreakKind::Disc => rb,
            BreakKind::Final => return false,
            _ => rb + 1,
        };
        let re = self.run_end_tex[a];
        re > first && !self.cum[re].sub(&self.cum[first]).is_zero()
    }

    pub fn is_nonzero_kern_break(&self, a: usize) -> bool {
        self.breaks[a].kind == BreakKind::Kern && matches!(self.items[self.breaks[a].pos], Item::Kern { w, .. } if w != 0)
    }

    // --------------------------------------------------------------------------------------
    // evaluator 1: dynamic programme over (break, lines so far, fitness class of last line)

    pub fn solve_dp(&self) -> Solution {
        let nb = self.breaks.len();
        let lfb = self.last_forced_before();
        let classes = self.line_class_count();
        // state tables: st[b][lines] = [Option<(total, pred_break(usize::MAX = start), pred_lines.., pred_class)>; 4]
        type Cell = Option<(i64, usize, u8)>;
        let max_lines = nb + 1;
        let mut st: Vec<Vec<[Cell; 4]>> = vec![vec![[None; 4]; max_lines + 1]; nb];
        let mut max_abs: i64 = 0;
        // per (a,b): evaluation per width class, computed lazily
        for b in 0..nb {
            let lo = lfb[b]; // a must be >= lo (or start if lo is None)
            // from the start of the paragraph
            if lo.is_none() {
                let e = self.line(None, b, 1);
                if e.feasible {
                    let d = self.demerits(e.badness, b, DECENT, e.class, false);
                    max_abs = max_abs.max(d.abs());
                    relax(&mut st[b][1][e.class as usize], d, usize::MAX, DECENT);
                }
            }
            let a_lo = lo.unwrap_or(0);
            for a in a_lo..b {
                // evaluate per width class once
                let mut evals: Vec<Option<LineEval>> = vec![None; classes + 1];
                let mut any = false;
                for (wc, slot) in evals.iter_mut().enumerate().skip(1) {
                    let e = self.line(Some(a), b, wc);
                    if e.feasible {
                        any = true;
                    }
                    *slot = Some(e);
                }
                if !any {
                    continue;
                }
                let prev_h = self.breaks[a].hyphenated;
                for lines in 1..max_lines {
                    let cells = st[a][lines];
                    if cells.iter().all(|c| c.is_none()) {
                        continue;
                    }
                    let ln = lines + 1;
                    let e = evals[ln.min(classes)].expect("evaluated");
                    if !e.feasible {
                        continue;
                    }
                    for (pc, cell) in cells.iter().enumerate() {
                        if let Some((tot, _, _)) = cell {
                            let d = self.demerits(e.badness, b, pc as u8, e.class, prev_h);
                            let nt = tot + d;
                            max_abs = max_abs.max(nt.abs()).max(d.abs());
                            relax(&mut st[b][ln][e.class as usize], nt, a, pc as u8);
                        }
                    }
                }
            }
        }
        let mut sol = Solution {
            best_by_lines: BTreeMap::new(),
            max_abs_total: max_abs,
        };
        let fb = nb - 1;
        for lines in 1..=max_lines {
            let mut best: Option<(i64, u8)> = None;
            for c in 0..4u8 {
                if let Some((t, _, _)) = st[fb][lines][c as usize] {
                    if best.map(|(bt, _)| t < bt).unwrap_or(true) {
                        best = Some((t, c));
                    }
                }
            }
            if let Some((t, c)) = best {
                // reconstruct
                let mut seq = vec![];
                let (mut b, mut l, mut cl) = (fb, lines, c);
                loop {
                    seq.push(self.breaks[b].pos);
                    let (_, pa, pc) = st[b][l][cl as usize].expect("state on path");
                    if pa == usize::MAX {
                        break;
                    }
                    b = pa;
                    l -= 1;
                    cl = pc;
                }
                seq.reverse();
                sol.best_by_lines.insert(lines, (t, seq));
            }
        }
        sol
    }

    // --------------------------------------------------------------------------------------
    // evaluator 2: brute force over all subsets of the optional breakpoints

    /// None if there are more than `max_optional` optional (non-forced, non-final) breakpoints.
    pub fn solve_brute(&self, max_optional: usize) -> Option<BTreeMap<usize, i64>> {
        let nb = self.breaks.len();
        let optional: Vec<usize> = (0..nb - 1).filter(|i| !self.breaks[*i].forced).collect();
        if optional.len() > max_optional {
            return None;
        }
        let forced: Vec<usize> = (0..nb).filter(|i| self.breaks[*i].forced).collect();
        let mut out: BTreeMap<usize, i64> = BTreeMap::new();
        for mask in 0u32..(1u32 << optional.len()) {
            let mut seq: Vec<usize> = forced.clone();
            for (k, o) in optional.iter().enumerate() {
                if mask & (1 << k) != 0 {
                    seq.push(*o);
                }
            }
            seq.sort_unstable();
            if let Some(total) = self.total_of_break_indices(&seq) {
                let lines = seq.len();
                let e = out.entry(lines).or_insert(total);
                if total < *e {
                    *e = total;
                }
            }
        }
        Some(out)
    }

    /// Total demerits of a sequence of break indices (ascending, ending with the final break), or
    /// None if some line is infeasible.
    fn total_of_break_indices(&self, seq: &[usize]) -> Option<i64> {
        let mut total = 0i64;
        let mut prev: Option<usize> = None;
        let mut prev_class = DECENT;
        let mut prev_h = false;
        for (k, b) in seq.iter().enumerate() {
            let e = self.line(prev, *b, k + 1);
            if !e.feasible {
                return None;
            }
            total += self.demerits(e.badness, *b, prev_class, e.class, prev_h);
            prev = Some(*b);
            prev_class = e.class;
            prev_h = self.breaks[*b].hyphenated;
        }
        Some(total)
    }

    /// Judge a sequence of break *positions* as returned by an implementation: Ok((lines, total)) if
    /// it is a valid feasible sequence, Err(reason) otherwise.
    pub fn evaluate_positions(&self, positions: &[usize]) -> Result<(usize, i64), String> {
        let mut idx = vec![];
        for (k, p) in positions.iter().enumerate() {
            if k > 0 && positions[k - 1] >= *p {
                return Err(format!("break positions not strictly increasing at {k}"));
            }
            match self.break_at.get(*p).copied().flatten() {
                Some(i) => idx.push(i),
                None => return Err(format!("position {p} is not a legal breakpoint")),
            }
        }
        if idx.last().copied() != Some(self.final_break()) {
            return Err("sequence does not end at the end of the paragraph".into());
        }
        for (i, b) in self.breaks.iter().enumerate() {
            if b.forced && !idx.contains(&i) {
                return Err(format!("forced break at position {} not taken", b.pos));
            }
        }
        match self.total_of_break_indices(&idx) {
            Some(t) => Ok((idx.len(), t)),
            None => {
                // name the first infeasible line
                let mut prev = None;
                for (k, b) in idx.iter().enumerate() {
                    let e = self.line(prev, *b, k + 1);
                    if !e.feasible {
                        return Err(format!(
                            "line {} (to position {}) has badness {} > threshold {}",
                            k + 1,
                            self.breaks[*b].pos,
                            e.badness,
                            self.threshold
                        ));
                    }
                    prev = Some(*b);
                }
                Err("infeasible".into())
            }
        }
    }

    /// What TeX's pass returns given the solution space (§874–875 and the last test of §873).
    /// `final_pass` = TeX's `final_pass` (accept whatever looseness was reached).
    pub fn expected(&self, sol: &Solution, final_pass: bool) -> Expected {
        let Some(min) = sol.min_total() else {
            return Expected::NoSolution;
        };
        let looseness = self.params.looseness as i64;
        let bases: Vec<usize> = sol.best_by_lines.iter().filter(|(_, v)| v.0 == min).map(|(l, _)| *l).collect();
        if looseness == 0 {
            return Expected::OneOf(bases.iter().map(|l| (*l, min)).collect());
        }
        let mut some = vec![];
        let mut none_possible = false;
        for base in bases {
            // the feasible line count closest to base+looseness without passing it and without
            // moving away from base in the wrong direction
            let mut actual: i64 = 0;
            for l in sol.best_by_lines.keys() {
                let diff = *l as i64 - base as i64;
                if (looseness > 0 && diff > actual && diff <= looseness) || (looseness < 0 && diff < actual && diff >= looseness) {
                    actual = diff;
                }
            }
            if actual != looseness && !final_pass {
                none_possible = true;
            } else {
                let l = (base as i64 + actual) as usize;
                let e = (l, sol.best_by_lines[&l].0);
                if !some.contains(&e) {
                    some.push(e);
                }
            }
        }
        if some.is_empty() {
            Expected::NoSolution
        } else if none_possible {
            Expected::NoneOrOneOf(some)
        } else {
            Expected::OneOf(some)
        }
    }

    pub fn threshold(&self) -> i32 {
        self.threshold
    }
}

fn relax(cell: &mut Option<(i64, usize, u8)>, total: i64, pred: usize, pred_class: u8) {
    match cell {
        Some((t, _, _)) if *t <= total => {}
        _ => *cell = Some((total, pred, pred_class)),
    }
}

#[cfg(test)]
mod tests {
    use super::*;

    const PT: i32 = 65536;

    fn params(widths: &[i32], tol: i32) -> Params {
        Params {
            line_widths: widths.to_vec(),
            tolerance: tol,
            line_penalty: 10,
            hyphen_penalty: 50,
            ex_hyphen_penalty: 50,
            adj_demerits: 10000,
            double_hyphen_demerits: 10000,
            final_hyphen_demerits: 5000,
            looseness: 0,
            background: Totals::default(),
        }
    }

    fn word(n: usize) -> Vec<Item> {
        (0..n).map(|_| Item::Box { w: 5 * PT }).collect()
    }

    fn fil_glue() -> Item {
        Item::Glue {
            w: 0,
            stretch: PT,
            stretch_order: 1,
            shrink: 0,
        }
    }

    #[test]
    fn kern_break_is_feasible_in_tex() {
        // AAAAA kern(4pt explicit) glue BBBBB \penalty10000 \parfillskip at 30pt, 5pt chars
        let mut items = word(5);
        items.push(Item::Kern { w: 4 * PT, explicit: true });
        items.push(Item::Glue { w: 5 * PT, stretch: 3 * PT, stretch_order: 0, shrink: PT });
        items.extend(word(5));
        items.push(Item::Penalty(10000));
        items.push(fil_glue());
        let m = Model::new(items.clone(), params(&[30 * PT], 10000), Rule::Tex).unwrap();
        assert_eq!(m.breaks.iter().map(|b| b.pos).collect::<Vec<_>>(), vec![5, 14]);
        let sol = m.solve_dp();
        assert!(sol.feasible());
        assert_eq!(sol.best_by_lines.keys().copied().collect::<Vec<_>>(), vec![2]);
        let brute = m.solve_brute(12).unwrap();
        assert_eq!(brute.get(&2), Some(&sol.best_by_lines[&2].0));
        // what the code does today: the kern is charged twice and the glue stays
        let d = Model::new(
            items,
            params(&[30 * PT], 10000),
            Rule::Deviation { kern_sign_wrong: true, run_not_discarded: true },
        )
        .unwrap();
        // second line = 2*4pt + 5pt + 25pt = 38pt with 1pt shrink: overfull
        assert!(d.line(Some(0), 1, 2).overfull);
        assert!(!d.solve_dp().feasible());
    }

    #[test]
    fn second_glue_is_discarded_in_tex() {
        // AAAAA glue(5pt) glue(4pt) BBBBB: TeX's second line is BBBBB alone
        let g = |w: i32| Item::Glue { w, stretch: 0, stretch_order: 0, shrink: 0 };
        let mut items = word(5);
        items.push(g(5 * PT));
        items.push(g(4 * PT));
        items.extend(word(5));
        let m = Model::new(items.clone(), params(&[26 * PT], 10000), Rule::Tex).unwrap();
        assert_eq!(m.line_totals(Some(0), 1).w, 25 * PT as i64);
        let d = Model::new(items, params(&[26 * PT], 10000), Rule::Deviation { kern_sign_wrong: false, run_not_discarded: true }).unwrap();
        assert_eq!(d.line_totals(Some(0), 1).w, 29 * PT as i64);
    }

    #[test]
    fn discretionary_widths() {
        // ab disc(pre "-" 3pt, post "x" 2pt, replace 1) c d: breaking at the disc gives "ab-" / "xd"
        let items = vec![
            Item::Box { w: 5 * PT },
            Item::Box { w: 5 * PT },
            Item::Disc { pre_w: 3 * PT, pre_empty: false, post_w: 2 * PT, post_empty: false, replace: 1 },
            Item::Box { w: 7 * PT },
            Item::Box { w: 5 * PT },
        ];
        let m = Model::new(items, params(&[13 * PT], 10000), Rule::Tex).unwrap();
        assert_eq!(m.line_totals(None, 0).w, 13 * PT as i64);
        assert_eq!(m.line_totals(Some(0), 1).w, 7 * PT as i64);
        assert_eq!(m.line_totals(None, 1).w, 22 * PT as i64);
    }

    #[test]
    fn looseness_expectations() {
        let mut sol = Solution::default();
        sol.best_by_lines.insert(3, (100, vec![]));
        sol.best_by_lines.insert(4, (50, vec![]));
        sol.best_by_lines.insert(6, (70, vec![]));
        let mut p = params(&[PT], 100);
        p.looseness = 1;
        let m = Model::new(vec![], p.clone(), Rule::Tex).unwrap();
        // best is 4 lines; +1 is not available (5 lines missing)
        assert_eq!(m.expected(&sol, false), Expected::NoSolution);
        assert_eq!(m.expected(&sol, true), Expected::OneOf(vec![(4, 50)]));
        p.looseness = 2;
        let m = Model::new(vec![], p.clone(), Rule::Tex).unwrap();
        assert_eq!(m.expected(&sol, false), Expected::OneOf(vec![(6, 70)]));
        p.looseness = -2;
        let m = Model::new(vec![], p, Rule::Tex).unwrap();
        assert_eq!(m.expected(&sol, true), Expected::OneOf(vec![(3, 100)]));
        assert_eq!(m.expected(&sol, false), Expected::NoSolution);
    }
}
