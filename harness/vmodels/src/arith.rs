//! TeX's integer and scaled arithmetic (TeX82 §99-108).
