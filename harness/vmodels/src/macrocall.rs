//! Reference model for macro definition and macro call (property C02, also used by C07).
//!
//! Own transcription of *TeX: The Program*
//!   §473-§477  scan_toks(macro_def=true, xpand=false): parameter text and replacement text of \def
//!   §389-§399  macro_call: prefix matching, undelimited / delimited parameters, the brace
//!              stripping rule of §393, `#{`, substitution of `#n`, `##`.
//! on a small token type of its own. Nothing here calls code from /repo.
//!
//! A second, declarative formulation of argument binding (`declarative_call`) follows the wording
//! of the property ("shortest brace-balanced run before the first depth-0 occurrence of the
//! delimiter; one pair of outer braces is removed only when the whole argument is a single
//! group"). The monitor runs both; a disagreement between the two is INCONCLUSIVE, never a verdict.

use std::collections::HashMap;

/// A token. Category codes are the fixed plain ones of the generated sources, so a character
/// token is identified by its character alone, exactly like TeX's `cur_tok = 256*cmd + chr` for
/// a fixed catcode table.
#[derive(Clone, Debug, PartialEq, Eq, Hash, PartialOrd, Ord)]
pub enum Tok {
    /// control sequence `\name` (control word: letters only)
    Cs(String),
    /// `{` (catcode 1)
    Begin,
    /// `}` (catcode 2)
    End,
    /// `#` (catcode 6)
    Param,
    /// ` ` (catcode 10)
    Space,
    /// letter (11) or other (12) character
    Ch(char),
    /// active character (catcode 13), only `~` under the fixed catcodes
    Active(char),
}

impl Tok {
    pub fn cs(name: &str) -> Tok {
        Tok::Cs(name.to_string())
    }
}

/// Unambiguous text rendering: `\name ` for control sequences, the character otherwise. This is
/// the same convention the harness uses for the tokens it observes in the real VM.
pub fn render(toks: &[Tok]) -> String {
    let mut s = String::new();
    for t in toks {
        match t {
            Tok::Cs(n) => {
                s.push('\\');
                s.push_str(n);
                s.push(' ');
            }
            Tok::Begin => s.push('{'),
            Tok::End => s.push('}'),
            Tok::Param => s.push('#'),
            Tok::Space => s.push(' '),
            Tok::Ch(c) | Tok::Active(c) => s.push(*c),
        }
    }
    s
}

/// TeX source text that the lexer of §343-§355 turns back into exactly `toks`, or `None` when no
/// such text exists under the conventions used here (a space token cannot follow a control word
/// or another space token, nor start a line: TeX's lexer would drop it - states S and N).
pub fn to_source(toks: &[Tok]) -> Option<String> {
    let mut prev_skips_space = true; // state N at the beginning of the line
    for t in toks {
        match t {
            Tok::Space => {
                if prev_skips_space {
                    return None;
                }
                prev_skips_space = true;
            }
            Tok::Cs(n) => {
                if n.is_empty() || !n.chars().all(|c| c.is_ascii_alphabetic()) {
                    return None;
                }
                prev_skips_space = true;
            }
            Tok::Ch(c) => {
                if matches!(c, '\\' | '{' | '}' | '#' | ' ' | '%' | '^' | '~' | '$' | '&' | '_')
                    || c.is_control()
                {
                    return None;
                }
                prev_skips_space = false;
            }
            Tok::Active(c) => {
                if *c != '~' {
                    return None;
                }
                prev_skips_space = false;
            }
            _ => prev_skips_space = false,
        }
    }
    Some(render(toks))
}

/// Remove the space tokens that TeX's lexer could not have produced at these positions
/// (after a control word, after another space, at the start). `after_cs` tells whether the
/// list will be placed directly after a control word.
pub fn drop_unlexable_spaces(toks: &[Tok], after_cs: bool) -> Vec<Tok> {
    let mut out: Vec<Tok> = Vec::with_capacity(toks.len());
    let mut skip = after_cs;
    for t in toks {
        match t {
            Tok::Space => {
                if !skip {
                    out.push(Tok::Space);
                }
                skip = true;
            }
            Tok::Cs(_) => {
                out.push(t.clone());
                skip = true;
            }
            _ => {
                out.push(t.clone());
                skip = false;
            }
        }
    }
    out
}

/// A miniature of TeX's lexer (§343-§355) for ONE line of source under the fixed catcodes
/// `\`=0 `{`=1 `}`=2 `#`=6 space=10 letters=11 `%`=14 everything else=12. No `^^` notation.
/// The end-of-line character is not appended (calibration strings are single lines whose
/// trailing end-of-line space is irrelevant).
pub fn lex_line(src: &str) -> Vec<Tok> {
    #[derive(PartialEq)]
    enum St {
        N,
        M,
        S,
    }
    let cs: Vec<char> = src.chars().collect();
    let mut out = vec![];
    let mut st = St::N;
    let mut i = 0;
    while i < cs.len() {
        let c = cs[i];
        i += 1;
        match c {
            '\\' => {
                if i >= cs.len() {
                    out.push(Tok::Cs(String::new()));
                    break;
                }
                if cs[i].is_ascii_alphabetic() {
                    let mut n = String::new();
                    while i < cs.len() && cs[i].is_ascii_alphabetic() {
                        n.push(cs[i]);
                        i += 1;
                    }
                    out.push(Tok::Cs(n));
                    st = St::S;
                } else {
                    let sym = cs[i];
                    i += 1;
                    out.push(Tok::Cs(sym.to_string()));
                    st = if sym == ' ' { St::S } else { St::M };
                }
            }
            '{' => {
                out.push(Tok::Begin);
                st = St::M;
            }
            '}' => {
                out.push(Tok::End);
                st = St::M;
            }
            '#' => {
                out.push(Tok::Param);
                st = St::M;
            }
            ' ' => {
                if st == St::M {
                    out.push(Tok::Space);
                    st = St::S;
                }
            }
            '%' => break,
            '~' => {
                out.push(Tok::Active('~'));
                st = St::M;
            }
            c => {
                out.push(Tok::Ch(c));
                st = St::M;
            }
        }
    }
    out
}

/// One element of a stored parameter text (TeX: the part of the macro's token list before
/// `end_match`).
#[derive(Clone, Debug, PartialEq, Eq, Hash)]
pub enum Pat {
    /// an ordinary token that must be matched (prefix or delimiter)
    Lit(Tok),
    /// `match` token: parameter `#n` starts here
    Match,
    /// `end_match`
    EndMatch,
}

/// One element of a stored replacement text.
#[derive(Clone, Debug, PartialEq, Eq, Hash)]
pub enum Body {
    Tok(Tok),
    /// `out_param` n (1-based)
    Out(usize),
}

#[derive(Clone, Debug, PartialEq, Eq, Hash)]
pub struct MacroDef {
    /// parameter text, always ending with `Pat::EndMatch`
    pub pattern: Vec<Pat>,
    pub body: Vec<Body>,
    pub nparams: usize,
}

#[derive(Clone, Debug, PartialEq, Eq)]
pub enum DefError {
    EndOfInput,
    /// "You already have nine parameters" (§476)
    TooManyParameters,
    /// "Parameters must be numbered consecutively" (§476)
    NotConsecutive,
    /// "Illegal parameter number in definition" (§479)
    IllegalParameterNumber,
    /// "Missing { inserted" (§475)
    MissingLeftBrace,
}

/// §473-§477: `toks` starts right after the control sequence being defined:
/// `<parameter text>{<replacement text>}...`. Returns the definition and the number of tokens
/// consumed (including the closing brace).
pub fn parse_def(toks: &[Tok]) -> Result<(MacroDef, usize), DefError> {
    let mut i = 0;
    let mut pattern: Vec<Pat> = vec![];
    let mut t = 0usize; // number of parameters so far (TeX: t = zero_token + that)
    let mut hash_brace = false;
    // §474 Scan and build the parameter part of the macro definition
    loop {
        let tok = toks.get(i).ok_or(DefError::EndOfInput)?;
        i += 1;
        match tok {
            Tok::Begin => {
                // done1
                pattern.push(Pat::EndMatch);
                break;
            }
            Tok::End => return Err(DefError::MissingLeftBrace),
            Tok::Param => {
                // §476 If the next character is a parameter number, make cur_tok a match token;
                // but if it is a left brace, store `{` and `end_match`, set hash_brace, goto done
                let nxt = toks.get(i).ok_or(DefError::EndOfInput)?;
                i += 1;
                if *nxt == Tok::Begin {
                    hash_brace = true;
                    pattern.push(Pat::Lit(Tok::Begin));
                    pattern.push(Pat::EndMatch);
                    break;
                }
                if t == 9 {
                    return Err(DefError::TooManyParameters);
                }
                t += 1;
                let expected = Tok::Ch(char::from(b'0' + t as u8));
                if *nxt != expected {
                    return Err(DefError::NotConsecutive);
                }
                pattern.push(Pat::Match);
            }
            other => pattern.push(Pat::Lit(other.clone())),
        }
    }
    // §477 Scan and build the body of the token list; unbalance = 1
    let mut body: Vec<Body> = vec![];
    let mut unbalance = 1usize;
    loop {
        let tok = toks.get(i).ok_or(DefError::EndOfInput)?;
        i += 1;
        match tok {
            Tok::Begin => {
                unbalance += 1;
                body.push(Body::Tok(Tok::Begin));
            }
            Tok::End => {
                unbalance -= 1;
                if unbalance == 0 {
                    break;
                }
                body.push(Body::Tok(Tok::End));
            }
            Tok::Param => {
                // §479 Look for parameter number or ##
                let nxt = toks.get(i).ok_or(DefError::EndOfInput)?;
                i += 1;
                match nxt {
                    Tok::Param => body.push(Body::Tok(Tok::Param)),
                    Tok::Ch(c) if c.is_ascii_digit() && *c != '0' => {
                        let n = (*c as u8 - b'0') as usize;
                        if n > t {
                            return Err(DefError::IllegalParameterNumber);
                        }
                        body.push(Body::Out(n));
                    }
                    _ => return Err(DefError::IllegalParameterNumber),
                }
            }
            other => body.push(Body::Tok(other.clone())),
        }
    }
    // found: if hash_brace<>0 then store_new_token(hash_brace)
    if hash_brace {
        body.push(Body::Tok(Tok::Begin));
    }
    Ok((
        MacroDef {
            pattern,
            body,
            nparams: t,
        },
        i,
    ))
}

#[derive(Clone, Debug, PartialEq, Eq)]
pub enum CallError {
    /// "Use of \x doesn't match its definition" (§398): at this stream offset
    PrefixMismatch(usize),
    /// the stream ended while an argument or the prefix was being scanned
    EndOfInput,
    /// "Argument of \x has an extra }" (§395)
    ExtraRightBrace,
    /// `\par` inside an argument of a non-\long macro (§396)
    Par,
}

/// Which rule decides whether a pair of outer braces is removed from an argument.
#[derive(Clone, Copy, Debug, PartialEq, Eq)]
pub enum TrimRule {
    /// TeX §393: the argument consists of exactly one group (`m = 1`)
    Tex,
    /// deviation model for finding C02-trim-first-last: a *delimited* argument of length >= 2
    /// loses its first and last token whenever these are `{` and `}`; undelimited arguments
    /// behave as in TeX
    FirstLastOfDelimited,
}

#[derive(Clone, Debug, PartialEq, Eq)]
pub struct Call {
    pub args: Vec<Vec<Tok>>,
    pub expansion: Vec<Tok>,
    /// how many tokens of the stream the call consumed
    pub consumed: usize,
}

fn is_par(t: &Tok) -> bool {
    matches!(t, Tok::Cs(n) if n == "par")
}

/// §389-§399 macro_call. `stream` starts right after the macro's own token.
pub fn macro_call(def: &MacroDef, stream: &[Tok], trim: TrimRule) -> Result<Call, CallError> {
    let pat = &def.pattern;
    let mut pos = 0usize; // next stream token (TeX: get_token)
    let mut r = 0usize; // TeX: r, a pointer into the parameter text
    let mut args: Vec<Vec<Tok>> = vec![];
    // §389: if info(r) <> end_match_token then <Scan the parameters ...>
    if pat[r] != Pat::EndMatch {
        // §391
        loop {
            // s = null  <=> prefix matching; otherwise s = start of this parameter's delimiter
            let s: Option<usize>;
            let mut p: Vec<Tok> = vec![]; // the parameter being built (temp_head list)
            let mut m = 0usize;
            let mut rbrace_is_last = false; // info(p) < right_brace_limit at tidy-up time
            if pat[r] == Pat::Match {
                s = Some(r + 1);
                r += 1;
            } else {
                s = None;
            }
            // §392 Scan a parameter until its delimiter string has been found; or, if s=null,
            // simply scan the delimiter string
            'continue_: loop {
                let cur = stream.get(pos).ok_or(CallError::EndOfInput)?.clone();
                pos += 1;
                if let Pat::Lit(l) = &pat[r] {
                    if *l == cur {
                        // §394 Advance r; goto found if the parameter delimiter has been fully
                        // matched, otherwise goto continue
                        r += 1;
                        if matches!(pat[r], Pat::Match | Pat::EndMatch) {
                            break 'continue_; // found
                        }
                        continue 'continue_;
                    }
                }
                // §397 Contribute the recently matched tokens to the current parameter, and goto
                // continue if a partial match is still in effect; but abort if s=null
                if s != Some(r) {
                    match s {
                        None => return Err(CallError::PrefixMismatch(pos - 1)),
                        Some(s0) => {
                            let mut t = s0;
                            loop {
                                if let Pat::Lit(l) = &pat[t] {
                                    p.push(l.clone());
                                    rbrace_is_last = false;
                                }
                                m += 1;
                                let mut u = t + 1;
                                let mut v = s0;
                                let mut resumed = false;
                                loop {
                                    if u == r {
                                        if Pat::Lit(cur.clone()) != pat[v] {
                                            break; // done
                                        } else {
                                            r = v + 1;
                                            resumed = true;
                                            break;
                                        }
                                    }
                                    if pat[u] != pat[v] {
                                        break; // done
                                    }
                                    u += 1;
                                    v += 1;
                                }
                                if resumed {
                                    continue 'continue_;
                                }
                                t += 1;
                                if t == r {
                                    break;
                                }
                            }
                            r = s0; // at this point, no tokens are recently matched
                        }
                    }
                }
                // §392 continued
                if is_par(&cur) {
                    return Err(CallError::Par); // §396 (non-\long macros only are modelled)
                }
                match cur {
                    Tok::Begin => {
                        // §399 Contribute an entire group to the current parameter
                        let mut unbalance = 1usize;
                        let mut c = cur.clone();
                        loop {
                            p.push(c);
                            c = stream.get(pos).ok_or(CallError::EndOfInput)?.clone();
                            pos += 1;
                            if is_par(&c) {
                                return Err(CallError::Par);
                            }
                            match c {
                                Tok::Begin => unbalance += 1,
                                Tok::End => {
                                    unbalance -= 1;
                                    if unbalance == 0 {
                                        break;
                                    }
                                }
                                _ => {}
                            }
                        }
                        p.push(c); // rbrace_ptr := p; store_new_token(cur_tok)
                        rbrace_is_last = true;
                    }
                    Tok::End => {
                        // §395 Report an extra right brace and goto continue
                        return Err(CallError::ExtraRightBrace);
                    }
                    other => {
                        // §393 Store the current token, but goto continue if it is a blank space
                        // that would become an undelimited parameter
                        if other == Tok::Space && matches!(pat[r], Pat::Match | Pat::EndMatch) {
                            continue 'continue_;
                        }
                        p.push(other);
                        rbrace_is_last = false;
                    }
                }
                m += 1;
                if let Pat::Lit(_) = pat[r] {
                    continue 'continue_;
                }
                break 'continue_; // found (undelimited parameter complete)
            }
            // found: if s<>null then <Tidy up the parameter just scanned, and tuck it away>
            if let Some(s0) = s {
                let delimited = matches!(pat[s0], Pat::Lit(_));
                let strip = match trim {
                    // §393: (m=1) and (info(p)<right_brace_limit) and (p<>temp_head)
                    TrimRule::Tex => m == 1 && rbrace_is_last && !p.is_empty(),
                    TrimRule::FirstLastOfDelimited => {
                        if delimited {
                            p.len() >= 2 && p[0] == Tok::Begin && p[p.len() - 1] == Tok::End
                        } else {
                            m == 1 && rbrace_is_last && !p.is_empty()
                        }
                    }
                };
                if strip {
                    p.pop();
                    p.remove(0);
                }
                args.push(p);
            }
            if pat[r] == Pat::EndMatch {
                break;
            }
        }
    }
    // §390 / §358: the replacement text with parameters substituted
    let mut expansion = vec![];
    for b in &def.body {
        match b {
            Body::Tok(t) => expansion.push(t.clone()),
            Body::Out(n) => expansion.extend(args[*n - 1].iter().cloned()),
        }
    }
    Ok(Call {
        args,
        expansion,
        consumed: pos,
    })
}

/// Index just past the group that starts at `toks[i]` (which must be `{`), or None if it does
/// not close.
fn group_end(toks: &[Tok], i: usize) -> Option<usize> {
    let mut depth = 0usize;
    let mut j = i;
    while j < toks.len() {
        match toks[j] {
            Tok::Begin => depth += 1,
            Tok::End => {
                depth -= 1;
                if depth == 0 {
                    return Some(j + 1);
                }
            }
            _ => {}
        }
        j += 1;
    }
    None
}

/// Declarative formulation of argument binding, straight from the wording of the property.
/// Defined only on calls inside the quantifier (balanced arguments, no `\par`); anything else is
/// an error value just as in `macro_call`.
pub fn declarative_call(def: &MacroDef, stream: &[Tok]) -> Result<Call, CallError> {
    declarative_call_spans(def, stream).map(|x| x.0)
}

/// Same, also returning for every parameter the half-open range of stream positions that was
/// bound to it *before* brace stripping (for an undelimited parameter: the token or the whole
/// group, after the skipped spaces).
pub fn declarative_call_spans(
    def: &MacroDef,
    stream: &[Tok],
) -> Result<(Call, Vec<(usize, usize)>), CallError> {
    // split the pattern into prefix and (parameter, delimiter) pairs
    let mut prefix: Vec<Tok> = vec![];
    let mut delims: Vec<Vec<Tok>> = vec![];
    for p in &def.pattern {
        match p {
            Pat::Lit(t) => match delims.last_mut() {
                None => prefix.push(t.clone()),
                Some(d) => d.push(t.clone()),
            },
            Pat::Match => delims.push(vec![]),
            Pat::EndMatch => {}
        }
    }
    let mut pos = 0usize;
    for (k, t) in prefix.iter().enumerate() {
        match stream.get(pos) {
            None => return Err(CallError::EndOfInput),
            Some(x) if x == t => pos += 1,
            Some(_) => return Err(CallError::PrefixMismatch(k)),
        }
    }
    let mut args = vec![];
    let mut spans = vec![];
    for d in &delims {
        if d.is_empty() {
            // undelimited: skip spaces, then one token or one group without its braces
            while stream.get(pos) == Some(&Tok::Space) {
                pos += 1;
            }
            match stream.get(pos) {
                None => return Err(CallError::EndOfInput),
                Some(Tok::End) => return Err(CallError::ExtraRightBrace),
                Some(Tok::Begin) => {
                    let e = group_end(stream, pos).ok_or(CallError::EndOfInput)?;
                    let inner = &stream[pos + 1..e - 1];
                    if inner.iter().any(is_par) {
                        return Err(CallError::Par);
                    }
                    args.push(inner.to_vec());
                    spans.push((pos, e));
                    pos = e;
                }
                Some(t) => {
                    if is_par(t) {
                        return Err(CallError::Par);
                    }
                    args.push(vec![t.clone()]);
                    spans.push((pos, pos + 1));
                    pos += 1;
                }
            }
        } else {
            // delimited: walk over depth-0 items until the delimiter starts here
            let start = pos;
            loop {
                if pos + d.len() <= stream.len() && stream[pos..pos + d.len()] == d[..] {
                    break;
                }
                match stream.get(pos) {
                    None => return Err(CallError::EndOfInput),
                    Some(Tok::End) => return Err(CallError::ExtraRightBrace),
                    Some(Tok::Begin) => {
                        pos = group_end(stream, pos).ok_or(CallError::EndOfInput)?;
                    }
                    Some(_) => pos += 1,
                }
            }
            let mut a = stream[start..pos].to_vec();
            if a.iter().any(is_par) {
                return Err(CallError::Par);
            }
            // one pair of outer braces is removed only when the whole argument is one group
            if a.first() == Some(&Tok::Begin) && group_end(&a, 0) == Some(a.len()) {
                a.pop();
                a.remove(0);
            }
            args.push(a);
            spans.push((start, pos));
            pos += d.len();
        }
    }
    let mut expansion = vec![];
    for b in &def.body {
        match b {
            Body::Tok(t) => expansion.push(t.clone()),
            Body::Out(n) => expansion.extend(args[*n - 1].iter().cloned()),
        }
    }
    Ok((
        Call {
            args,
            expansion,
            consumed: pos,
        },
        spans,
    ))
}

/// A very small interpreter used for calibration against the repository's unit-test tables:
/// `\def` is executed, macros are expanded, every other token is delivered unchanged.
/// (No grouping: definitions are global. `\def` inside a replacement text works because the
/// stream is re-read after every expansion.)
pub fn expand_all(src: &[Tok], max_steps: usize) -> Result<Vec<Tok>, String> {
    let mut macros: HashMap<String, MacroDef> = HashMap::new();
    let mut stream: Vec<Tok> = src.to_vec();
    let mut out = vec![];
    let mut steps = 0;
    let mut i = 0usize;
    while i < stream.len() {
        steps += 1;
        if steps > max_steps {
            return Err("step budget".into());
        }
        let t = stream[i].clone();
        i += 1;
        match &t {
            Tok::Cs(n) if n == "def" => {
                let name = match stream.get(i) {
                    Some(Tok::Cs(n)) => n.clone(),
                    other => return Err(format!("\\def followed by {other:?}")),
                };
                i += 1;
                let (d, used) = parse_def(&stream[i..]).map_err(|e| format!("{e:?}"))?;
                i += used;
                macros.insert(name, d);
            }
            Tok::Cs(n) if macros.contains_key(n) => {
                let d = macros[n].clone();
                let call = macro_call(&d, &stream[i..], TrimRule::Tex).map_err(|e| format!("{e:?}"))?;
                let rest: Vec<Tok> = stream[i + call.consumed..].to_vec();
                stream = call.expansion;
                stream.extend(rest);
                i = 0;
            }
            _ => out.push(t),
        }
    }
    Ok(out)
}

#[cfg(test)]
mod tests {
    use super::*;

    fn run(src: &str) -> String {
        render(&expand_all(&lex_line(src), 10_000).unwrap())
    }

    #[test]
    fn texbook_and_section_393() {
        assert_eq!(run(r"\def\a#1.{[#1]}\a{x}{y}.|"), "[{x}{y}]|");
        assert_eq!(run(r"\def\a#1.{[#1]}\a{x}.|"), "[x]|");
        assert_eq!(run(r"\def\a#1.{[#1]}\a{{x}}.|"), "[{x}]|");
        assert_eq!(run(r"\def\a#1.{[#1]}\a{x} .|"), "[{x} ]|");
        assert_eq!(run(r"\def\a#1#2.{[#1|#2]}\a x {y}.|"), "[x| {y}]|");
        assert_eq!(run(r"\def\a#1aab{[#1]}\a aaab|"), "[a]|");
        assert_eq!(run(r"\def\a#1aab{[#1]}\a a{aab}aaaab|"), "[a{aab}aa]|");
        assert_eq!(run(r"\def\a#1#{[#1]}\a xy{z}"), "[xy]{z}");
        assert_eq!(run(r"\def\a#1{\def\b##1{##1#1}}\a!\b{Hello}"), "Hello!");
        // TeXbook p.203
        assert_eq!(
            run(r"\def\cs AB#1#2C$#3\$ {#3{ab#1}#1 c##\x #2}\cs AB {\Look}C${And\$ }{look}\$ 5"),
            r"{And\$  }{look}{ab\Look }\Look  c#\x 5"
        );
    }

    #[test]
    fn both_formulations_agree_on_examples() {
        for (d, call) in [
            ("#1.{[#1]}", "{x}{y}.|"),
            ("#1ab{[#1]}", "aab|"),
            ("ab#1#2\\x {#2#1}", "ab {p}q{\\x }\\x |"),
            ("#1.#{<#1>}", "..{|}"),
        ] {
            let (def, _) = parse_def(&lex_line(d)).unwrap();
            let s = lex_line(call);
            assert_eq!(macro_call(&def, &s, TrimRule::Tex), declarative_call(&def, &s));
        }
    }
}
