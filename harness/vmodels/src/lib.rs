//! Reference models: our own transcriptions of sections of TeX: The Program, TFtoPL and PLtoTF.
//! This crate must not depend on anything from /repo (enforced by its Cargo.toml having no
//! path dependencies): a model that shared code with the implementation would agree with its bugs.
//! One file per topic; every module line below is pre-declared so that owners only touch their file.

pub mod arith;
pub mod containers;
pub mod dvipos;
pub mod expand;
pub mod fontarith;
pub mod hpack;
pub mod inputfiles;
pub mod knuthplass;
pub mod lexer;
pub mod liang;
pub mod ligkern;
pub mod macrocall;
pub mod paragraph;
pub mod texarith;
