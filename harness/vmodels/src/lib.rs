//! Reference models: our own transcriptions of sections of TeX: The Program, TFtoPL and PLtoTF.
//! This crate must not depend on anything from /repo (enforced by its Cargo.toml having no
//! path dependencies): a model that shared code with the implementation would agree with its bugs.

pub mod arith;
