//! Reference model for property C06: how TeX scans, prints and computes integers, dimensions
//! and glue. Our own transcription of *TeX: The Program*:
//!
//! * printing: `print_int` §65, `round_decimals` §102, `print_scaled` §103, `print_glue` §177,
//!   `print_spec` §178, `the_toks` §465 (registers only);
//! * arithmetic: `mult_and_add` §105 (`nx_plus_y`, `mult_integers`), `x_over_n` §106,
//!   `xn_over_d` §107 - evaluated in exact 64-bit arithmetic with TeX's `arith_error` conditions;
//! * scanning: `scan_keyword` §407, `scan_something_internal` §413 restricted to the registers
//!   `\count`, `\dimen`, `\skip` with the coercions of §429-431, `scan_int` §440-445,
//!   `scan_dimen` §448-458 (17-digit rule §452, internal quantities as units §455, units table
//!   §458, `em`/`ex`, `sp`; no `true`, no `mu`), `scan_glue` §461;
//! * `do_register_command` §1236-1240 (`\count n=`, `\advance`, `\multiply`, `\divide`).
//!
//! The scanner works on a token list produced by a small lexer (`lex`) for one line of text under
//! plain TeX's category codes, so that the procedures below can be read side by side with the
//! WEB source (`get_x_token`, `back_input`, `cur_tok`, `radix` ... keep their names).
//!
//! Anything for which TeX would report an error other than the four modelled ones (Number too
//! big, Dimension too large, Arithmetic overflow, Illegal unit replaced by filll) makes the model
//! return `Err(Ood)`: the input lies outside the property's quantifier.
//!
//! **Ambiguity.** TeX never negates -2^31 on purpose; where one of its algorithms would have to
//! (`negate(cur_val)` in scan_int/scan_dimen, `negate(x)` in mult_and_add / x_over_n) the result
//! depends on the Pascal/C implementation. The model computes the exact value and raises
//! `ambiguous`; the monitor then only requires "no crash".
//!
//! **Deviation switches.** `Deviations` replaces single rules by what the implementation under
//! test does today (known findings). `fired` records whether a switched rule actually produced a
//! different result than TeX's rule (the trigger predicate). All switches off = TeX.
//!
//! This file must not depend on anything from /repo.

pub const UNITY: i64 = 1 << 16;
pub const MAX_DIMEN: i64 = (1 << 30) - 1;
pub const INFINITY: i64 = (1 << 31) - 1;
pub const MIN32: i64 = -(1 << 31);

// ------------------------------------------------------------------------------------------
// Printing
// ------------------------------------------------------------------------------------------

/// §65 print_int (Knuth treats -2^31 explicitly, so every 32-bit value is well defined).
pub fn print_int(n: i64) -> String {
    format!("{n}")
}

/// §102 round_decimals: the scaled value nearest to `.d0 d1 ... d(k-1)`.
pub fn round_decimals(digits: &[u8]) -> i64 {
    let mut a: i64 = 0;
    let mut k = digits.len();
    while k > 0 {
        k -= 1;
        a = (a + (digits[k] as i64) * 2 * UNITY) / 10;
    }
    (a + 1) / 2
}

/// §103 print_scaled, appended to `out` (no unit). Exact arithmetic: `s` may be -2^31.
pub fn print_scaled_into(mut s: i64, out: &mut String) {
    if s < 0 {
        out.push('-');
        s = -s;
    }
    // print_int(s div unity)
    let ip = s / UNITY;
    if ip >= 10 {
        let mut buf = [0u8; 20];
        let mut n = 0;
        let mut v = ip;
        while v > 0 {
            buf[n] = b'0' + (v % 10) as u8;
            v /= 10;
            n += 1;
        }
        while n > 0 {
            n -= 1;
            out.push(buf[n] as char);
        }
    } else {
        out.push((b'0' + ip as u8) as char);
    }
    out.push('.');
    s = 10 * (s % UNITY) + 5;
    let mut delta: i64 = 10;
    loop {
        if delta > UNITY {
            s = s + 0o100000 - 50000; // round the last digit
        }
        out.push((b'0' + (s / UNITY) as u8) as char);
        s = 10 * (s % UNITY);
        delta *= 10;
        if s <= delta {
            break;
        }
    }
}

pub fn print_scaled(s: i64) -> String {
    let mut out = String::new();
    print_scaled_into(s, &mut out);
    out
}

#[derive(Clone, Copy, Debug, PartialEq, Eq, PartialOrd, Ord, Hash)]
pub enum Order {
    Normal,
    Fil,
    Fill,
    Filll,
}

impl Order {
    pub fn index(self) -> u8 {
        self as u8
    }
}

#[derive(Clone, Copy, Debug, PartialEq, Eq, Hash)]
pub struct Glue {
    pub width: i64,
    pub stretch: i64,
    pub stretch_order: Order,
    pub shrink: i64,
    pub shrink_order: Order,
}

impl Glue {
    pub const ZERO: Glue = Glue {
        width: 0,
        stretch: 0,
        stretch_order: Order::Normal,
        shrink: 0,
        shrink_order: Order::Normal,
    };
    /// The order of a zero stretch/shrink cannot be observed through `\the` nor through
    /// §1239 (which normalises it) nor §1240; `trap_zero_glue` §1229 even replaces an all-zero
    /// glue by `zero_glue`. Values are compared in this canonical form.
    pub fn canonical(mut self) -> Glue {
        if self.stretch == 0 {
            self.stretch_order = Order::Normal;
        }
        if self.shrink == 0 {
            self.shrink_order = Order::Normal;
        }
        self
    }
}

/// §177 print_glue
pub fn print_glue(d: i64, order: Order, unit: &str, out: &mut String) {
    print_scaled_into(d, out);
    match order {
        Order::Normal => out.push_str(unit),
        Order::Fil => out.push_str("fil"),
        Order::Fill => out.push_str("fill"),
        Order::Filll => out.push_str("filll"),
    }
}

/// §178 print_spec(p, "pt")
pub fn print_spec(g: &Glue) -> String {
    let mut out = String::new();
    print_scaled_into(g.width, &mut out);
    out.push_str("pt");
    if g.stretch != 0 {
        out.push_str(" plus ");
        print_glue(g.stretch, g.stretch_order, "pt", &mut out);
    }
    if g.shrink != 0 {
        out.push_str(" minus ");
        print_glue(g.shrink, g.shrink_order, "pt", &mut out);
    }
    out
}

// ------------------------------------------------------------------------------------------
// Arithmetic §104-107
// ------------------------------------------------------------------------------------------

/// TeX's global arithmetic status.
#[derive(Clone, Copy, Debug, Default, PartialEq, Eq)]
pub struct Arith {
    pub arith_error: bool,
    pub remainder: i64,
    /// An algorithm had to negate -2^31 (implementation-defined in TeX82).
    pub ambiguous: bool,
}

impl Arith {
    pub fn negate(&mut self, v: i64) -> i64 {
        if v == MIN32 {
            self.ambiguous = true;
        }
        -v
    }
}

/// §105 mult_and_add: `n*x+y`, or arith_error if the magnitude would exceed `max_answer`.
pub fn mult_and_add(a: &mut Arith, mut n: i64, mut x: i64, y: i64, max_answer: i64) -> i64 {
    if n < 0 {
        x = a.negate(x);
        n = a.negate(n);
    }
    if n == 0 {
        return y;
    }
    // the test evaluates -x: implementation-defined for x = -2^31
    if x == MIN32 {
        a.ambiguous = true;
    }
    // Pascal's div truncates toward zero, like Rust's /
    if x <= (max_answer - y) / n && -x <= (max_answer + y) / n {
        n * x + y
    } else {
        a.arith_error = true;
        0
    }
}

/// `nx_plus_y(n,x,y) == mult_and_add(n,x,y,2^30-1)`
pub fn nx_plus_y(a: &mut Arith, n: i64, x: i64, y: i64) -> i64 {
    mult_and_add(a, n, x, y, MAX_DIMEN)
}

/// `mult_integers(n,x) == mult_and_add(n,x,0,2^31-1)`
pub fn mult_integers(a: &mut Arith, n: i64, x: i64) -> i64 {
    mult_and_add(a, n, x, 0, INFINITY)
}

/// §106 x_over_n: truncation toward zero, remainder with the sign of x.
pub fn x_over_n(a: &mut Arith, mut x: i64, mut n: i64) -> i64 {
    let mut negative = false;
    let result;
    if n == 0 {
        a.arith_error = true;
        result = 0;
        a.remainder = x;
    } else {
        if n < 0 {
            x = a.negate(x);
            n = a.negate(n);
            negative = true;
        }
        if x >= 0 {
            result = x / n;
            a.remainder = x % n;
        } else {
            let mx = a.negate(x);
            result = -(mx / n);
            a.remainder = -(mx % n);
        }
    }
    if negative {
        a.remainder = -a.remainder;
    }
    result
}

/// §107 xn_over_d, literal transcription of Knuth's 15-bit splitting (0 <= n,d <= 2^16, d > 0).
pub fn xn_over_d(a: &mut Arith, mut x: i64, n: i64, d: i64) -> i64 {
    let positive;
    if x >= 0 {
        positive = true;
    } else {
        x = a.negate(x);
        positive = false;
    }
    let t = (x % 0o100000) * n;
    let mut u = (x / 0o100000) * n + (t / 0o100000);
    let v = (u % d) * 0o100000 + (t % 0o100000);
    if u / d >= 0o100000 {
        a.arith_error = true;
    } else {
        u = 0o100000 * (u / d) + (v / d);
    }
    if positive {
        a.remainder = v % d;
        u
    } else {
        a.remainder = -(v % d);
        -u
    }
}

/// Second formulation of §107 in plain 64-bit arithmetic: (quotient, remainder, arith_error).
pub fn xn_over_d_exact(x: i64, n: i64, d: i64) -> (i64, i64, bool) {
    let p = x * n;
    let q = p / d;
    let r = p % d;
    (q, r, q.abs() >= 1 << 30)
}

// ------------------------------------------------------------------------------------------
// Tokens
// ------------------------------------------------------------------------------------------

#[derive(Clone, Debug, PartialEq, Eq, Hash)]
pub enum Tok {
    Letter(u8),
    Other(u8),
    Space,
    Cs(String),
}

/// Out of domain: TeX's behaviour involves an error (or a feature) the model does not cover.
#[derive(Clone, Debug, PartialEq, Eq)]
pub struct Ood(pub String);

fn ood<T>(s: &str) -> Result<T, Ood> {
    Err(Ood(s.to_string()))
}

/// TeX's lexer §343-355 for one line of printable ASCII under plain TeX's category codes,
/// restricted to escape / letter / other / space (any other category: out of domain).
/// The end-of-line character is *not* appended: callers terminate their text with a control word.
pub fn lex(src: &str) -> Result<Vec<Tok>, Ood> {
    #[derive(PartialEq)]
    enum St {
        NewLine,
        MidLine,
        SkipBlanks,
    }
    let b = src.as_bytes();
    let mut out = vec![];
    let mut st = St::NewLine;
    let mut i = 0;
    while i < b.len() {
        let c = b[i];
        i += 1;
        match c {
            b'\\' => {
                if i >= b.len() {
                    return ood("escape character at end of line");
                }
                if b[i].is_ascii_alphabetic() {
                    let start = i;
                    while i < b.len() && b[i].is_ascii_alphabetic() {
                        i += 1;
                    }
                    out.push(Tok::Cs(src[start..i].to_string()));
                    st = St::SkipBlanks;
                } else {
                    let ch = b[i];
                    if !(32..127).contains(&ch) || ch == b'^' {
                        return ood("control symbol outside the modelled set");
                    }
                    i += 1;
                    out.push(Tok::Cs((ch as char).to_string()));
                    st = if ch == b' ' { St::SkipBlanks } else { St::MidLine };
                }
            }
            b' ' => {
                if st == St::MidLine {
                    out.push(Tok::Space);
                    st = St::SkipBlanks;
                }
            }
            b'a'..=b'z' | b'A'..=b'Z' => {
                out.push(Tok::Letter(c));
                st = St::MidLine;
            }
            b'{' | b'}' | b'$' | b'&' | b'#' | b'^' | b'_' | b'~' | b'%' => {
                return ood("character with a special category code");
            }
            33..=126 => {
                out.push(Tok::Other(c));
                st = St::MidLine;
            }
            _ => return ood("non printable character"),
        }
    }
    Ok(out)
}

// ------------------------------------------------------------------------------------------
// The machine
// ------------------------------------------------------------------------------------------

pub const NREGS: usize = 8;

#[derive(Clone, Debug, PartialEq, Eq)]
pub struct Regs {
    pub count: [i64; NREGS],
    pub dimen: [i64; NREGS],
    pub skip: [Glue; NREGS],
}

impl Default for Regs {
    fn default() -> Self {
        Regs {
            count: [0; NREGS],
            dimen: [0; NREGS],
            skip: [Glue::ZERO; NREGS],
        }
    }
}

#[derive(Clone, Copy, Debug, PartialEq, Eq, Hash, PartialOrd, Ord)]
pub enum ErrKind {
    /// §445 "Number too big"
    NumberTooBig,
    /// §460 "Dimension too large"
    DimensionTooLarge,
    /// §1236 "Arithmetic overflow" raised by \multiply
    OverflowMultiply,
    /// §1236 "Arithmetic overflow" raised by \divide (division by zero)
    OverflowDivide,
    /// §454 "Illegal unit of measure (replaced by filll)"
    IllegalFilll,
}

#[derive(Clone, Copy, Debug, PartialEq, Eq, Hash)]
pub enum Kind {
    Count,
    Dimen,
    Skip,
}

#[derive(Clone, Copy, Debug, PartialEq)]
pub enum Val {
    Int(i64),
    Dimen(i64),
    Glue(Glue),
}

#[derive(Clone, Copy, PartialEq, Eq, PartialOrd, Ord)]
enum Level {
    Int,
    Dimen,
    Glue,
}

/// Single TeX rules replaced by what the implementation under test does today.
#[derive(Clone, Copy, Debug, Default, PartialEq, Eq)]
pub struct Deviations {
    /// `\multiply` on \count accepts a product of exactly -2^31 (TeX §105: arith_error).
    pub mult_accepts_min: bool,
    /// `\advance` on glue: a zero stretch/shrink of higher order wins (TeX §1239: a zero amount
    /// never carries its order over).
    pub glue_add_keeps_zero_order: bool,
    /// An internal dimension (or glue coerced to one) used as a <dimen> is not range checked
    /// (TeX §448 `attach_sign`: |v| >= 2^30 => "Dimension too large", max_dimen).
    pub internal_dimen_unchecked: bool,
    /// Overflow of <factor><internal unit> clamps to -max_dimen when the unit is negative
    /// (TeX: +max_dimen, then the sign string).
    pub internal_unit_clamp_sign: bool,
    /// `<16383>.<fraction rounding up to 1>fil[l[l]]` gives 2^30 sp without an error (TeX: the
    /// test `abs(cur_val)>=2^30` at attach_sign applies to fil units like to all others).
    pub fil_carry_unchecked: bool,
    /// After `fil`, each further `l` must follow immediately: a blank ends the unit (TeX §454 scans every further l
    /// with scan_keyword("l"), which skips blanks: `fil l` is `fill`).
    pub fil_l_no_blank_skip: bool,
}

pub const N_DEVIATIONS: u32 = 6;
pub const DEVIATION_NAMES: [&str; 6] = [
    "mult_accepts_min",
    "glue_add_keeps_zero_order",
    "internal_dimen_unchecked",
    "internal_unit_clamp_sign",
    "fil_carry_unchecked",
    "fil_l_no_blank_skip",
];

impl Deviations {
    pub fn from_mask(m: u32) -> Deviations {
        Deviations {
            mult_accepts_min: m & 1 != 0,
            glue_add_keeps_zero_order: m & 2 != 0,
            internal_dimen_unchecked: m & 4 != 0,
            internal_unit_clamp_sign: m & 8 != 0,
            fil_carry_unchecked: m & 16 != 0,
            fil_l_no_blank_skip: m & 32 != 0,
        }
    }
}

pub struct Machine {
    /// Remaining input, reversed (next token is last).
    input: Vec<Tok>,
    pub regs: Regs,
    pub em: i64,
    pub ex: i64,
    pub errors: Vec<ErrKind>,
    pub arith: Arith,
    pub dev: Deviations,
    /// Bit i set: deviation i's rule was reached with an input on which it differs from TeX.
    pub fired: u32,
    // TeX globals
    cur_tok: Tok,
    radix: u8,
    cur_order: Order,
    /// scan_units found a fil unit (consulted at attach_sign by deviation fil_carry_unchecked)
    fil_unit: bool,
    /// Which scanning features were exercised (for evidence counters).
    pub seen: Seen,
}

#[derive(Clone, Debug, Default, PartialEq, Eq)]
pub struct Seen {
    pub radix8: u32,
    pub radix10: u32,
    pub radix16: u32,
    pub alpha_char: u32,
    pub alpha_cs: u32,
    pub negative_signs: u32,
    pub multi_signs: u32,
    pub fraction_digits_max: u32,
    pub fractions: u32,
    pub fraction_over_17: u32,
    pub comma_point: u32,
    pub units: Vec<&'static str>,
    pub fil_orders: Vec<u8>,
    pub internal_int: u32,
    pub internal_dimen: u32,
    pub internal_glue: u32,
    pub coerce_glue_to_dimen: u32,
    pub coerce_dimen_to_int: u32,
    pub coerce_glue_to_int: u32,
    pub int_as_dimen_factor: u32,
    pub internal_unit: u32,
    pub the_expansions: u32,
    pub wrapped_advance: u32,
}

type R<T> = Result<T, Ood>;

impl Machine {
    pub fn new(tokens: Vec<Tok>, regs: Regs, dev: Deviations) -> Machine {
        let mut input = tokens;
        input.reverse();
        Machine {
            input,
            regs,
            em: 12 * UNITY,
            ex: 12 * UNITY,
            errors: vec![],
            arith: Arith::default(),
            dev,
            fired: 0,
            cur_tok: Tok::Space,
            radix: 0,
            cur_order: Order::Normal,
            fil_unit: false,
            seen: Seen::default(),
        }
    }

    pub fn remaining(&self) -> Vec<Tok> {
        let mut v = self.input.clone();
        v.reverse();
        v
    }

    // ---- token access -------------------------------------------------------------------

    /// get_next: no expansion.
    fn get_next(&mut self) -> R<()> {
        match self.input.pop() {
            Some(t) => {
                self.cur_tok = t;
                Ok(())
            }
            None => ood("scanner ran off the end of the input"),
        }
    }

    /// get_x_token §380: the only expandable command of the model is `\the`.
    fn get_x_token(&mut self) -> R<()> {
        loop {
            self.get_next()?;
            if self.cur_tok == Tok::Cs("the".into()) {
                // §366 expand: "cv_backup:=cur_val; cvl_backup:=cur_val_level; radix_backup:=radix; co_backup:=cur_order"
                // ... restored afterwards. cur_val is a local of the scanning routines here; radix and cur_order are
                // fields that the nested scan_int / scan_dimen of \the<register> would otherwise clobber
                // (`"7\the\count2` with \count2=0 is "70 = 112, not 7*10+0).
                let radix_backup = self.radix;
                let co_backup = self.cur_order;
                let r = self.expand_the();
                self.radix = radix_backup;
                self.cur_order = co_backup;
                r?;
                continue;
            }
            return Ok(());
        }
    }

    fn back_input(&mut self) {
        self.input.push(self.cur_tok.clone());
    }

    fn internal_kind(t: &Tok) -> Option<Kind> {
        match t {
            Tok::Cs(s) if s == "count" => Some(Kind::Count),
            Tok::Cs(s) if s == "dimen" => Some(Kind::Dimen),
            Tok::Cs(s) if s == "skip" => Some(Kind::Skip),
            _ => None,
        }
    }

    /// §465 the_toks + §464 str_toks: spaces get category 10, everything else category 12.
    fn expand_the(&mut self) -> R<()> {
        self.get_x_token()?;
        let Some(kind) = Self::internal_kind(&self.cur_tok) else {
            return ood("\\the followed by something that is not a register");
        };
        let text = match self.fetch_register(kind)? {
            Val::Int(i) => print_int(i),
            Val::Dimen(d) => {
                let mut s = print_scaled(d);
                s.push_str("pt");
                s
            }
            Val::Glue(g) => print_spec(&g),
        };
        self.seen.the_expansions += 1;
        for c in text.bytes().rev() {
            self.input.push(if c == b' ' { Tok::Space } else { Tok::Other(c) });
        }
        Ok(())
    }

    // ---- §407 scan_keyword -----------------------------------------------------------------

    fn scan_keyword(&mut self, s: &str) -> R<bool> {
        let bytes = s.as_bytes();
        let mut backup: Vec<Tok> = vec![];
        let mut k = 0;
        while k < bytes.len() {
            self.get_x_token()?;
            // (cur_cs=0) and ((cur_chr=s[k]) or (cur_chr=s[k]-"a"+"A")): any category code
            let matches = match &self.cur_tok {
                Tok::Letter(c) | Tok::Other(c) => *c == bytes[k] || *c == bytes[k] - b'a' + b'A',
                _ => false,
            };
            if matches {
                backup.push(self.cur_tok.clone());
                k += 1;
            } else if self.cur_tok != Tok::Space || !backup.is_empty() {
                self.back_input();
                for t in backup.into_iter().rev() {
                    self.input.push(t);
                }
                return Ok(false);
            }
        }
        Ok(true)
    }

    /// §443 Scan an optional space
    fn scan_optional_space(&mut self) -> R<()> {
        self.get_x_token()?;
        if self.cur_tok != Tok::Space {
            self.back_input();
        }
        Ok(())
    }

    /// §406 Get the next non-blank non-call token
    fn get_next_non_blank(&mut self) -> R<()> {
        loop {
            self.get_x_token()?;
            if self.cur_tok != Tok::Space {
                return Ok(());
            }
        }
    }

    /// §441 Get the next non-blank non-sign token; returns `negative`.
    fn get_next_non_blank_non_sign(&mut self) -> R<bool> {
        let mut negative = false;
        let mut signs = 0;
        loop {
            self.get_next_non_blank()?;
            if self.cur_tok == Tok::Other(b'-') {
                negative = !negative;
                self.cur_tok = Tok::Other(b'+');
            }
            if self.cur_tok != Tok::Other(b'+') {
                break;
            }
            signs += 1;
        }
        if negative {
            self.seen.negative_signs += 1;
        }
        if signs > 1 {
            self.seen.multi_signs += 1;
        }
        Ok(negative)
    }

    fn error(&mut self, e: ErrKind) {
        self.errors.push(e);
    }

    // ---- §413 scan_something_internal (registers) -----------------------------------------

    /// `\count`, `\dimen`, `\skip` followed by scan_eight_bit_int (the model has NREGS registers).
    fn fetch_register(&mut self, kind: Kind) -> R<Val> {
        let n = self.scan_int()?;
        if n < 0 || n >= NREGS as i64 {
            return ood("register number outside the model's registers");
        }
        let n = n as usize;
        Ok(match kind {
            Kind::Count => Val::Int(self.regs.count[n]),
            Kind::Dimen => Val::Dimen(self.regs.dimen[n]),
            Kind::Skip => Val::Glue(self.regs.skip[n]),
        })
    }

    fn scan_something_internal(&mut self, level: Level, negative: bool, kind: Kind) -> R<Val> {
        let mut v = self.fetch_register(kind)?;
        match v {
            Val::Int(_) => self.seen.internal_int += 1,
            Val::Dimen(_) => self.seen.internal_dimen += 1,
            Val::Glue(_) => self.seen.internal_glue += 1,
        }
        // §429 Convert cur_val to a lower level
        loop {
            v = match (v, level) {
                (Val::Glue(g), Level::Int) => {
                    self.seen.coerce_glue_to_int += 1;
                    Val::Int(g.width)
                }
                (Val::Glue(g), Level::Dimen) => {
                    self.seen.coerce_glue_to_dimen += 1;
                    Val::Dimen(g.width)
                }
                (Val::Dimen(d), Level::Int) => {
                    self.seen.coerce_dimen_to_int += 1;
                    Val::Int(d)
                }
                _ => break,
            };
        }
        // §430 Fix the reference count, if any, and negate cur_val if negative
        if negative {
            v = match v {
                Val::Glue(g) => Val::Glue(Glue {
                    // §431 Negate all three glue components of cur_val
                    width: self.arith.negate(g.width),
                    stretch: self.arith.negate(g.stretch),
                    shrink: self.arith.negate(g.shrink),
                    ..g
                }),
                Val::Dimen(d) => Val::Dimen(self.arith.negate(d)),
                Val::Int(i) => Val::Int(self.arith.negate(i)),
            };
        }
        Ok(v)
    }

    // ---- §440 scan_int ----------------------------------------------------------------------

    pub fn scan_int(&mut self) -> R<i64> {
        self.radix = 0;
        let mut ok_so_far = true;
        let negative = self.get_next_non_blank_non_sign()?;
        let mut cur_val: i64;
        if self.cur_tok == Tok::Other(b'`') {
            // §442 Scan an alphabetic character code into cur_val: get_token, *no* expansion
            self.get_next()?;
            cur_val = match &self.cur_tok {
                Tok::Cs(name) if name.len() == 1 => {
                    self.seen.alpha_cs += 1;
                    name.as_bytes()[0] as i64
                }
                Tok::Cs(_) => return ood("improper alphabetic constant"),
                Tok::Letter(c) | Tok::Other(c) => {
                    self.seen.alpha_char += 1;
                    *c as i64
                }
                Tok::Space => 32,
            };
            self.scan_optional_space()?;
        } else if let Some(kind) = Self::internal_kind(&self.cur_tok) {
            cur_val = match self.scan_something_internal(Level::Int, false, kind)? {
                Val::Int(i) => i,
                _ => unreachable!("coerced to int"),
            };
        } else {
            // §444 Scan a numeric constant
            self.radix = 10;
            let mut m: i64 = 214748364;
            if self.cur_tok == Tok::Other(b'\'') {
                self.radix = 8;
                m = 0o2000000000;
                self.get_x_token()?;
            } else if self.cur_tok == Tok::Other(b'"') {
                self.radix = 16;
                m = 0o1000000000;
                self.get_x_token()?;
            }
            let mut vacuous = true;
            cur_val = 0;
            // §445 Accumulate the constant until cur_tok is not a suitable digit
            loop {
                let d: i64 = match &self.cur_tok {
                    Tok::Other(c) if c.is_ascii_digit() && (*c - b'0') < self.radix => {
                        (*c - b'0') as i64
                    }
                    Tok::Letter(c) | Tok::Other(c)
                        if self.radix == 16 && (b'A'..=b'F').contains(c) =>
                    {
                        (*c - b'A') as i64 + 10
                    }
                    _ => break,
                };
                vacuous = false;
                if cur_val >= m && (cur_val > m || d > 7 || self.radix != 10) {
                    if ok_so_far {
                        self.error(ErrKind::NumberTooBig);
                        cur_val = INFINITY;
                        ok_so_far = false;
                    }
                } else {
                    cur_val = cur_val * self.radix as i64 + d;
                }
                self.get_x_token()?;
            }
            if vacuous {
                return ood("missing number");
            } else if self.cur_tok != Tok::Space {
                self.back_input();
            }
            match self.radix {
                8 => self.seen.radix8 += 1,
                16 => self.seen.radix16 += 1,
                _ => self.seen.radix10 += 1,
            }
        }
        if negative {
            cur_val = self.arith.negate(cur_val);
        }
        Ok(cur_val)
    }

    // ---- §448 scan_dimen ----------------------------------------------------------------------

    /// scan_dimen(mu=false, inf, shortcut). `shortcut = Some(v)`: cur_val already holds an integer.
    /// The glue order found is left in `self.cur_order`.
    fn scan_dimen(&mut self, inf: bool, shortcut: Option<i64>) -> R<i64> {
        let mut f: i64 = 0;
        self.arith.arith_error = false;
        self.cur_order = Order::Normal;
        self.fil_unit = false;
        let mut negative = false;
        let mut cur_val: i64;
        // `direct`: control reached attach_sign from §449 with an internal dimension
        let mut direct = false;
        let mut at_attach_sign = false;
        match shortcut {
            Some(v) => cur_val = v,
            None => {
                negative = self.get_next_non_blank_non_sign()?;
                if let Some(kind) = Self::internal_kind(&self.cur_tok) {
                    // §449 Fetch an internal dimension and goto attach_sign, or fetch an
                    // internal integer
                    match self.scan_something_internal(Level::Dimen, false, kind)? {
                        Val::Dimen(d) => {
                            cur_val = d;
                            direct = true;
                            at_attach_sign = true;
                        }
                        Val::Int(i) => {
                            cur_val = i;
                            self.seen.int_as_dimen_factor += 1;
                        }
                        Val::Glue(_) => unreachable!("coerced to dimen"),
                    }
                } else {
                    self.back_input();
                    if self.cur_tok == Tok::Other(b',') {
                        self.cur_tok = Tok::Other(b'.');
                        self.seen.comma_point += 1;
                    }
                    if self.cur_tok != Tok::Other(b'.') {
                        cur_val = self.scan_int()?;
                    } else {
                        self.radix = 10;
                        cur_val = 0;
                    }
                    if self.cur_tok == Tok::Other(b',') {
                        self.cur_tok = Tok::Other(b'.');
                        self.seen.comma_point += 1;
                    }
                    if self.radix == 10 && self.cur_tok == Tok::Other(b'.') {
                        // §452 Scan decimal fraction
                        let mut digits: Vec<u8> = vec![];
                        let mut total = 0u32;
                        self.get_next()?; // point_token is being re-scanned
                        loop {
                            self.get_x_token()?;
                            let d = match &self.cur_tok {
                                Tok::Other(c) if c.is_ascii_digit() => *c - b'0',
                                _ => break,
                            };
                            total += 1;
                            if digits.len() < 17 {
                                // digits for k>=17 cannot affect the result
                                digits.push(d);
                            }
                        }
                        f = round_decimals(&digits);
                        if self.cur_tok != Tok::Space {
                            self.back_input();
                        }
                        self.seen.fractions += 1;
                        self.seen.fraction_digits_max = self.seen.fraction_digits_max.max(total);
                        if total > 17 {
                            self.seen.fraction_over_17 += 1;
                        }
                    }
                }
            }
        }
        if !at_attach_sign {
            if cur_val < 0 {
                // in this case f=0
                negative = !negative;
                cur_val = self.arith.negate(cur_val);
            }
            // §453 Scan units and set cur_val to x*(cur_val+f/2^16) ...
            let (v, goto_attach_sign, clamp_negative) = self.scan_units(inf, cur_val, f)?;
            cur_val = v;
            if !goto_attach_sign {
                self.scan_optional_space()?;
            }
            // attach_sign, reached from the units
            let mut too_large = self.arith.arith_error || cur_val.abs() >= 1 << 30;
            if too_large && !self.arith.arith_error && self.fil_unit {
                // 16383 + a fraction that rounds up to 1: exactly 2^30
                self.fired |= 16;
                if self.dev.fil_carry_unchecked {
                    too_large = false;
                }
            }
            if too_large {
                self.error(ErrKind::DimensionTooLarge);
                cur_val = MAX_DIMEN;
                self.arith.arith_error = false;
                if clamp_negative {
                    // deviation internal_unit_clamp_sign (see scan_units)
                    cur_val = -MAX_DIMEN;
                }
            }
        } else {
            // attach_sign, reached directly with an internal dimension
            debug_assert!(direct);
            if cur_val.abs() >= 1 << 30 {
                self.fired |= 4;
                if !self.dev.internal_dimen_unchecked {
                    self.error(ErrKind::DimensionTooLarge);
                    cur_val = MAX_DIMEN;
                }
            }
        }
        if negative {
            cur_val = self.arith.negate(cur_val);
        }
        Ok(cur_val)
    }

    /// §453-458. Returns (cur_val, control went straight to attach_sign, deviation: clamp to
    /// -max_dimen on overflow).
    fn scan_units(&mut self, inf: bool, mut cur_val: i64, mut f: i64) -> R<(i64, bool, bool)> {
        // §454 Scan for fil units; goto attach_fraction if found
        if inf && self.scan_keyword("fil")? {
            self.cur_order = Order::Fil;
            loop {
                // rule reached: a blank follows the fil[l[l]] read so far
                let blank_next = self.input.last() == Some(&Tok::Space);
                if blank_next {
                    self.fired |= 32;
                }
                let more = if self.dev.fil_l_no_blank_skip {
                    // deviation: the next (expanded) token itself must be an l
                    self.get_x_token()?;
                    let is_l = matches!(&self.cur_tok, Tok::Letter(c) | Tok::Other(c) if *c == b'l' || *c == b'L');
                    if !is_l {
                        self.back_input();
                    }
                    is_l
                } else {
                    self.scan_keyword("l")?
                };
                if !more {
                    break;
                }
                if self.cur_order == Order::Filll {
                    self.error(ErrKind::IllegalFilll);
                } else {
                    self.cur_order = match self.cur_order {
                        Order::Fil => Order::Fill,
                        _ => Order::Filll,
                    };
                }
            }
            self.fil_unit = true;
            let o = self.cur_order.index();
            if !self.seen.fil_orders.contains(&o) {
                self.seen.fil_orders.push(o);
            }
            return Ok((self.attach_fraction(cur_val, f), false, false));
        }
        // §455 Scan for units that are internal dimensions; goto attach_sign with cur_val set
        let save_cur_val = cur_val;
        self.get_next_non_blank()?;
        let mut found: Option<i64> = None;
        if let Some(kind) = Self::internal_kind(&self.cur_tok) {
            let v = match self.scan_something_internal(Level::Dimen, false, kind)? {
                Val::Int(i) => i,
                Val::Dimen(d) => d,
                Val::Glue(_) => unreachable!("coerced to dimen"),
            };
            self.seen.internal_unit += 1;
            found = Some(v);
        } else {
            self.back_input();
            if self.scan_keyword("em")? {
                self.note_unit("em");
                self.scan_optional_space()?;
                found = Some(self.em);
            } else if self.scan_keyword("ex")? {
                self.note_unit("ex");
                self.scan_optional_space()?;
                found = Some(self.ex);
            }
        }
        if let Some(v) = found {
            let y = xn_over_d(&mut self.arith, v, f, 0o200000);
            cur_val = nx_plus_y(&mut self.arith, save_cur_val, v, y);
            let mut clamp_negative = false;
            if self.arith.arith_error && v < 0 {
                self.fired |= 8;
                clamp_negative = self.dev.internal_unit_clamp_sign;
            }
            return Ok((cur_val, true, clamp_negative));
        }
        // §457: `true` is outside the quantifier
        if self.scan_keyword("true")? {
            return ood("true units");
        }
        if self.scan_keyword("pt")? {
            self.note_unit("pt");
            return Ok((self.attach_fraction(cur_val, f), false, false));
        }
        // §458 Scan for all other units and adjust cur_val and f accordingly; goto done in the
        // case of scaled points
        let (num, denom): (i64, i64);
        if self.scan_keyword("in")? {
            self.note_unit("in");
            (num, denom) = (7227, 100);
        } else if self.scan_keyword("pc")? {
            self.note_unit("pc");
            (num, denom) = (12, 1);
        } else if self.scan_keyword("cm")? {
            self.note_unit("cm");
            (num, denom) = (7227, 254);
        } else if self.scan_keyword("mm")? {
            self.note_unit("mm");
            (num, denom) = (7227, 2540);
        } else if self.scan_keyword("bp")? {
            self.note_unit("bp");
            (num, denom) = (7227, 7200);
        } else if self.scan_keyword("dd")? {
            self.note_unit("dd");
            (num, denom) = (1238, 1157);
        } else if self.scan_keyword("cc")? {
            self.note_unit("cc");
            (num, denom) = (14856, 1157);
        } else if self.scan_keyword("sp")? {
            self.note_unit("sp");
            return Ok((cur_val, false, false)); // goto done
        } else {
            return ood("illegal unit of measure");
        }
        cur_val = xn_over_d(&mut self.arith, cur_val, num, denom);
        f = (num * f + 0o200000 * self.arith.remainder) / denom;
        cur_val += f / 0o200000;
        f %= 0o200000;
        Ok((self.attach_fraction(cur_val, f), false, false))
    }

    fn note_unit(&mut self, u: &'static str) {
        if !self.seen.units.contains(&u) {
            self.seen.units.push(u);
        }
    }

    /// attach_fraction: if cur_val>=@'40000 then arith_error:=true else cur_val:=cur_val*unity+f
    fn attach_fraction(&mut self, cur_val: i64, f: i64) -> i64 {
        if cur_val >= 0o40000 {
            self.arith.arith_error = true;
            cur_val
        } else {
            cur_val * UNITY + f
        }
    }

    // ---- §461 scan_glue(glue_val) ------------------------------------------------------------

    fn scan_glue(&mut self) -> R<Glue> {
        let negative = self.get_next_non_blank_non_sign()?;
        let width: i64;
        if let Some(kind) = Self::internal_kind(&self.cur_tok) {
            match self.scan_something_internal(Level::Glue, negative, kind)? {
                Val::Glue(g) => return Ok(g),
                Val::Int(i) => width = self.scan_dimen(false, Some(i))?,
                Val::Dimen(d) => width = d,
            }
        } else {
            self.back_input();
            let w = self.scan_dimen(false, None)?;
            width = if negative { self.arith.negate(w) } else { w };
        }
        // §462 Create a new glue specification whose width is cur_val; scan for its stretch and
        // shrink components
        let mut q = Glue {
            width,
            ..Glue::ZERO
        };
        if self.scan_keyword("plus")? {
            q.stretch = self.scan_dimen(true, None)?;
            q.stretch_order = self.cur_order;
        }
        if self.scan_keyword("minus")? {
            q.shrink = self.scan_dimen(true, None)?;
            q.shrink_order = self.cur_order;
        }
        Ok(q)
    }

    // ---- §1236 do_register_command ------------------------------------------------------------

    /// Executes exactly one statement: `\count n [=] <number>`, `\dimen n [=] <dimen>`,
    /// `\skip n [=] <glue>`, or `\advance|\multiply|\divide <register> [by] <operand>`.
    pub fn do_register_command(&mut self) -> R<()> {
        self.get_x_token()?;
        #[derive(PartialEq, Clone, Copy)]
        enum Q {
            Register,
            Advance,
            Multiply,
            Divide,
        }
        let q = match &self.cur_tok {
            Tok::Cs(s) if s == "advance" => Q::Advance,
            Tok::Cs(s) if s == "multiply" => Q::Multiply,
            Tok::Cs(s) if s == "divide" => Q::Divide,
            t if Self::internal_kind(t).is_some() => Q::Register,
            _ => return ood("not a register command"),
        };
        if q != Q::Register {
            self.get_x_token()?;
        }
        let Some(p) = Self::internal_kind(&self.cur_tok) else {
            return ood("arithmetic on something that is not a register");
        };
        // scan_eight_bit_int
        let l = self.scan_int()?;
        if l < 0 || l >= NREGS as i64 {
            return ood("register number outside the model's registers");
        }
        let l = l as usize;
        if q == Q::Register {
            // §405 scan_optional_equals
            self.get_next_non_blank()?;
            if self.cur_tok != Tok::Other(b'=') {
                self.back_input();
            }
        } else {
            let _ = self.scan_keyword("by")?;
        }
        self.arith.arith_error = false;
        match q {
            Q::Register | Q::Advance => {
                // §1238 Compute result of register or advance, put it in cur_val
                match p {
                    Kind::Count => {
                        let mut v = self.scan_int()?;
                        if q == Q::Advance {
                            v = self.wrap32(v + self.regs.count[l]);
                        }
                        self.regs.count[l] = v;
                    }
                    Kind::Dimen => {
                        // scan_normal_dimen
                        let mut v = self.scan_dimen(false, None)?;
                        if q == Q::Advance {
                            v = self.wrap32(v + self.regs.dimen[l]);
                        }
                        self.regs.dimen[l] = v;
                    }
                    Kind::Skip => {
                        let mut g = self.scan_glue()?;
                        if q == Q::Advance {
                            g = self.add_glue(g, self.regs.skip[l]);
                        }
                        self.regs.skip[l] = g;
                    }
                }
                // scan_int/scan_dimen leave arith_error cleared; nothing to report here
            }
            Q::Multiply | Q::Divide => {
                // §1240 Compute result of multiply or divide, put it in cur_val
                let n = self.scan_int()?;
                self.arith.arith_error = false;
                let kind_err = if q == Q::Multiply {
                    ErrKind::OverflowMultiply
                } else {
                    ErrKind::OverflowDivide
                };
                match p {
                    Kind::Count => {
                        let old = self.regs.count[l];
                        let v = if q == Q::Multiply {
                            let mut v = mult_integers(&mut self.arith, old, n);
                            if self.arith.arith_error && old * n == MIN32 {
                                self.fired |= 1;
                                if self.dev.mult_accepts_min {
                                    self.arith.arith_error = false;
                                    v = MIN32;
                                }
                            }
                            v
                        } else {
                            x_over_n(&mut self.arith, old, n)
                        };
                        if self.arith.arith_error {
                            self.error(kind_err);
                        } else {
                            self.regs.count[l] = v;
                        }
                    }
                    Kind::Dimen => {
                        let old = self.regs.dimen[l];
                        let v = if q == Q::Multiply {
                            nx_plus_y(&mut self.arith, old, n, 0)
                        } else {
                            x_over_n(&mut self.arith, old, n)
                        };
                        if self.arith.arith_error {
                            self.error(kind_err);
                        } else {
                            self.regs.dimen[l] = v;
                        }
                    }
                    Kind::Skip => {
                        let s = self.regs.skip[l];
                        let mut r = s;
                        if q == Q::Multiply {
                            r.width = nx_plus_y(&mut self.arith, s.width, n, 0);
                            r.stretch = nx_plus_y(&mut self.arith, s.stretch, n, 0);
                            r.shrink = nx_plus_y(&mut self.arith, s.shrink, n, 0);
                        } else {
                            r.width = x_over_n(&mut self.arith, s.width, n);
                            r.stretch = x_over_n(&mut self.arith, s.stretch, n);
                            r.shrink = x_over_n(&mut self.arith, s.shrink, n);
                        }
                        if self.arith.arith_error {
                            self.error(kind_err);
                        } else {
                            self.regs.skip[l] = r;
                        }
                    }
                }
            }
        }
        Ok(())
    }

    /// `\advance` wraps silently (property statement; TeX82 does not check this addition).
    fn wrap32(&mut self, v: i64) -> i64 {
        let w = v as i32 as i64;
        if w != v {
            self.seen.wrapped_advance += 1;
        }
        w
    }

    /// §1239 Compute the sum of two glue specs: q = the scanned operand, r = the old value.
    fn add_glue(&mut self, q: Glue, r: Glue) -> Glue {
        let tex = add_glue_tex(q, r);
        let today = add_glue_today(q, r);
        for (a, b) in [(q.width, r.width), (q.stretch, r.stretch), (q.shrink, r.shrink)] {
            if (a + b) as i32 as i64 != a + b {
                self.seen.wrapped_advance += 1;
            }
        }
        if tex.canonical() != today.canonical() {
            self.fired |= 2;
            if self.dev.glue_add_keeps_zero_order {
                return today;
            }
        }
        tex
    }
}

fn wrap32(v: i64) -> i64 {
    v as i32 as i64
}

/// §1239 Compute the sum of two glue specs. `q` is the scanned operand (TeX's `cur_val`), `r` the
/// register's old value. Additions wrap like the other `\advance`s.
pub fn add_glue_tex(mut q: Glue, r: Glue) -> Glue {
    q.width = wrap32(q.width + r.width);
    if q.stretch == 0 {
        q.stretch_order = Order::Normal;
    }
    if q.stretch_order == r.stretch_order {
        q.stretch = wrap32(q.stretch + r.stretch);
    } else if q.stretch_order < r.stretch_order && r.stretch != 0 {
        q.stretch = r.stretch;
        q.stretch_order = r.stretch_order;
    }
    if q.shrink == 0 {
        q.shrink_order = Order::Normal;
    }
    if q.shrink_order == r.shrink_order {
        q.shrink = wrap32(q.shrink + r.shrink);
    } else if q.shrink_order < r.shrink_order && r.shrink != 0 {
        q.shrink = r.shrink;
        q.shrink_order = r.shrink_order;
    }
    q
}

/// Deviation `glue_add_keeps_zero_order`: what the implementation does today - the higher order
/// wins whatever the amounts, equal orders add.
pub fn add_glue_today(mut q: Glue, r: Glue) -> Glue {
    q.width = wrap32(q.width + r.width);
    if q.stretch_order == r.stretch_order {
        q.stretch = wrap32(q.stretch + r.stretch);
    } else if q.stretch_order < r.stretch_order {
        q.stretch = r.stretch;
        q.stretch_order = r.stretch_order;
    }
    if q.shrink_order == r.shrink_order {
        q.shrink = wrap32(q.shrink + r.shrink);
    } else if q.shrink_order < r.shrink_order {
        q.shrink = r.shrink;
        q.shrink_order = r.shrink_order;
    }
    q
}

/// The physical units of §458 other than `sp`: (keyword, num, denom); `pt` is (1,1).
pub const PHYSICAL_UNITS: [(&str, i64, i64); 8] = [
    ("pt", 1, 1),
    ("in", 7227, 100),
    ("pc", 12, 1),
    ("cm", 7227, 254),
    ("mm", 7227, 2540),
    ("bp", 7227, 7200),
    ("dd", 1238, 1157),
    ("cc", 14856, 1157),
];

/// §458 + `attach_fraction` + the range test at `attach_sign` for `cur_val + f/2^16` units of
/// num/denom points (cur_val >= 0, 0 <= f < 2^16). `None` = "Dimension too large".
pub fn physical_unit_to_sp(cur_val: i64, f: i64, num: i64, denom: i64) -> Option<i64> {
    let mut a = Arith::default();
    let mut cur_val = xn_over_d(&mut a, cur_val, num, denom);
    let mut f = (num * f + 0o200000 * a.remainder) / denom;
    cur_val += f / 0o200000;
    f %= 0o200000;
    if cur_val >= 0o40000 {
        a.arith_error = true;
    } else {
        cur_val = cur_val * UNITY + f;
    }
    if a.arith_error || cur_val.abs() >= 1 << 30 {
        None
    } else {
        Some(cur_val)
    }
}

/// Result of running one statement through the model.
#[derive(Clone, Debug)]
pub struct StatementResult {
    pub regs: Regs,
    pub errors: Vec<ErrKind>,
    pub ambiguous: bool,
    pub fired: u32,
    pub seen: Seen,
    /// Characters left over after the statement (deviation runs only: a deviation that ends a unit early leaves the
    /// rest of it behind as text, which the engine typesets before the read-back).
    pub leftover: String,
}

/// Lex `text` (which must end with `\relax`), execute the one register command it contains on
/// `regs`, and require that exactly the final `\relax` is left over.
pub fn run_statement(text: &str, regs: &Regs, dev: Deviations) -> Result<StatementResult, Ood> {
    let toks = lex(text)?;
    let mut m = Machine::new(toks, regs.clone(), dev);
    m.do_register_command()?;
    let rest = m.remaining();
    if rest != [Tok::Cs("relax".into())] {
        return Err(Ood(format!("tokens left over after the statement: {rest:?}")));
    }
    Ok(StatementResult {
        regs: m.regs,
        errors: m.errors,
        ambiguous: m.arith.ambiguous,
        fired: m.fired,
        seen: m.seen,
        leftover: String::new(),
    })
}

/// `\the` of a register (§465).
pub fn the_register(regs: &Regs, kind: Kind, n: usize) -> String {
    match kind {
        Kind::Count => print_int(regs.count[n]),
        Kind::Dimen => {
            let mut s = print_scaled(regs.dimen[n]);
            s.push_str("pt");
            s
        }
        Kind::Skip => print_spec(&regs.skip[n]),
    }
}

/// Convenience for calibration: scan `text` as a <dimen> terminated by `\relax`.
pub fn scan_dimen_text(text: &str) -> Result<(i64, Vec<ErrKind>), Ood> {
    let toks = lex(&format!("{text}\\relax"))?;
    let mut m = Machine::new(toks, Regs::default(), Deviations::default());
    let v = m.scan_dimen(false, None)?;
    if m.remaining() != [Tok::Cs("relax".into())] {
        return ood("tokens left over");
    }
    Ok((v, m.errors))
}

/// Convenience for calibration: scan `text` as a <number> terminated by `\relax`.
pub fn scan_int_text(text: &str) -> Result<(i64, Vec<ErrKind>), Ood> {
    let toks = lex(&format!("{text}\\relax"))?;
    let mut m = Machine::new(toks, Regs::default(), Deviations::default());
    let v = m.scan_int()?;
    if m.remaining() != [Tok::Cs("relax".into())] {
        return ood("tokens left over");
    }
    Ok((v, m.errors))
}

/// Convenience for calibration: scan `text` as <glue> terminated by `\relax`.
pub fn scan_glue_text(text: &str) -> Result<(Glue, Vec<ErrKind>), Ood> {
    let toks = lex(&format!("{text}\\relax"))?;
    let mut m = Machine::new(toks, Regs::default(), Deviations::default());
    let v = m.scan_glue()?;
    if m.remaining() != [Tok::Cs("relax".into())] {
        return ood("tokens left over");
    }
    Ok((v, m.errors))
}

#[cfg(test)]
mod tests {
    use super::*;

    #[test]
    fn texbook_facts() {
        let p = |t: &str| {
            let (v, e) = scan_dimen_text(t).unwrap();
            assert!(e.is_empty());
            print_scaled(v)
        };
        assert_eq!(p("1in"), "72.26999");
        assert_eq!(p("1cm"), "28.45274");
        assert_eq!(p("1mm"), "2.84526");
        assert_eq!(p("1bp"), "1.00374");
        assert_eq!(p("1dd"), "1.07");
        assert_eq!(p("1cc"), "12.8401");
        assert_eq!(p("1pc"), "12.0");
        assert_eq!(p("1sp"), "0.00002");
        assert_eq!(p("16383.99999pt"), "16383.99998");
        assert_eq!(p("0.075in"), print_scaled(355207));
        assert_eq!(scan_dimen_text("16384pt").unwrap(), (MAX_DIMEN, vec![ErrKind::DimensionTooLarge]));
        assert_eq!(scan_int_text("-2147483648").unwrap(), (-INFINITY, vec![ErrKind::NumberTooBig]));
        assert_eq!(scan_int_text("\"7FFFFFFF").unwrap(), (INFINITY, vec![]));
        assert_eq!(scan_int_text("'17777777777").unwrap(), (INFINITY, vec![]));
        assert_eq!(scan_int_text("- -`\\a").unwrap(), (97, vec![]));
        // expansion inside a constant keeps the radix (§366 radix_backup)
        assert_eq!(scan_int_text("\"7\\the\\count2 ").unwrap(), (112, vec![]));
        assert_eq!(scan_int_text("'7\\the\\count2 ").unwrap(), (56, vec![]));
    }

    #[test]
    fn statements() {
        let mut regs = Regs::default();
        let r = run_statement("\\skip1=1pt plus 0fil\\relax", &regs, Deviations::default()).unwrap();
        regs = r.regs;
        let r = run_statement("\\advance\\skip1 by 0pt plus 1pt\\relax", &regs, Deviations::default()).unwrap();
        assert_eq!(the_register(&r.regs, Kind::Skip, 1), "1.0pt plus 1.0pt");
        assert_eq!(r.fired, 2);
        let r = run_statement("\\advance\\skip1 by 0pt plus 1pt\\relax", &regs, Deviations::from_mask(2)).unwrap();
        assert_eq!(the_register(&r.regs, Kind::Skip, 1), "1.0pt");
        regs.count[1] = -(1 << 30);
        let r = run_statement("\\multiply\\count1 by 2\\relax", &regs, Deviations::default()).unwrap();
        assert_eq!(r.errors, vec![ErrKind::OverflowMultiply]);
        assert_eq!(r.regs.count[1], -(1 << 30));
        regs.dimen[2] = -UNITY;
        let r = run_statement("\\dimen1=1.5\\dimen2\\relax", &regs, Deviations::default()).unwrap();
        assert_eq!(r.regs.dimen[1], -UNITY * 3 / 2);
        let r = run_statement("\\dimen1=\\the\\dimen2\\relax", &regs, Deviations::default()).unwrap();
        assert_eq!(r.regs.dimen[1], -UNITY);
        let r = run_statement("\\skip1=1pt plus 1fil l L minus 2 FiLl\\relax", &regs, Deviations::default()).unwrap();
        assert_eq!(the_register(&r.regs, Kind::Skip, 1), "1.0pt plus 1.0filll minus 2.0fill");
    }
}
