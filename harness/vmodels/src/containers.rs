//! Reference models for property C20 (core containers and identifiers).
//!
//! Nothing here is a transcription of a TeX section: the contracts are the ones stated in the
//! module documentation of `texcraft-stdext` (groupingmap.rs, interner.rs, substringsearch.rs) and
//! in the property text. They are written in the most naive way available, so that they share no
//! idea with the implementation:
//!
//! * `ScopedMap`      - TeX's grouping semantics as a *stack of snapshots*: `begin` copies the top
//!                      map, `end` throws the top map away, a local insert writes the top map, a
//!                      global insert writes *every* map of the stack (TeX: The Program §277-283:
//!                      a global assignment wins over every save-stack entry for that location).
//!                      The implementation keeps one map and an undo log per group instead.
//! * `InternModel`    - string -> ordinal of first occurrence, via a plain vector scan.
//! * `window_matches` - "the last m elements equal the pattern", by comparing windows.

use std::collections::BTreeMap;

/// One item of a replay of a scoped map (mirrors the shape of `groupingmap::Item`, but is our
/// own type: this crate does not depend on /repo).
#[derive(Clone, Debug, PartialEq, Eq, Hash)]
pub enum ReplayItem<K, V> {
    BeginGroup,
    Value(K, V),
}

/// Stack-of-snapshots model of a map with TeX grouping.
#[derive(Clone, Debug, PartialEq, Eq, Hash)]
pub struct ScopedMap<K: Ord + Clone, V: Clone> {
    /// `stack[0]` is the global scope; `stack.last()` is what is visible now. Never empty.
    stack: Vec<BTreeMap<K, V>>,
}

impl<K: Ord + Clone, V: Clone> Default for ScopedMap<K, V> {
    fn default() -> Self {
        ScopedMap {
            stack: vec![BTreeMap::new()],
        }
    }
}

impl<K: Ord + Clone, V: Clone> ScopedMap<K, V> {
    pub fn new() -> Self {
        Default::default()
    }

    fn top(&self) -> &BTreeMap<K, V> {
        self.stack.last().expect("stack is never empty")
    }

    /// Local insert: only the visible map changes. Returns whether the key was visible before.
    pub fn insert_local(&mut self, k: K, v: V) -> bool {
        self.stack
            .last_mut()
            .expect("stack is never empty")
            .insert(k, v)
            .is_some()
    }

    /// Global insert: the value is written into every snapshot, so no later `end` can undo it.
    /// Returns whether the key was visible before.
    pub fn insert_global(&mut self, k: K, v: V) -> bool {
        let was = self.top().contains_key(&k);
        for m in &mut self.stack {
            m.insert(k.clone(), v.clone());
        }
        was
    }

    pub fn begin(&mut self) {
        let copy = self.top().clone();
        self.stack.push(copy);
    }

    /// `Err(())` exactly when no group is open (nothing changes then).
    pub fn end(&mut self) -> Result<(), ()> {
        if self.stack.len() == 1 {
            return Err(());
        }
        self.stack.pop();
        Ok(())
    }

    pub fn get(&self, k: &K) -> Option<&V> {
        self.top().get(k)
    }

    pub fn len(&self) -> usize {
        self.top().len()
    }

    pub fn is_empty(&self) -> bool {
        self.top().is_empty()
    }

    /// Number of open groups.
    pub fn depth(&self) -> usize {
        self.stack.len() - 1
    }

    /// Visible (key, value) pairs in key order.
    pub fn visible(&self) -> Vec<(K, V)> {
        self.top()
            .iter()
            .map(|(k, v)| (k.clone(), v.clone()))
            .collect()
    }

    /// All snapshots, outermost first (for witnesses).
    pub fn snapshots(&self) -> Vec<Vec<(K, V)>> {
        self.stack
            .iter()
            .map(|m| m.iter().map(|(k, v)| (k.clone(), v.clone())).collect())
            .collect()
    }

    /// What a replay (`BeginGroup` = begin, `Value` = *local* insert) builds.
    pub fn from_replay<I: IntoIterator<Item = ReplayItem<K, V>>>(items: I) -> Self {
        let mut m = Self::new();
        for it in items {
            match it {
                ReplayItem::BeginGroup => m.begin(),
                ReplayItem::Value(k, v) => {
                    m.insert_local(k, v);
                }
            }
        }
        m
    }
}

impl<K: Ord + Clone, V: Clone + PartialEq> ScopedMap<K, V> {
    /// True iff the key's entry differs between two adjacent snapshots, i.e. some open group
    /// has to restore (or delete) this key when it ends.
    pub fn shadowed(&self, k: &K) -> bool {
        self.stack.windows(2).any(|w| w[0].get(k) != w[1].get(k))
    }

    /// Number of (open group, key) pairs for which the group's end changes the key.
    pub fn pending_restores(&self) -> usize {
        self.stack
            .windows(2)
            .map(|w| {
                let removed = w[1].iter().filter(|(k, v)| w[0].get(k) != Some(v)).count();
                // keys can never disappear inside a group (there is no remove operation)
                debug_assert!(w[0].keys().all(|k| w[1].contains_key(k)));
                removed
            })
            .sum()
    }
}

/// Model of a string interner: a string's identity is the ordinal of its first occurrence.
#[derive(Clone, Debug, Default)]
pub struct InternModel {
    strings: Vec<String>,
}

impl InternModel {
    pub fn new() -> Self {
        Default::default()
    }
    /// Ordinal of `s` if it was interned before.
    pub fn get(&self, s: &str) -> Option<usize> {
        self.strings.iter().position(|t| t == s)
    }
    /// (ordinal, newly added?)
    pub fn get_or_intern(&mut self, s: &str) -> (usize, bool) {
        match self.get(s) {
            Some(i) => (i, false),
            None => {
                self.strings.push(s.to_string());
                (self.strings.len() - 1, true)
            }
        }
    }
    pub fn resolve(&self, ordinal: usize) -> Option<&str> {
        self.strings.get(ordinal).map(|s| s.as_str())
    }
    pub fn len(&self) -> usize {
        self.strings.len()
    }
    pub fn is_empty(&self) -> bool {
        self.strings.is_empty()
    }
}

/// True iff the pattern (length m >= 1) equals `text[i+1-m ..= i]`, i.e. a streaming matcher must
/// answer `true` right after it was handed `text[i]`.
pub fn window_match_at<T: PartialEq>(pattern: &[T], text: &[T], i: usize) -> bool {
    let m = pattern.len();
    m >= 1 && i < text.len() && i + 1 >= m && text[i + 1 - m..=i] == *pattern
}

/// `out[i] = window_match_at(pattern, text, i)`. Overlapping occurrences all count.
pub fn window_matches<T: PartialEq>(pattern: &[T], text: &[T]) -> Vec<bool> {
    (0..text.len())
        .map(|i| window_match_at(pattern, text, i))
        .collect()
}

#[cfg(test)]
mod tests {
    use super::*;

    #[test]
    fn scoped_map_basics() {
        let mut m: ScopedMap<u8, u8> = ScopedMap::new();
        assert_eq!(m.end(), Err(()));
        assert!(!m.insert_local(1, 10));
        m.begin();
        assert!(m.insert_local(1, 11));
        assert!(!m.insert_local(2, 20));
        m.begin();
        assert!(m.insert_global(2, 21));
        assert!(!m.insert_global(3, 30));
        assert_eq!(m.visible(), vec![(1, 11), (2, 21), (3, 30)]);
        assert_eq!(m.end(), Ok(()));
        assert_eq!(m.visible(), vec![(1, 11), (2, 21), (3, 30)]);
        assert_eq!(m.end(), Ok(()));
        assert_eq!(m.visible(), vec![(1, 10), (2, 21), (3, 30)]);
        assert_eq!(m.end(), Err(()));
    }

    #[test]
    fn windows() {
        assert_eq!(
            window_matches(&[2, 3, 2], &[1, 2, 3, 2, 3, 2]),
            vec![false, false, false, true, false, true]
        );
        assert_eq!(window_matches(&[1, 1], &[1, 1, 1]), vec![false, true, true]);
    }

    #[test]
    fn interner() {
        let mut m = InternModel::new();
        assert_eq!(m.get_or_intern("a"), (0, true));
        assert_eq!(m.get_or_intern(""), (1, true));
        assert_eq!(m.get_or_intern("a"), (0, false));
        assert_eq!(m.get("b"), None);
        assert_eq!(m.resolve(1), Some(""));
    }
}
