//! Reference model for `hpack` — TeX: The Program §649–667 (and §108 badness, §103 print_scaled,
//! §186 for the printed form of a glue set).
//!
//! The model works on its own item type; the monitor (c15) converts the repository's
//! `ds::Horizontal` nodes into it. Nothing here depends on /repo.
//!
//! ```text
//! §650  d←0; x←0; total_stretch[normal..filll]←0; total_shrink[normal..filll]←0
//! §651  char/ligature: §654     box/rule: §653     glue: §656    kern, math: x←x+width(p)
//!       ins/mark/adjust, penalty, discretionary, whatsit: contribute nothing
//! §653  x←x+width(p); s←shift_amount(p) (0 for rules);
//!       if height(p)−s>h then h←height(p)−s;  if depth(p)+s>d then d←depth(p)+s
//! §656  x←x+width(g); total_stretch[stretch_order(g)] += stretch(g); total_shrink[shrink_order(g)] += shrink(g)
//! §657  if m=additional then w←x+w;  width(r)←w;  x←w−x;
//!       x=0: glue_sign←normal, glue_order←normal, glue_set←0.0
//! §658  x>0: o←highest order with total_stretch[o]≠0 (normal if none)  (§659)
//!       glue_order←o; glue_sign←stretching;
//!       if total_stretch[o]≠0 then glue_set←x/total_stretch[o] else glue_sign←normal, glue_set←0.0
//! §664  x<0: o←highest order with total_shrink[o]≠0 (normal if none)   (§665)
//!       glue_order←o; glue_sign←shrinking;
//!       if total_shrink[o]≠0 then glue_set←(−x)/total_shrink[o] else glue_sign←normal, glue_set←0.0
//!       if (total_shrink[o]<−x)∧(o=normal)∧(list_ptr(r)≠null) then glue_set←1.0   {overfull}
//! ```

pub const NORMAL: usize = 0;
pub const FIL: usize = 1;
pub const FILL: usize = 2;
pub const FILLL: usize = 3;

#[derive(Clone, Debug, PartialEq, Eq, Hash)]
pub enum Item {
    /// char, ligature, hlist, vlist, rule: contributes width and (shifted) height/depth.
    /// For characters, ligatures and rules `shift` is 0 (§653: `if type(p)>=rule_node then s←0`).
    Boxy { w: i32, h: i32, d: i32, shift: i32 },
    /// §656.
    Glue {
        w: i32,
        stretch: i32,
        stretch_order: usize,
        shrink: i32,
        shrink_order: usize,
    },
    /// kern (any kind) and math: width only.
    Kern { w: i32 },
    /// penalty, discretionary, whatsit, mark, insertion, adjust: `othercases do_nothing`.
    Inert,
}

#[derive(Clone, Copy, Debug, PartialEq, Eq)]
pub enum Target {
    Exactly(i32),
    Additional(i32),
}

#[derive(Clone, Copy, Debug, PartialEq, Eq)]
pub enum Sign {
    Normal,
    Stretching,
    Shrinking,
}

#[derive(Clone, Debug, PartialEq, Eq)]
pub struct Packed {
    pub width: i64,
    pub height: i64,
    pub depth: i64,
    pub natural: i64,
    /// w − natural
    pub excess: i64,
    pub total_stretch: [i64; 4],
    pub total_shrink: [i64; 4],
    pub sign: Sign,
    pub order: usize,
    /// glue_set as an exact rational `set_num / set_den` (set_den != 0). Meaningless (0/1) when
    /// `sign == Normal`. May be negative when the relevant total is negative.
    pub set_num: i64,
    pub set_den: i64,
    /// §664: the box is overfull (glue_set forced to 1.0).
    pub overfull: bool,
    /// Highest order that occurs on *any* glue node in the relevant direction, whether or not
    /// its total is zero (used by monitors for trigger predicates; not part of TeX's result).
    pub max_order_present_stretch: usize,
    pub max_order_present_shrink: usize,
}

impl Packed {
    /// |glue_set| as (num, den) with den > 0; (0,1) when the glue is not set.
    pub fn abs_ratio(&self) -> (i64, i64) {
        if self.sign == Sign::Normal {
            (0, 1)
        } else {
            (self.set_num.abs(), self.set_den.abs())
        }
    }
}

fn highest_nonzero(t: &[i64; 4]) -> usize {
    // §659 / §665
    if t[FILLL] != 0 {
        FILLL
    } else if t[FILL] != 0 {
        FILL
    } else if t[FIL] != 0 {
        FIL
    } else {
        NORMAL
    }
}

/// Accumulated dimensions, shared by `hpack` and by deviation models.
pub struct Totals {
    pub natural: i64,
    pub height: i64,
    pub depth: i64,
    pub total_stretch: [i64; 4],
    pub total_shrink: [i64; 4],
    pub max_order_present_stretch: usize,
    pub max_order_present_shrink: usize,
    pub n_glue: usize,
}

pub fn totals(list: &[Item]) -> Totals {
    let mut t = Totals {
        natural: 0,
        height: 0,
        depth: 0,
        total_stretch: [0; 4],
        total_shrink: [0; 4],
        max_order_present_stretch: NORMAL,
        max_order_present_shrink: NORMAL,
        n_glue: 0,
    };
    for it in list {
        match *it {
            Item::Boxy { w, h, d, shift } => {
                t.natural += w as i64;
                let hh = h as i64 - shift as i64;
                let dd = d as i64 + shift as i64;
                if hh > t.height {
                    t.height = hh;
                }
                if dd > t.depth {
                    t.depth = dd;
                }
            }
            Item::Glue {
                w,
                stretch,
                stretch_order,
                shrink,
                shrink_order,
            } => {
                t.natural += w as i64;
                t.total_stretch[stretch_order] += stretch as i64;
                t.total_shrink[shrink_order] += shrink as i64;
                t.max_order_present_stretch = t.max_order_present_stretch.max(stretch_order);
                t.max_order_present_shrink = t.max_order_present_shrink.max(shrink_order);
                t.n_glue += 1;
            }
            Item::Kern { w } => t.natural += w as i64,
            Item::Inert => {}
        }
    }
    t
}

/// TeX's hpack.
pub fn hpack(list: &[Item], target: Target) -> Packed {
    let t = totals(list);
    let width = match target {
        Target::Exactly(w) => w as i64,
        Target::Additional(a) => t.natural + a as i64,
    };
    let x = width - t.natural;
    let mut p = Packed {
        width,
        height: t.height,
        depth: t.depth,
        natural: t.natural,
        excess: x,
        total_stretch: t.total_stretch,
        total_shrink: t.total_shrink,
        sign: Sign::Normal,
        order: NORMAL,
        set_num: 0,
        set_den: 1,
        overfull: false,
        max_order_present_stretch: t.max_order_present_stretch,
        max_order_present_shrink: t.max_order_present_shrink,
    };
    if x == 0 {
        return p;
    }
    if x > 0 {
        let o = highest_nonzero(&t.total_stretch);
        p.order = o;
        if t.total_stretch[o] != 0 {
            p.sign = Sign::Stretching;
            p.set_num = x;
            p.set_den = t.total_stretch[o];
        }
        return p;
    }
    let o = highest_nonzero(&t.total_shrink);
    p.order = o;
    if t.total_shrink[o] != 0 {
        p.sign = Sign::Shrinking;
        p.set_num = -x;
        p.set_den = t.total_shrink[o];
    }
    if t.total_shrink[o] < -x && o == NORMAL && !list.is_empty() {
        // set_glue_ratio_one; with glue_sign=normal (total 0) the ratio is never applied.
        p.overfull = true;
        p.set_num = 1;
        p.set_den = 1;
    }
    p
}

/// Deviation model for known finding C15-dominating-order-only: instead of four totals per
/// direction only the total of the *highest order seen on any glue node* is kept (a glue node of a
/// higher order replaces the running total even if its amount is zero). Everything else as TeX.
pub fn hpack_dominating_order_only(list: &[Item], target: Target) -> Packed {
    let mut p = hpack(list, target);
    let x = p.excess;
    p.sign = Sign::Normal;
    p.order = NORMAL;
    p.set_num = 0;
    p.set_den = 1;
    p.overfull = false;
    if x == 0 {
        return p;
    }
    if x > 0 {
        let o = p.max_order_present_stretch;
        let tot = p.total_stretch[o];
        if tot != 0 {
            p.sign = Sign::Stretching;
            p.order = o;
            p.set_num = x;
            p.set_den = tot;
        }
        return p;
    }
    let o = p.max_order_present_shrink;
    let tot = p.total_shrink[o];
    p.order = o;
    if tot != 0 {
        p.sign = Sign::Shrinking;
        p.set_num = -x;
        p.set_den = tot;
    }
    if tot < -x && o == NORMAL && !list.is_empty() {
        p.overfull = true;
        p.set_num = 1;
        p.set_den = 1;
    }
    p
}

/// §108. `t ≥ 0`.
pub fn badness(t: i64, s: i64) -> i32 {
    if t == 0 {
        return 0;
    }
    if s <= 0 {
        return 10000;
    }
    let r: i64 = if t <= 7_230_584 {
        (t * 297) / s
    } else if s >= 1_663_497 {
        t / (s / 297)
    } else {
        t
    };
    if r > 1290 {
        10000
    } else {
        ((r * r * r + 0o400000) / 0o1000000) as i32
    }
}

/// §103 print_scaled (without unit).
pub fn print_scaled(s: i64) -> String {
    let mut out = String::new();
    let mut s = s;
    if s < 0 {
        out.push('-');
        s = -s;
    }
    out.push_str(&(s / 65536).to_string());
    out.push('.');
    let mut s = 10 * (s % 65536) + 5;
    let mut delta = 10;
    loop {
        if delta > 65536 {
            s = s + 0o100000 - 50000;
        }
        out.push((b'0' + (s / 65536) as u8) as char);
        s = 10 * (s % 65536);
        delta *= 10;
        if s <= delta {
            break;
        }
    }
    out
}

/// §102 round_decimals on the digits after the point, plus the integer part: the inverse of
/// `print_scaled` for non-negative values. Returns None on malformed input.
pub fn parse_scaled(text: &str) -> Option<i64> {
    let (neg, text) = match text.strip_prefix('-') {
        Some(r) => (true, r),
        None => (false, text),
    };
    let (int_s, frac_s) = match text.split_once('.') {
        Some((a, b)) => (a, b),
        None => (text, ""),
    };
    if int_s.is_empty() || !int_s.bytes().all(|b| b.is_ascii_digit()) {
        return None;
    }
    if !frac_s.bytes().all(|b| b.is_ascii_digit()) {
        return None;
    }
    let int: i64 = int_s.parse().ok()?;
    let digits: Vec<i64> = frac_s.bytes().take(17).map(|b| (b - b'0') as i64).collect();
    let mut a: i64 = 0;
    for d in digits.iter().rev() {
        a = (a + d * 131072) / 10;
    }
    let frac = (a + 1) / 2;
    let v = int * 65536 + frac;
    Some(if neg { -v } else { v })
}

/// The number TeX prints after "glue set " (§186): round(unity·|g|) with |g| capped at 20000,
/// as a scaled integer, computed exactly (round half up).
pub fn printed_glue_set_exact(abs_num: i64, abs_den: i64) -> i64 {
    debug_assert!(abs_den > 0 && abs_num >= 0);
    let cap = 20000i128 * 65536;
    let v = (abs_num as i128 * 65536 * 2 + abs_den as i128) / (2 * abs_den as i128);
    if v > cap {
        cap as i64
    } else {
        v as i64
    }
}

#[cfg(test)]
mod tests {
    use super::*;

    fn glue(w: i32, st: i32, so: usize, sh: i32, ho: usize) -> Item {
        Item::Glue {
            w,
            stretch: st,
            stretch_order: so,
            shrink: sh,
            shrink_order: ho,
        }
    }

    #[test]
    fn print_scaled_examples() {
        assert_eq!(print_scaled(65536), "1.0");
        assert_eq!(print_scaled(0), "0.0");
        assert_eq!(print_scaled(32768), "0.5");
        assert_eq!(print_scaled(1), "0.00002");
        assert_eq!(print_scaled(-98304), "-1.5");
        for v in [0i64, 1, 2, 3, 65535, 65536, 65537, 123456, 41959, 20000 * 65536] {
            assert_eq!(parse_scaled(&print_scaled(v)), Some(v), "{v}");
        }
    }

    #[test]
    fn badness_examples() {
        // TeXbook: badness ≈ 100·(t/s)^3
        assert_eq!(badness(0, 0), 0);
        assert_eq!(badness(1, 0), 10000);
        assert_eq!(badness(65536, 65536), 100);
        assert_eq!(badness(65536, 131072), 12);
        assert_eq!(badness(655360, 65536), 10000);
    }

    #[test]
    fn finite_stretch_next_to_zero_fil() {
        let l = vec![glue(0, 10 << 16, NORMAL, 0, NORMAL), glue(0, 0, FIL, 0, NORMAL)];
        let p = hpack(&l, Target::Exactly(5 << 16));
        assert_eq!((p.sign, p.order, p.abs_ratio()), (Sign::Stretching, NORMAL, (5 << 16, 10 << 16)));
        let q = hpack_dominating_order_only(&l, Target::Exactly(5 << 16));
        assert_eq!(q.sign, Sign::Normal);
    }

    #[test]
    fn overfull_and_shift() {
        let l = vec![
            Item::Boxy { w: 100, h: 10, d: 3, shift: 4 },
            glue(10, 0, NORMAL, 5, NORMAL),
        ];
        let p = hpack(&l, Target::Exactly(100));
        assert!(p.overfull);
        assert_eq!(p.abs_ratio(), (1, 1));
        assert_eq!((p.height, p.depth), (6, 7));
        let p = hpack(&l, Target::Exactly(105));
        assert!(!p.overfull);
        assert_eq!(p.abs_ratio(), (5, 5));
    }
}
