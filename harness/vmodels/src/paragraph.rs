//! C12 reference model - building a paragraph (text -> horizontal list -> lines).
//!
//! Everything here is our own transcription of *TeX: The Program* (section numbers as in the
//! 2021 edition); nothing depends on /repo.
//!
//! * §102/§103  `round_decimals`, `print_scaled`   (calibration against printed goldens, witnesses)
//! * §107       `xn_over_d`
//! * §564-§575  just enough of the TFM reader to get a font's widths and `\fontdimen`s
//!              independently of the repo's `tfm` crate (`TfmLite`)
//! * §1034      space factor; §1041-§1044 inter-word glue (`interword_glue`)
//! * §148       discardable / precedes_break predicates, legal breakpoints (§866-§869)
//! * §816       finishing the list before line breaking
//! * §877-§890  `post_line_break`: what each line box must contain (`expected_lines`), which
//!              penalty follows it (`interline_penalty`), its width and indent (`line_geometry`)
//! * a second, differently written formulation of "nothing lost / duplicated / reordered":
//!   `check_conservation` consumes the list with a cursor while reading the produced lines.
//!
//! Two *deviation models* (see BUILDING.md, known-finding policy) are selectable:
//! `Prune::None` (the code under test does not execute §879 at all) and
//! `SpaceRule::SpaceSkipUnscaled` (a non-zero `\spaceskip` is used as is when the space factor is
//! not 1000, i.e. §1044 is skipped for it).

// ------------------------------------------------------------------------------------------
// arithmetic

pub const UNITY: i32 = 1 << 16;

/// TeX §107. Returns `None` where TeX would set `arith_error`.
pub fn xn_over_d(x: i32, n: i32, d: i32) -> Option<i32> {
    debug_assert!((0..=0o200000).contains(&n) && d > 0 && d <= 0o200000);
    let positive = x >= 0;
    let x: i64 = (x as i64).abs();
    let n = n as i64;
    let d = d as i64;
    let t = (x % 0o100000) * n;
    let mut u = (x / 0o100000) * n + (t / 0o100000);
    let v = (u % d) * 0o100000 + (t % 0o100000);
    if u / d >= 0o100000 {
        return None;
    }
    u = 0o100000 * (u / d) + (v / d);
    let u = u as i32;
    Some(if positive { u } else { -u })
}

/// TeX §102: the scaled value of `.d0 d1 d2 ...`.
pub fn round_decimals(digits: &[u8]) -> i32 {
    let mut a: i32 = 0;
    for d in digits.iter().rev() {
        a = (a + (*d as i32) * 2 * UNITY) / 10;
    }
    (a + 1) / 2
}

/// Parses what `print_scaled` prints ("-12.5", "3.33333"); `None` if it is not of that form.
pub fn parse_printed_scaled(s: &str) -> Option<i32> {
    let (neg, s) = match s.strip_prefix('-') {
        Some(r) => (true, r),
        None => (false, s),
    };
    let (int, frac) = match s.split_once('.') {
        Some((a, b)) => (a, b),
        None => (s, ""),
    };
    if int.is_empty() || !int.bytes().all(|b| b.is_ascii_digit()) || !frac.bytes().all(|b| b.is_ascii_digit()) {
        return None;
    }
    let i: i32 = int.parse().ok()?;
    if i >= 16384 {
        return None;
    }
    let digits: Vec<u8> = frac.bytes().map(|b| b - b'0').collect();
    let v = i * UNITY + round_decimals(&digits);
    Some(if neg { -v } else { v })
}

/// TeX §103.
pub fn print_scaled(s: i32) -> String {
    let mut out = String::new();
    let mut s = s as i64;
    if s < 0 {
        out.push('-');
        s = -s;
    }
    out.push_str(&(s / UNITY as i64).to_string());
    out.push('.');
    s = 10 * (s % UNITY as i64) + 5;
    let mut delta: i64 = 10;
    loop {
        if delta > UNITY as i64 {
            s = s + 0o100000 - 50000;
        }
        out.push((b'0' + (s / UNITY as i64) as u8) as char);
        s = 10 * (s % UNITY as i64);
        delta *= 10;
        if s <= delta {
            break;
        }
    }
    out
}

// ------------------------------------------------------------------------------------------
// glue specifications and nodes

/// TeX §150. Orders: 0 normal, 1 fil, 2 fill, 3 filll.
#[derive(Clone, Copy, Debug, PartialEq, Eq, Hash, Default)]
pub struct GlueSpec {
    pub width: i32,
    pub stretch: i32,
    pub stretch_order: u8,
    pub shrink: i32,
    pub shrink_order: u8,
}

impl GlueSpec {
    pub const ZERO: GlueSpec = GlueSpec {
        width: 0,
        stretch: 0,
        stretch_order: 0,
        shrink: 0,
        shrink_order: 0,
    };
    /// TeX compares glue parameters with the pointer `zero_glue`; §1229 (`trap_zero_glue`) makes a
    /// parameter that pointer exactly when width, stretch and shrink are all 0 (orders are not
    /// looked at).
    pub fn is_zero_glue(&self) -> bool {
        self.width == 0 && self.stretch == 0 && self.shrink == 0
    }
    pub fn render(&self) -> String {
        let ord = |o: u8| ["pt", "fil", "fill", "filll"][o.min(3) as usize];
        let mut s = format!("{}pt", print_scaled(self.width));
        if self.stretch != 0 {
            s += &format!(" plus {}{}", print_scaled(self.stretch), ord(self.stretch_order));
        }
        if self.shrink != 0 {
            s += &format!(" minus {}{}", print_scaled(self.shrink), ord(self.shrink_order));
        }
        s
    }
}

#[derive(Clone, Copy, Debug, PartialEq, Eq, Hash)]
pub enum KernKind {
    Normal,
    Explicit,
    Accent,
    Math,
}

/// A node of a horizontal list, in a form that can be compared exactly. The monitor converts
/// the repo's `ds::Horizontal` into this (losslessly for every node kind inside the property's
/// quantifier; anything else becomes `Other`).
#[derive(Clone, Debug, PartialEq, Eq, Hash)]
pub enum MNode {
    Char { c: u32, font: u32 },
    Lig { c: u32, font: u32, orig: String, left_boundary: bool, right_boundary: bool },
    /// hbox or vbox: outer dimensions and a tag identifying the content
    Box { width: i32, height: i32, depth: i32, shift: i32, tag: u64 },
    Rule { width: i32, height: i32, depth: i32 },
    Glue { spec: GlueSpec, kind: u8 },
    Kern { width: i32, kind: KernKind },
    Penalty(i32),
    Disc { pre: Vec<MNode>, post: Vec<MNode>, replace: u32 },
    Other(String),
}

impl MNode {
    pub fn glue(spec: GlueSpec) -> MNode {
        MNode::Glue { spec, kind: 0 }
    }
    pub fn empty_disc() -> MNode {
        MNode::Disc { pre: vec![], post: vec![], replace: 0 }
    }
    /// §148 `non_discardable(#) == (type(#) < math_node)`; char nodes behave the same way at the
    /// only call site (§879).
    pub fn non_discardable(&self) -> bool {
        !matches!(self, MNode::Glue { .. } | MNode::Kern { .. } | MNode::Penalty(_) | MNode::Other(_))
    }
    /// What §879 deletes at the beginning of a line: glue, penalties, math nodes and *explicit*
    /// kerns ("if type(q)=kern_node then if subtype(q)<>explicit then goto done1").
    pub fn pruned_after_break(&self) -> bool {
        match self {
            MNode::Glue { .. } | MNode::Penalty(_) => true,
            MNode::Kern { kind, .. } => *kind == KernKind::Explicit,
            _ => false,
        }
    }
    /// The text a node stands for: characters, and for ligatures the characters they replaced.
    pub fn spelled(&self, out: &mut String) {
        match self {
            MNode::Char { c, .. } => out.push(char::from_u32(*c).unwrap_or('\u{fffd}')),
            MNode::Lig { orig, .. } => out.push_str(orig),
            _ => {}
        }
    }
    pub fn render(&self) -> String {
        match self {
            MNode::Char { c, font } => {
                let ch = char::from_u32(*c).unwrap_or('\u{fffd}');
                if *font == 0 {
                    format!("{ch}")
                } else {
                    format!("{ch}@{font}")
                }
            }
            MNode::Lig { c, orig, left_boundary, right_boundary, .. } => format!(
                "lig({}<-{}{orig}{})",
                c,
                if *left_boundary { "|" } else { "" },
                if *right_boundary { "|" } else { "" }
            ),
            MNode::Box { width, tag, .. } => format!("box({}pt#{:x})", print_scaled(*width), tag & 0xffff),
            MNode::Rule { width, .. } => format!("rule({}pt)", print_scaled(*width)),
            MNode::Glue { spec, kind } => {
                if *kind == 0 {
                    format!("glue({})", spec.render())
                } else {
                    format!("glue[{kind}]({})", spec.render())
                }
            }
            MNode::Kern { width, kind } => format!(
                "kern{}({}pt)",
                match kind {
                    KernKind::Normal => "",
                    KernKind::Explicit => "*",
                    KernKind::Accent => "^",
                    KernKind::Math => "$",
                },
                print_scaled(*width)
            ),
            MNode::Penalty(p) => format!("pen({p})"),
            MNode::Disc { pre, post, replace } => {
                format!("disc{{{}|{}|{}}}", render_list(pre), render_list(post), replace)
            }
            MNode::Other(s) => format!("other<{s}>"),
        }
    }
}

pub fn render_list(list: &[MNode]) -> String {
    let mut s = String::new();
    for (i, n) in list.iter().enumerate() {
        if i > 0 {
            s.push(' ');
        }
        s += &n.render();
    }
    s
}

// ------------------------------------------------------------------------------------------
// TFM, just enough (§539-§575): widths and parameters at the design size

#[derive(Clone, Debug)]
pub struct TfmLite {
    pub bc: usize,
    pub ec: usize,
    pub design_size: i32,
    /// scaled width per character code 0..=255; `None` when the character does not exist
    pub widths: Vec<Option<i32>>,
    /// `\fontdimen` 1.. (index 0 = param 1 = slant, unscaled; the others scaled by the design size)
    pub params: Vec<i32>,
}

#[derive(Clone, Copy, Debug, PartialEq, Eq)]
pub struct FontSpace {
    pub space: i32,
    pub stretch: i32,
    pub shrink: i32,
    pub extra: i32,
}

impl TfmLite {
    pub fn parse(b: &[u8]) -> Option<TfmLite> {
        let half = |i: usize| -> Option<usize> { Some(((*b.get(2 * i)? as usize) << 8) | *b.get(2 * i + 1)? as usize) };
        let (lf, lh, bc, ec, nw, nh, nd, ni, nl, nk, ne, np) = (
            half(0)?, half(1)?, half(2)?, half(3)?, half(4)?, half(5)?, half(6)?, half(7)?, half(8)?, half(9)?, half(10)?, half(11)?,
        );
        if ec + 1 < bc || ec > 255 || lh < 2 {
            return None;
        }
        let nc = ec + 1 - bc;
        if lf != 6 + lh + nc + nw + nh + nd + ni + nl + nk + ne + np || b.len() < 4 * lf {
            return None;
        }
        let word = |i: usize| -> [u8; 4] { [b[4 * i], b[4 * i + 1], b[4 * i + 2], b[4 * i + 3]] };
        // §568: the design size as a scaled number
        let ds = word(6 + 1);
        let mut z: i64 = ((ds[0] as i64) << 8) | ds[1] as i64;
        z = z * 0o400 + ds[2] as i64;
        z = z * 0o20 + (ds[3] as i64) / 0o20;
        let design_size = z as i32;
        // §572
        let mut alpha: i64 = 16;
        while z >= 0o40000000 {
            z /= 2;
            alpha += alpha;
        }
        let beta = 256 / alpha;
        let alpha = alpha * z;
        // §571 store_scaled
        let store_scaled = |w: [u8; 4]| -> Option<i32> {
            let (a, bb, c, d) = (w[0] as i64, w[1] as i64, w[2] as i64, w[3] as i64);
            let sw = (((((d * z) / 0o400) + (c * z)) / 0o400) + (bb * z)) / beta;
            match a {
                0 => Some(sw as i32),
                255 => Some((sw - alpha) as i32),
                _ => None,
            }
        };
        let char_base = 6 + lh;
        let width_base = char_base + nc;
        let param_base = width_base + nw + nh + nd + ni + nl + nk + ne;
        let mut widths = vec![None; 256];
        for c in bc..=ec {
            if nc == 0 {
                break;
            }
            let ci = word(char_base + (c - bc));
            let wi = ci[0] as usize;
            if wi == 0 || wi >= nw {
                continue; // §554: width index 0 = the character does not exist
            }
            widths[c] = Some(store_scaled(word(width_base + wi))?);
        }
        let mut params = vec![];
        for k in 0..np {
            let w = word(param_base + k);
            if k == 0 {
                // §575: the slant is not scaled by the font size
                let sw = i32::from_be_bytes(w);
                params.push(sw >> 4);
            } else {
                params.push(store_scaled(w)?);
            }
        }
        Some(TfmLite { bc, ec, design_size, widths, params })
    }

    /// §558: space, space_stretch, space_shrink, extra_space are parameters 2, 3, 4 and 7.
    pub fn font_space(&self) -> FontSpace {
        let p = |k: usize| self.params.get(k - 1).copied().unwrap_or(0);
        FontSpace { space: p(2), stretch: p(3), shrink: p(4), extra: p(7) }
    }
}

// ------------------------------------------------------------------------------------------
// §1034 space factor, §1041-§1044 inter-word glue

/// plain.tex: `\sfcode` of `)`, `'`, `]` is 0; `\nonfrenchspacing`; INITEX gives uppercase 999.
pub fn plain_sf_codes() -> [i32; 256] {
    let mut a = [1000i32; 256];
    for (c, v) in [(b')', 0), (b'\'', 0), (b']', 0), (b'.', 3000), (b'?', 3000), (b'!', 3000), (b':', 2000), (b';', 1500), (b',', 1250)] {
        a[c as usize] = v;
    }
    for c in b'A'..=b'Z' {
        a[c as usize] = 999;
    }
    a
}

/// §1034 `adjust_space_factor`.
pub fn adjust_space_factor(space_factor: i32, sf_code: i32) -> i32 {
    let main_s = sf_code;
    if main_s == 1000 {
        1000
    } else if main_s < 1000 {
        if main_s > 0 {
            main_s
        } else {
            space_factor
        }
    } else if space_factor < 1000 {
        1000
    } else {
        main_s
    }
}

#[derive(Clone, Copy, Debug, PartialEq, Eq)]
pub enum SpaceRule {
    /// TeX
    Tex,
    /// deviation model: a non-zero `\spaceskip` is never modified by §1044
    SpaceSkipUnscaled,
}

/// The glue appended for a space token in horizontal mode. `None` = arithmetic overflow inside
/// `xn_over_d` (TeX sets `arith_error` and carries on with garbage: outside the quantifier).
pub fn interword_glue(
    space_factor: i32,
    font: &FontSpace,
    space_skip: &GlueSpec,
    xspace_skip: &GlueSpec,
    rule: SpaceRule,
) -> Option<GlueSpec> {
    // §1042: the font's glue, orders normal
    let font_glue = GlueSpec { width: font.space, stretch: font.stretch, stretch_order: 0, shrink: font.shrink, shrink_order: 0 };
    if space_factor == 1000 {
        // §1041
        return Some(if space_skip.is_zero_glue() { font_glue } else { *space_skip });
    }
    // §1043 app_space
    if space_factor >= 2000 && !xspace_skip.is_zero_glue() {
        return Some(*xspace_skip);
    }
    let mut main_p = if !space_skip.is_zero_glue() {
        if rule == SpaceRule::SpaceSkipUnscaled {
            return Some(*space_skip);
        }
        *space_skip
    } else {
        font_glue
    };
    // §1044
    if space_factor >= 2000 {
        main_p.width = main_p.width.checked_add(font.extra)?;
    }
    main_p.stretch = xn_over_d(main_p.stretch, space_factor, 1000)?;
    main_p.shrink = xn_over_d(main_p.shrink, 1000, space_factor)?;
    Some(main_p)
}

#[derive(Clone, Debug)]
pub struct ExpectedWord {
    pub word: String,
    /// (space factor at the space, glue by TeX, glue by the `SpaceSkipUnscaled` deviation model);
    /// `None` after the last word.
    pub space_after: Option<(i32, GlueSpec, GlueSpec)>,
}

/// What a text must become: its words (maximal runs of non-blank characters) separated by one
/// glue node per blank run, the glue chosen by the space factor in force at that point. The
/// space factor starts at 1000 (§1091, new paragraph) and is adjusted once per character read
/// (§1034, §1038: also for characters that end up inside a ligature).
/// Returns `None` if some glue computation overflows.
pub fn expected_words(
    text: &str,
    sf_codes: &[i32; 256],
    font: &FontSpace,
    space_skip: &GlueSpec,
    xspace_skip: &GlueSpec,
) -> Option<Vec<ExpectedWord>> {
    let is_blank = |c: char| matches!(c, ' ' | '\t' | '\n' | '\r' | '\u{c}');
    let words: Vec<&str> = text.split(is_blank).filter(|w| !w.is_empty()).collect();
    let mut sf = 1000;
    let mut out = vec![];
    for (i, w) in words.iter().enumerate() {
        for c in w.chars() {
            let code = if (c as u32) < 256 { sf_codes[c as usize] } else { 1000 };
            sf = adjust_space_factor(sf, code);
        }
        let space_after = if i + 1 < words.len() {
            let t = interword_glue(sf, font, space_skip, xspace_skip, SpaceRule::Tex)?;
            let d = interword_glue(sf, font, space_skip, xspace_skip, SpaceRule::SpaceSkipUnscaled)?;
            Some((sf, t, d))
        } else {
            None
        };
        out.push(ExpectedWord { word: w.to_string(), space_after });
    }
    Some(out)
}

/// Checks that the nodes of one word segment (no glue inside) spell `word`, that an empty
/// discretionary follows exactly the nodes whose text ends with the hyphen character (§1039:
/// `if character(tail)=hyphen_char then ins_disc:=true`), that kerns are font kerns and that all
/// characters come from font `font`. Returns a description of the first problem.
pub fn check_word_segment(seg: &[MNode], word: &str, font: u32) -> Result<(), String> {
    let mut spelled = String::new();
    let mut expect_disc = false;
    for (i, n) in seg.iter().enumerate() {
        match n {
            MNode::Char { font: f, .. } | MNode::Lig { font: f, .. } => {
                if expect_disc {
                    return Err(format!("no discretionary after the hyphen before node {i}"));
                }
                if *f != font {
                    return Err(format!("node {i} is in font {f}, current font is {font}"));
                }
                let before = spelled.len();
                n.spelled(&mut spelled);
                expect_disc = spelled.len() > before && spelled.ends_with('-');
            }
            MNode::Disc { pre, post, replace } => {
                if !expect_disc {
                    return Err(format!("discretionary at node {i} does not follow a hyphen"));
                }
                if !pre.is_empty() || !post.is_empty() || *replace != 0 {
                    return Err(format!("discretionary at node {i} is not empty"));
                }
                expect_disc = false;
            }
            MNode::Kern { kind, .. } => {
                if expect_disc {
                    return Err(format!("no discretionary after the hyphen before node {i}"));
                }
                if *kind != KernKind::Normal {
                    return Err(format!("kern at node {i} is not a font kern"));
                }
            }
            other => return Err(format!("unexpected node {} inside a word", other.render())),
        }
    }
    if expect_disc {
        return Err("no discretionary after the final hyphen".into());
    }
    if spelled != word {
        return Err(format!("nodes spell {spelled:?}, the word is {word:?}"));
    }
    Ok(())
}

// ------------------------------------------------------------------------------------------
// breakpoints

/// TeXbook p.96 / §866-§869 restricted to lists without math: is position `i` of `list` a place
/// where a line may end? `i == list.len()` is the final break (§873).
pub fn is_legal_breakpoint(list: &[MNode], i: usize) -> bool {
    if i == list.len() {
        return true;
    }
    match &list[i] {
        // §868
        MNode::Glue { .. } => {
            i > 0
                && match &list[i - 1] {
                    MNode::Kern { kind, .. } => *kind != KernKind::Explicit,
                    p => p.non_discardable(),
                }
        }
        // §866 kern_break
        MNode::Kern { kind, .. } => *kind == KernKind::Explicit && matches!(list.get(i + 1), Some(MNode::Glue { .. })),
        MNode::Penalty(p) => *p < 10000,
        MNode::Disc { .. } => true,
        _ => false,
    }
}

// ------------------------------------------------------------------------------------------
// §816

/// §816: a final glue node is removed, then `\penalty10000` and `\parfillskip` are appended.
pub fn finish_list_816(before: &[MNode], par_fill_skip: GlueSpec) -> Vec<MNode> {
    let mut l = before.to_vec();
    if matches!(l.last(), Some(MNode::Glue { .. })) {
        l.pop();
    }
    l.push(MNode::Penalty(10000));
    l.push(MNode::glue(par_fill_skip));
    l
}

// ------------------------------------------------------------------------------------------
// §877-§890 post_line_break

#[derive(Clone, Copy, Debug, PartialEq, Eq)]
pub enum Prune {
    /// TeX §879
    Tex,
    /// deviation model: §879 is not executed; only the break node itself is treated (§881)
    None,
}

#[derive(Clone, Debug, PartialEq, Eq)]
pub struct ExpectedLine {
    pub items: Vec<MNode>,
    /// §881 `disc_break`
    pub disc_break: bool,
    /// how many list nodes §879 deleted after this line's break
    pub pruned: usize,
}

/// The content of every line box, from the list that was broken (after §816 and hyphenation) and
/// the chosen breakpoints (`breaks` strictly increasing, last = `list.len()`).
pub fn expected_lines(
    list: &[MNode],
    breaks: &[usize],
    left_skip: GlueSpec,
    right_skip: GlueSpec,
    prune: Prune,
) -> Result<Vec<ExpectedLine>, String> {
    let len = list.len();
    if breaks.last() != Some(&len) {
        return Err(format!("the last breakpoint must be the end of the list ({len}), breaks are {breaks:?}"));
    }
    let mut out = vec![];
    let mut start = 0usize; // first node of the current line in `list`
    let mut transplanted: Vec<MNode> = vec![]; // post-break list of the previous line's discretionary (§884)
    for (k, &b) in breaks.iter().enumerate() {
        if b < start || b > len {
            return Err(format!("breakpoint {b} of line {k} lies before the start {start} of its line"));
        }
        let mut items = vec![];
        // §887: \leftskip only if it is not zero_glue
        if !left_skip.is_zero_glue() {
            items.push(MNode::glue(left_skip));
        }
        items.append(&mut transplanted);
        items.extend_from_slice(&list[start..b]);
        let mut disc_break = false;
        let mut post_disc_break = false;
        let mut next = b + 1;
        if b < len {
            // §881
            match &list[b] {
                MNode::Glue { .. } => {
                    // the glue node *becomes* the \rightskip node
                }
                MNode::Disc { pre, post, replace } => {
                    // §882: the (now empty) discretionary stays, the replaced nodes are destroyed
                    // (§883), the post-break list is re-attached before what follows (§884), the
                    // pre-break list right after the discretionary.
                    items.push(MNode::empty_disc());
                    items.extend(pre.iter().cloned());
                    transplanted = post.clone();
                    post_disc_break = !post.is_empty();
                    disc_break = true;
                    next = b + 1 + *replace as usize;
                    if next > len {
                        return Err(format!("discretionary at {b} replaces more nodes than follow it"));
                    }
                }
                MNode::Kern { kind, .. } => items.push(MNode::Kern { width: 0, kind: *kind }),
                p @ MNode::Penalty(_) => items.push(p.clone()),
                other => return Err(format!("node {} at {b} cannot be a breakpoint", other.render())),
            }
        } else {
            next = len;
        }
        // §886: \rightskip always
        items.push(MNode::glue(right_skip));
        // §879, executed "if cur_p<>null then if not post_disc_break"
        let mut pruned = 0;
        if k + 1 < breaks.len() && !post_disc_break && prune == Prune::Tex {
            let next_break = breaks[k + 1];
            while next < len && next != next_break && list[next].pruned_after_break() {
                next += 1;
                pruned += 1;
            }
        }
        start = next;
        out.push(ExpectedLine { items, disc_break, pruned });
    }
    Ok(out)
}

/// §890: the penalty node after line `line` (0-based) of `n_lines`, `None` if there is none.
pub fn interline_penalty(
    line: usize,
    n_lines: usize,
    disc_break: bool,
    inter_line_penalty: i32,
    club_penalty: i32,
    widow_penalty: i32,
    broken_penalty: i32,
) -> Option<i32> {
    // cur_line = line+1 (prev_graf = 0), best_line = n_lines+1
    if line + 1 == n_lines {
        return None;
    }
    let mut pen = inter_line_penalty as i64;
    if line == 0 {
        pen += club_penalty as i64;
    }
    if line + 2 == n_lines {
        pen += widow_penalty as i64;
    }
    if disc_break {
        pen += broken_penalty as i64;
    }
    if pen != 0 {
        Some(pen as i32)
    } else {
        None
    }
}

/// §889 with the `\parshape` reading of a width/indent sequence: line `line` (0-based) uses entry
/// `line`, lines past the end use the last entry; an empty indent sequence means no indent.
pub fn line_geometry(line: usize, widths: &[i32], indents: &[i32]) -> (i32, i32) {
    let w = widths[line.min(widths.len() - 1)];
    let ind = if indents.is_empty() { 0 } else { indents[line.min(indents.len() - 1)] };
    (w, ind)
}

// ------------------------------------------------------------------------------------------
// second formulation: conservation by consumption

#[derive(Clone, Debug, Default)]
pub struct ConservationReport {
    /// problems found, as (stable signature, human detail)
    pub problems: Vec<(&'static str, String)>,
    /// list nodes that legitimately do not appear in any line: break glue, pruned discardables,
    /// replaced nodes of taken discretionaries
    pub vanished_break_glue: usize,
    pub vanished_discardables: usize,
    pub vanished_replaced: usize,
    pub discretionary_breaks: usize,
    pub lines_starting_with_post_break: usize,
}

/// Reads the produced lines in order and consumes `list` with a cursor. Every list node must be
/// met exactly once and in order; the only nodes that may be passed over are (a) the glue at which
/// a line was broken, (b) the run of discardable nodes directly after a break (up to, not
/// including, the next breakpoint) and (c) the nodes replaced by a taken discretionary, in whose
/// place the pre-break list (end of the line) and the post-break list (start of the next line)
/// must appear. A kern at a break must reappear with width 0 (§881), a penalty unchanged, a taken
/// discretionary as an empty discretionary followed by its pre-break list. Lines are framed by
/// `\leftskip` (if non-zero) and `\rightskip`. No line after the first may begin with a
/// discardable node.
pub fn check_conservation(
    list: &[MNode],
    breaks: &[usize],
    lines: &[Vec<MNode>],
    left_skip: GlueSpec,
    right_skip: GlueSpec,
) -> ConservationReport {
    let mut r = ConservationReport::default();
    if lines.len() != breaks.len() {
        r.problems.push(("line-count", format!("{} lines for {} breakpoints", lines.len(), breaks.len())));
        return r;
    }
    let len = list.len();
    let mut cursor = 0usize;
    let mut pending_post: Vec<MNode> = vec![];
    // true when the previous line ended at a break after which §879 runs
    let mut after_prunable_break = false;
    for (k, line) in lines.iter().enumerate() {
        let b = breaks[k];
        if b < cursor || b > len {
            r.problems.push(("break-inside-consumed", format!("line {k}: breakpoint {b} lies before cursor {cursor}")));
            return r;
        }
        let mut body: &[MNode] = line;
        // frame
        if !left_skip.is_zero_glue() {
            match body.first() {
                Some(n) if *n == MNode::glue(left_skip) => body = &body[1..],
                _ => {
                    r.problems.push(("left-skip", format!("line {k} does not start with \\leftskip")));
                    return r;
                }
            }
        }
        match body.last() {
            Some(n) if *n == MNode::glue(right_skip) => body = &body[..body.len() - 1],
            _ => {
                r.problems.push(("right-skip", format!("line {k} does not end with \\rightskip")));
                return r;
            }
        }
        // (c) second half: post-break list of the discretionary that ended the previous line
        let had_post = !pending_post.is_empty();
        if had_post {
            r.lines_starting_with_post_break += 1;
            let n = pending_post.len();
            if body.len() < n || body[..n] != pending_post[..] {
                r.problems.push(("post-break", format!("line {k} does not start with the post-break list {}", render_list(&pending_post))));
                return r;
            }
            body = &body[n..];
            pending_post.clear();
        }
        // the tail the break node leaves at the end of the line (§881-§882)
        let tail: Vec<MNode> = if b == len {
            vec![]
        } else {
            match &list[b] {
                MNode::Glue { .. } => vec![],
                MNode::Kern { kind, .. } => vec![MNode::Kern { width: 0, kind: *kind }],
                pen @ MNode::Penalty(_) => vec![pen.clone()],
                MNode::Disc { pre, .. } => {
                    let mut t = vec![MNode::empty_disc()];
                    t.extend(pre.iter().cloned());
                    t
                }
                other => {
                    r.problems.push(("illegal-break-node", format!("line {k}: break at {}", other.render())));
                    return r;
                }
            }
        };
        if body.len() < tail.len() || body[body.len() - tail.len()..] != tail[..] {
            r.problems.push((
                "break-node-tail",
                format!("line {k}: must end with {} before \\rightskip, ends with {}", render_list(&tail), render_list(&body[body.len().saturating_sub(tail.len().max(1))..])),
            ));
            return r;
        }
        let own = &body[..body.len() - tail.len()];
        // own must be list[cursor..b] minus a vanished prefix
        let range = &list[cursor..b];
        if own.len() > range.len() {
            r.problems.push((
                "extra-material",
                format!("line {k}: {} nodes between its breaks but the line carries {}", range.len(), own.len()),
            ));
            return r;
        }
        let vanished = range.len() - own.len();
        if vanished > 0 {
            // (b) only directly after a prunable break, only discardable nodes
            let ok = after_prunable_break && range[..vanished].iter().all(|n| n.pruned_after_break());
            if !ok {
                r.problems.push((
                    "node-lost",
                    format!("line {k}: {vanished} node(s) of list[{cursor}..{b}] are missing and are not a discardable run after a break"),
                ));
                return r;
            }
            r.vanished_discardables += vanished;
        }
        if own != &range[vanished..] {
            let at = own.iter().zip(&range[vanished..]).position(|(a, b)| a != b).unwrap_or(0);
            r.problems.push((
                "node-changed-or-reordered",
                format!(
                    "line {k}: position {at}: line has {}, list[{}] is {}",
                    own[at].render(),
                    cursor + vanished + at,
                    range[vanished + at].render()
                ),
            ));
            return r;
        }
        // no line after the first begins with discardable material (unless the post-break list
        // of a discretionary begins it)
        if k > 0 && !had_post && after_prunable_break {
            if let Some(first) = own.first() {
                if first.pruned_after_break() {
                    r.problems.push(("line-starts-with-discardable", format!("line {k} starts with {}", first.render())));
                }
            }
        }
        // step over the break node
        after_prunable_break = false;
        if b < len {
            match &list[b] {
                MNode::Glue { .. } => {
                    r.vanished_break_glue += 1;
                    cursor = b + 1;
                    after_prunable_break = true;
                }
                MNode::Disc { post, replace, .. } => {
                    r.discretionary_breaks += 1;
                    pending_post = post.clone();
                    r.vanished_replaced += *replace as usize;
                    cursor = b + 1 + *replace as usize;
                    after_prunable_break = post.is_empty();
                }
                _ => {
                    cursor = b + 1;
                    after_prunable_break = true;
                }
            }
        } else {
            cursor = len;
        }
        if cursor > len {
            r.problems.push(("replace-count", format!("line {k}: discretionary replaces past the end of the list")));
            return r;
        }
    }
    if cursor != len {
        r.problems.push(("list-not-exhausted", format!("list nodes {cursor}..{len} appear in no line")));
    }
    if !pending_post.is_empty() {
        r.problems.push(("post-break-dropped", "post-break material after the last line".into()));
    }
    r
}

#[cfg(test)]
mod tests {
    use super::*;

    #[test]
    fn xn_over_d_matches_wide_arithmetic() {
        let mut x: u64 = 12345;
        for _ in 0..200000 {
            x = x.wrapping_mul(6364136223846793005).wrapping_add(1442695040888963407);
            let v = ((x >> 33) as i32) % (1 << 30);
            let v = if x & 1 == 1 { -v } else { v };
            let n = ((x >> 20) % 65537) as i32;
            let d = ((x >> 5) % 65536) as i32 + 1;
            let wide = (v as i64).abs() * n as i64 / d as i64;
            let got = xn_over_d(v, n, d);
            if wide >= 1 << 30 {
                assert_eq!(got, None);
            } else {
                assert_eq!(got, Some(if v < 0 { -(wide as i32) } else { wide as i32 }), "{v} {n} {d}");
            }
        }
    }

    #[test]
    fn print_and_parse_scaled() {
        assert_eq!(print_scaled(218453), "3.33333");
        assert_eq!(print_scaled(UNITY), "1.0");
        assert_eq!(print_scaled(-UNITY / 2), "-0.5");
        for s in [0, 1, 2, 65535, 65536, 65537, 218453, 109226, 72818, 1 << 29, -12345678] {
            assert_eq!(parse_printed_scaled(&print_scaled(s)), Some(s), "{s}");
        }
    }

    #[test]
    fn space_factor_texbook() {
        // TeXbook p.76: after "A." the space factor is 1000, not 3000 (999 -> 1000)
        let codes = plain_sf_codes();
        let mut sf = 1000;
        for c in "A.".bytes() {
            sf = adjust_space_factor(sf, codes[c as usize]);
        }
        assert_eq!(sf, 1000);
        let mut sf = 1000;
        for c in "a.)".bytes() {
            sf = adjust_space_factor(sf, codes[c as usize]);
        }
        assert_eq!(sf, 3000);
    }

    #[test]
    fn spaceskip_scaling_1044() {
        // cmr10: 3.33333pt plus 1.66666pt minus 1.11111pt, extra 1.11111pt
        let font = FontSpace { space: 218453, stretch: 109226, shrink: 72818, extra: 72818 };
        let ss = GlueSpec { width: 10 * UNITY, stretch: 4 * UNITY, stretch_order: 0, shrink: 2 * UNITY, shrink_order: 0 };
        let g = interword_glue(1250, &font, &ss, &GlueSpec::ZERO, SpaceRule::Tex).unwrap();
        assert_eq!(g.render(), "10.0pt plus 5.0pt minus 1.59999pt");
        let g = interword_glue(3000, &font, &ss, &GlueSpec::ZERO, SpaceRule::Tex).unwrap();
        assert_eq!(g.render(), "11.11111pt plus 12.0pt minus 0.66666pt");
        let g = interword_glue(3000, &font, &ss, &GlueSpec::ZERO, SpaceRule::SpaceSkipUnscaled).unwrap();
        assert_eq!(g, ss);
        let g = interword_glue(3000, &font, &GlueSpec::ZERO, &GlueSpec::ZERO, SpaceRule::Tex).unwrap();
        assert_eq!(g.render(), "4.44444pt plus 4.99997pt minus 0.37036pt");
    }

    fn ch(c: char) -> MNode {
        MNode::Char { c: c as u32, font: 0 }
    }
    fn gl(w: i32) -> MNode {
        MNode::glue(GlueSpec { width: w * UNITY, ..GlueSpec::ZERO })
    }

    #[test]
    fn prune_879() {
        // A glue pen(0) glue B pen(10000) parfill ; break at 1 (glue) and at the end
        let list = vec![ch('A'), gl(5), MNode::Penalty(0), gl(4), ch('B'), MNode::Penalty(10000), gl(0)];
        let tex = expected_lines(&list, &[1, 7], GlueSpec::ZERO, GlueSpec::ZERO, Prune::Tex).unwrap();
        assert_eq!(render_list(&tex[1].items), "B pen(10000) glue(0.0pt) glue(0.0pt)");
        assert_eq!(tex[0].pruned, 2);
        let dev = expected_lines(&list, &[1, 7], GlueSpec::ZERO, GlueSpec::ZERO, Prune::None).unwrap();
        assert_eq!(render_list(&dev[1].items), "pen(0) glue(4.0pt) B pen(10000) glue(0.0pt) glue(0.0pt)");
        let lines: Vec<Vec<MNode>> = tex.iter().map(|l| l.items.clone()).collect();
        assert!(check_conservation(&list, &[1, 7], &lines, GlueSpec::ZERO, GlueSpec::ZERO).problems.is_empty());
        let lines: Vec<Vec<MNode>> = dev.iter().map(|l| l.items.clone()).collect();
        let rep = check_conservation(&list, &[1, 7], &lines, GlueSpec::ZERO, GlueSpec::ZERO);
        assert_eq!(rep.problems.len(), 1);
        assert_eq!(rep.problems[0].0, "line-starts-with-discardable");
        // pruning stops at the next breakpoint: break at glue 1 then at penalty 2
        let tex = expected_lines(&list, &[1, 2, 7], GlueSpec::ZERO, GlueSpec::ZERO, Prune::Tex).unwrap();
        assert_eq!(render_list(&tex[1].items), "pen(0) glue(0.0pt)");
        assert_eq!(render_list(&tex[2].items), "B pen(10000) glue(0.0pt) glue(0.0pt)");
        let lines: Vec<Vec<MNode>> = tex.iter().map(|l| l.items.clone()).collect();
        assert!(check_conservation(&list, &[1, 2, 7], &lines, GlueSpec::ZERO, GlueSpec::ZERO).problems.is_empty());
    }

    #[test]
    fn disc_882() {
        // a disc{-|x|1} b c glue d ; break at the disc
        let d = MNode::Disc { pre: vec![ch('-')], post: vec![ch('x')], replace: 1 };
        let list = vec![ch('a'), d, ch('b'), ch('c'), MNode::Penalty(10000), gl(0)];
        let l = expected_lines(&list, &[1, 6], gl(1).as_spec(), GlueSpec::ZERO, Prune::Tex).unwrap();
        assert_eq!(render_list(&l[0].items), "glue(1.0pt) a disc{||0} - glue(0.0pt)");
        assert_eq!(render_list(&l[1].items), "glue(1.0pt) x c pen(10000) glue(0.0pt) glue(0.0pt)");
        assert!(l[0].disc_break);
        let lines: Vec<Vec<MNode>> = l.iter().map(|l| l.items.clone()).collect();
        let rep = check_conservation(&list, &[1, 6], &lines, gl(1).as_spec(), GlueSpec::ZERO);
        assert!(rep.problems.is_empty(), "{:?}", rep.problems);
        assert_eq!(rep.vanished_replaced, 1);
        // duplicate a node: must be noticed
        let mut bad = lines.clone();
        bad[1].insert(2, ch('c'));
        assert!(!check_conservation(&list, &[1, 6], &bad, gl(1).as_spec(), GlueSpec::ZERO).problems.is_empty());
    }

    impl MNode {
        fn as_spec(&self) -> GlueSpec {
            match self {
                MNode::Glue { spec, .. } => *spec,
                _ => GlueSpec::ZERO,
            }
        }
    }

    #[test]
    fn penalties_890() {
        assert_eq!(interline_penalty(0, 1, false, 5, 150, 150, 100), None);
        assert_eq!(interline_penalty(0, 2, false, 5, 150, 150, 100), Some(305));
        assert_eq!(interline_penalty(0, 3, true, 0, 150, 150, 100), Some(250));
        assert_eq!(interline_penalty(1, 3, false, 0, 150, 150, 100), Some(150));
        assert_eq!(interline_penalty(1, 4, false, 0, 150, 150, 100), None);
        assert_eq!(line_geometry(3, &[5, 4, 3], &[]), (3, 0));
        assert_eq!(line_geometry(1, &[5, 4, 3], &[9]), (4, 9));
    }
}
