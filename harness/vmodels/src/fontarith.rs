//! Font-metric reference arithmetic (properties C17 and C05).
//!
//! Own transcriptions of
//!   * TeX: The Program §568, §571-572  (`store_scaled`: fix_word x design size -> scaled),
//!   * TeX: The Program §103            (`print_scaled`, used only to calibrate against goldens),
//!   * TFtoPL §40-43                    (`out_fix`: shortest decimal of a fix_word),
//!   * PLtoTF §62-66                    (`get_fix`: decimal -> fix_word),
//!   * PLtoTF §75-80                    (`min_cover`, `shorten`, `set_indices`: lossy compression),
//!   * TFtoPL §84 / PLtoTF §113         (next-larger chains, cycle cut at the largest member).
//!
//! Nothing here calls into /repo. Everything works on plain integers: a fix_word is the i32 whose
//! value is `x * 2^20`, a scaled is the i32 whose value is `x * 2^16`.

use std::collections::BTreeMap;

pub const UNITY_FIX: i32 = 1 << 20;

// ------------------------------------------------------------------------------------------
// TeX §568, §571, §572

/// The legal design sizes of TeX §568: the four header bytes must have their first byte <= 127
/// (`read_sixteen` rejects a negative design size) and `z = design_size div 16 >= unity`.
pub fn design_size_is_legal(design_size_fix: i32) -> bool {
    design_size_fix >= 0 && (design_size_fix >> 4) >= 0o200000
}

/// A fix_word TeX accepts in `store_scaled`: first byte 0 or 255, i.e. -16 <= x < 16.
pub fn fix_word_is_storable(fix: i32) -> bool {
    let a = (fix as u32 >> 24) as u8;
    a == 0 || a == 255
}

/// TeX §571 `store_scaled`, literally, after §568 (`z` from the design size bytes) and §572
/// (replace z by z', compute alpha and beta). `None` = TeX would `abort` the font.
pub fn store_scaled(fix: i32, design_size_fix: i32) -> Option<i32> {
    // §568: read_sixteen(z); z:=z*256+fbyte; z:=(z*16)+(fbyte div 16); if z<unity then abort
    let ds = (design_size_fix as u32).to_be_bytes();
    if ds[0] > 127 {
        return None;
    }
    let mut z: i64 = (ds[0] as i64) * 256 + ds[1] as i64;
    z = z * 256 + ds[2] as i64;
    z = z * 16 + (ds[3] as i64) / 16;
    if z < 0o200000 {
        return None;
    }
    // §572
    let mut alpha: i64 = 16;
    while z >= 0o40000000 {
        z /= 2;
        alpha += alpha;
    }
    let beta: i64 = 256 / alpha;
    let alpha: i64 = alpha * z;
    // §571
    let [a, b, c, d] = (fix as u32).to_be_bytes();
    let (b, c, d) = (b as i64, c as i64, d as i64);
    let sw = (((d * z) / 0o400 + c * z) / 0o400 + b * z) / beta;
    let r = if a == 0 {
        sw
    } else if a == 255 {
        sw - alpha
    } else {
        return None;
    };
    if r < i32::MIN as i64 || r > i32::MAX as i64 {
        return None;
    }
    Some(r as i32)
}

/// Second formulation of the same function. All operands of the nested truncating divisions of
/// §571 are non-negative, so `floor(floor(x/m)/n) = floor(x/(mn))` and `floor(x/m)+k =
/// floor((x+km)/m)` collapse the expression to one division:
/// `sw = floor(N * z' / (2^16 * beta))`, N = the low 24 bits of the fix_word.
/// The result is therefore within one unit (1sp) below the exact product `N/2^20 * z' * 2^k`.
pub fn store_scaled_closed_form(fix: i32, design_size_fix: i32) -> Option<i32> {
    if design_size_fix < 0 {
        return None;
    }
    let mut z: i128 = (design_size_fix >> 4) as i128;
    if z < 65536 {
        return None;
    }
    let mut k = 0u32;
    while z >= (1 << 23) {
        z >>= 1;
        k += 1;
    }
    let alpha_small: i128 = 16 << k;
    let beta: i128 = 256 / alpha_small;
    let n: i128 = (fix as u32 & 0x00ff_ffff) as i128;
    let sw = (n * z) / (65536 * beta);
    let top = (fix as u32 >> 24) as u8;
    let r = match top {
        0 => sw,
        255 => sw - alpha_small * z,
        _ => return None,
    };
    i32::try_from(r).ok()
}

/// TeX §103 `print_scaled` (without the unit).
pub fn print_scaled(s: i32) -> String {
    let mut out = String::new();
    let mut s = s as i64;
    if s < 0 {
        out.push('-');
        s = -s;
    }
    out.push_str(&(s / 65536).to_string());
    out.push('.');
    s = 10 * (s % 65536) + 5;
    let mut delta: i64 = 10;
    loop {
        if delta > 65536 {
            s = s + 0o100000 - 50000;
        }
        out.push((b'0' + (s / 65536) as u8) as char);
        s = 10 * (s % 65536);
        delta *= 10;
        if s <= delta {
            break;
        }
    }
    out
}

// ------------------------------------------------------------------------------------------
// TFtoPL §40-43

/// TFtoPL §40 `out_fix`, working on the four bytes as TFtoPL does. Returns the text after
/// "R " (e.g. "-0.027779").
pub fn print_fix_word(x: i32) -> String {
    let t = (x as u32).to_be_bytes();
    let mut out = String::new();
    // a:=(tfm[k]*16)+(tfm[k+1] div 16); f:=((tfm[k+1] mod 16)*256+tfm[k+2])*256+tfm[k+3]
    let mut a: i64 = (t[0] as i64) * 16 + (t[1] as i64) / 16;
    let mut f: i64 = (((t[1] as i64) % 16) * 0o400 + t[2] as i64) * 0o400 + t[3] as i64;
    // §41 reduce negative to positive
    if a > 0o3777 {
        out.push('-');
        a = 0o10000 - a;
        if f > 0 {
            f = 0o4000000 - f;
            a -= 1;
        }
    }
    // §42 integer part
    let mut dig: Vec<u8> = vec![];
    loop {
        dig.push((a % 10) as u8);
        a /= 10;
        if a == 0 {
            break;
        }
    }
    for d in dig.iter().rev() {
        out.push((b'0' + d) as char);
    }
    // §43 fraction part
    out.push('.');
    f = 10 * f + 5;
    let mut delta: i64 = 10;
    loop {
        if delta > 0o4000000 {
            f = f + 0o2000000 - (delta / 2);
        }
        out.push((b'0' + (f / 0o4000000) as u8) as char);
        f = 10 * (f % 0o4000000);
        delta *= 10;
        if f <= delta {
            break;
        }
    }
    out
}

// ------------------------------------------------------------------------------------------
// PLtoTF §62-66

#[derive(Debug, PartialEq, Eq, Clone, Copy)]
pub enum FixParseError {
    /// "Real constants must be less than 2048"
    TooBig,
    /// something that is not `[+- ]*digits[.digits]`
    Malformed,
}

/// PLtoTF §62 `get_fix` applied to the text after the `R`/`D` type code.
pub fn parse_fix_word(text: &str) -> Result<i32, FixParseError> {
    let bytes = text.as_bytes();
    let mut i = 0;
    // §63 blanks and signs
    let mut negative = false;
    while i < bytes.len() {
        match bytes[i] {
            b' ' | b'+' => {}
            b'-' => negative = !negative,
            _ => break,
        }
        i += 1;
    }
    // §64 integer part
    let mut acc: i64 = 0;
    let mut any = false;
    while i < bytes.len() && bytes[i].is_ascii_digit() {
        acc = acc * 10 + (bytes[i] - b'0') as i64;
        if acc >= 2048 {
            return Err(FixParseError::TooBig);
        }
        any = true;
        i += 1;
    }
    let int_part = acc;
    acc = 0;
    // §66 fraction part: keep up to seven digits d_1..d_j,
    // f' = floor(2^21 * 0.d_1...d_j), f = floor((f'+1)/2)
    if i < bytes.len() && bytes[i] == b'.' {
        i += 1;
        let mut fraction_digits: Vec<i64> = vec![];
        while i < bytes.len() && bytes[i].is_ascii_digit() {
            if fraction_digits.len() < 7 {
                fraction_digits.push(0o10000000 * (bytes[i] - b'0') as i64);
            }
            any = true;
            i += 1;
        }
        for d in fraction_digits.iter().rev() {
            acc = d + acc / 10;
        }
        acc = (acc + 10) / 20;
    }
    if i != bytes.len() || !any {
        return Err(FixParseError::Malformed);
    }
    if acc >= UNITY_FIX as i64 && int_part == 2047 {
        return Err(FixParseError::TooBig);
    }
    let v = int_part * UNITY_FIX as i64 + acc;
    Ok(if negative { -v } else { v } as i32)
}

// ------------------------------------------------------------------------------------------
// PLtoTF §75-80

/// PLtoTF §75 `min_cover(h,d)` on a sorted list of distinct values: the number of intervals of
/// width `d` the greedy left-to-right covering needs (which is the minimum), and `next_d`, the
/// smallest d' > d for which the greedy covering changes (i64::MAX if none).
pub fn min_cover(sorted: &[i64], d: i64) -> (usize, i64) {
    let mut count = 0;
    let mut next_d = i64::MAX;
    let mut p = 0;
    while p < sorted.len() {
        count += 1;
        let l = sorted[p];
        while p + 1 < sorted.len() && sorted[p + 1] <= l + d {
            p += 1;
        }
        p += 1;
        if p < sorted.len() && sorted[p] - l < next_d {
            next_d = sorted[p] - l;
        }
    }
    (count, next_d)
}

/// The greedy covering itself: class boundaries as index ranges into `sorted`.
pub fn greedy_cover(sorted: &[i64], d: i64) -> Vec<(usize, usize)> {
    let mut out = vec![];
    let mut p = 0;
    while p < sorted.len() {
        let start = p;
        let l = sorted[p];
        while p + 1 < sorted.len() && sorted[p + 1] <= l + d {
            p += 1;
        }
        p += 1;
        out.push((start, p));
    }
    out
}

/// PLtoTF §76 `shorten(h,m)`: the smallest d with min_cover(h,d) <= m, found the way Knuth does
/// (doubling, then stepping through `next_d`). `sorted` = distinct values ascending, m >= 1.
pub fn shorten(sorted: &[i64], m: usize) -> i64 {
    if sorted.len() <= m {
        return 0;
    }
    let (_, next_d) = min_cover(sorted, 0);
    let mut d = next_d;
    loop {
        d += d;
        let (k, _) = min_cover(sorted, d);
        if k <= m {
            break;
        }
    }
    d /= 2;
    let (mut k, mut next_d) = min_cover(sorted, d);
    while k > m {
        d = next_d;
        let r = min_cover(sorted, d);
        k = r.0;
        next_d = r.1;
    }
    d
}

/// Exact minimum number of intervals of width <= d that cover all points, by dynamic
/// programming over "first point of the last interval" (independent of the greedy argument).
pub fn min_cover_dp(sorted: &[i64], d: i64) -> usize {
    let n = sorted.len();
    // best[i] = min intervals covering sorted[..i]
    let mut best = vec![usize::MAX; n + 1];
    best[0] = 0;
    for i in 1..=n {
        for j in 0..i {
            // last interval covers sorted[j..i]
            if sorted[i - 1] - sorted[j] <= d && best[j] != usize::MAX {
                best[i] = best[i].min(best[j] + 1);
            }
        }
    }
    best[n]
}

/// Brute force: the smallest feasible tolerance among *all* candidate tolerances (0 and every
/// pairwise difference), scanning every candidate with the DP cover. O(n^4); for small n only.
pub fn smallest_tolerance_bruteforce(sorted: &[i64], m: usize) -> i64 {
    let mut cands: Vec<i64> = vec![0];
    for i in 0..sorted.len() {
        for j in i + 1..sorted.len() {
            cands.push(sorted[j] - sorted[i]);
        }
    }
    let mut best: Option<i64> = None;
    for &c in &cands {
        if min_cover_dp(sorted, c) <= m {
            best = Some(match best {
                None => c,
                Some(b) => b.min(c),
            });
        }
    }
    best.expect("the full span is always feasible for m >= 1")
}

/// The largest pairwise difference strictly smaller than `d` (None if there is none, i.e. all
/// differences are >= d). The greedy covering only changes at pairwise differences, so this is
/// the only smaller tolerance that has to be refuted to prove `d` minimal.
pub fn largest_difference_below(sorted: &[i64], d: i64) -> Option<i64> {
    let mut best: Option<i64> = None;
    let mut j = 0usize;
    // two pointers: for each i the largest j with sorted[j]-sorted[i] < d
    for i in 0..sorted.len() {
        if j < i {
            j = i;
        }
        while j + 1 < sorted.len() && sorted[j + 1] - sorted[i] < d {
            j += 1;
        }
        if j > i {
            let diff = sorted[j] - sorted[i];
            best = Some(best.map_or(diff, |b: i64| b.max(diff)));
        }
    }
    best
}

/// PLtoTF §76+§78 together, faithfully, *including* the `excess` rule of `set_indices` (merging
/// stops once exactly `m` classes remain). Returns (tolerance, representatives, class index of
/// each sorted value, 1-based). Used for information only: the property does not ask for the
/// `excess` rule.
pub fn pltotf_shorten_and_index(sorted: &[i64], m: usize) -> (i64, Vec<i64>, Vec<usize>) {
    let mut d = shorten(sorted, m);
    let mut excess: i64 = sorted.len() as i64 - m as i64;
    if excess <= 0 {
        d = 0;
        excess = 0;
    }
    let delta = d;
    let mut reps = vec![];
    let mut index = vec![0usize; sorted.len()];
    let mut p = 0;
    let mut mm = 0;
    while p < sorted.len() {
        mm += 1;
        let l = sorted[p];
        index[p] = mm;
        while p + 1 < sorted.len() && sorted[p + 1] <= l + d {
            p += 1;
            index[p] = mm;
            excess -= 1;
            if excess == 0 {
                d = 0;
            }
        }
        reps.push(l + (sorted[p] - l) / 2);
        p += 1;
    }
    (delta, reps, index)
}

// ------------------------------------------------------------------------------------------
// TFtoPL §84 / PLtoTF §113

/// Next-larger links after cycle breaking. `edges` maps a character to its NEXTLARGER (a
/// functional graph). For c = 0..255 in increasing order (TFtoPL §84): follow the links from
/// remainder(c) while the character reached is < c and still has a link; if this arrives back
/// at c, the link of c is removed. Hence every cycle loses exactly the link of its largest member.
/// Returns the surviving links and the list of characters whose link was cut.
pub fn next_larger_links(edges: &BTreeMap<u8, u8>) -> (BTreeMap<u8, u8>, Vec<u8>) {
    let mut links = edges.clone();
    let mut cut = vec![];
    for c in 0..=255u8 {
        let Some(&first) = links.get(&c) else {
            continue;
        };
        let mut r = first;
        while r < c {
            match links.get(&r) {
                Some(&n) => r = n,
                None => break,
            }
        }
        if r == c {
            links.remove(&c);
            cut.push(c);
        }
    }
    (links, cut)
}

/// Second formulation (functional-graph view): find each cycle explicitly by walking from every
/// node with visit colours, and cut the out-edge of the cycle's maximum.
pub fn next_larger_links_by_cycles(edges: &BTreeMap<u8, u8>) -> (BTreeMap<u8, u8>, Vec<u8>) {
    let mut colour = [0u16; 256]; // 0 = unvisited, otherwise walk id
    let mut cut = vec![];
    let mut walk_id = 0u16;
    for start in 0..=255u8 {
        if colour[start as usize] != 0 || !edges.contains_key(&start) {
            continue;
        }
        walk_id += 1;
        let mut path = vec![];
        let mut cur = start;
        loop {
            if colour[cur as usize] == walk_id {
                // found a new cycle: cur .. end of path
                let pos = path.iter().position(|&x| x == cur).unwrap();
                let m = *path[pos..].iter().max().unwrap();
                cut.push(m);
                break;
            }
            if colour[cur as usize] != 0 {
                break; // joins something already explored
            }
            colour[cur as usize] = walk_id;
            path.push(cur);
            match edges.get(&cur) {
                Some(&n) => cur = n,
                None => break,
            }
        }
    }
    cut.sort_unstable();
    let mut links = edges.clone();
    for c in &cut {
        links.remove(c);
    }
    (links, cut)
}

/// The chain TeX/TFtoPL would traverse from `c` using the surviving links (bounded to 256 steps;
/// `None` if it does not end, which cannot happen after correct cycle breaking).
pub fn next_larger_chain(links: &BTreeMap<u8, u8>, c: u8) -> Option<Vec<u8>> {
    let mut out = vec![];
    let mut cur = c;
    while let Some(&n) = links.get(&cur) {
        out.push(n);
        cur = n;
        if out.len() > 256 {
            return None;
        }
    }
    Some(out)
}

#[cfg(test)]
mod tests {
    use super::*;

    #[test]
    fn print_parse_small() {
        assert_eq!(print_fix_word(0), "0.0");
        assert_eq!(print_fix_word(UNITY_FIX), "1.0");
        assert_eq!(print_fix_word(-UNITY_FIX), "-1.0");
        assert_eq!(print_fix_word(i32::MIN), "-2048.0");
        assert_eq!(print_fix_word(349526), "0.333334");
        assert_eq!(parse_fix_word("0.333334"), Ok(349526));
        assert_eq!(parse_fix_word("-2048.0"), Err(FixParseError::TooBig));
        for x in [1, -1, 5, 1 << 19, i32::MAX, i32::MIN + 1, 123456789, -987654321] {
            assert_eq!(parse_fix_word(&print_fix_word(x)), Ok(x), "{x}");
        }
    }

    #[test]
    fn scaled() {
        assert_eq!(store_scaled(UNITY_FIX, UNITY_FIX), Some(65536));
        assert_eq!(store_scaled(349526, 10 * UNITY_FIX), Some(218453));
        assert_eq!(print_scaled(218453), "3.33333");
        for (f, d) in [(349526, 10 << 20), (-116509, 10 << 20), (-1, 1 << 20), (0xffffff, i32::MAX)] {
            assert_eq!(store_scaled(f, d), store_scaled_closed_form(f, d));
        }
    }

    #[test]
    fn cover() {
        let v = [1i64, 4, 5];
        assert_eq!(min_cover(&v, 0).0, 3);
        assert_eq!(min_cover(&v, 1).0, 2);
        assert_eq!(shorten(&v, 2), 1);
        assert_eq!(smallest_tolerance_bruteforce(&v, 2), 1);
        assert_eq!(largest_difference_below(&v, 3), Some(1));
        assert_eq!(largest_difference_below(&v, 1), None);
        assert_eq!(min_cover_dp(&v, 1), 2);
    }

    #[test]
    fn next_larger() {
        let e: BTreeMap<u8, u8> = [(1, 2), (2, 3), (3, 2)].into_iter().collect();
        let (l, cut) = next_larger_links(&e);
        assert_eq!(cut, vec![3]);
        assert_eq!(next_larger_links_by_cycles(&e), (l.clone(), cut));
        assert_eq!(next_larger_chain(&l, 1), Some(vec![2, 3]));
    }
}
