//! Reference model of TeX's line scanner: a transcription of *TeX: The Program*
//! §31 (`input_ln`: trailing spaces are removed), §343-§356 (`get_next` for a file: states
//! `new_line`/`mid_line`/`skip_blanks`, control-sequence formation, `^^` notation) and §360/§362
//! (moving to the next line, appending `end_line_char`).
//!
//! The model is *just in time* like TeX itself: `Lexer::next` takes the category-code function
//! and the end-line character that are current at the moment of the call. Category codes are
//! looked up per character as it is scanned; the end-line character is looked up when the next
//! line is read into the buffer (§362).
//!
//! Besides the token the model reports, per token, where the token *started* in the source: the
//! 1-based line number and the column (counted in characters) of its first source character. For
//! a character that is the result of a `^^` reduction the model reports the whole source span
//! `col_lo..=col_hi` of the `^^..` sequence (the monitor accepts any column inside it).
//!
//! Two switches (`Quirks`) replace exactly one TeX rule each by what texcraft does today; they are
//! the *deviation models* of the two known findings of property C03 and are off in the reference.
//!
//! Nothing here depends on /repo.

pub const ESCAPE: u8 = 0;
pub const BEGIN_GROUP: u8 = 1;
pub const END_GROUP: u8 = 2;
pub const MATH_SHIFT: u8 = 3;
pub const ALIGNMENT_TAB: u8 = 4;
pub const END_OF_LINE: u8 = 5; // car_ret
pub const PARAMETER: u8 = 6;
pub const SUPERSCRIPT: u8 = 7; // sup_mark
pub const SUBSCRIPT: u8 = 8;
pub const IGNORED: u8 = 9;
pub const SPACE: u8 = 10; // spacer
pub const LETTER: u8 = 11;
pub const OTHER: u8 = 12;
pub const ACTIVE: u8 = 13;
pub const COMMENT: u8 = 14;
pub const INVALID: u8 = 15;

/// IniTeX's category codes (§232): `\`=0, `%`=14, NUL=9, CR=5, space=10, DEL=15, letters=11,
/// everything else 12.
pub fn initex_cat(c: char) -> u8 {
    match c {
        '\\' => ESCAPE,
        '%' => COMMENT,
        '\u{0}' => IGNORED,
        '\r' => END_OF_LINE,
        ' ' => SPACE,
        '\u{7f}' => INVALID,
        'a'..='z' | 'A'..='Z' => LETTER,
        _ => OTHER,
    }
}

/// plain.tex on top of IniTeX (The TeXbook p. 343): `{`=1 `}`=2 `$`=3 `&`=4 `#`=6 `^`=7 `^^K`=7
/// `_`=8 `^^A`=8 tab=10 `~`=13 `^^L`=13.
pub fn plain_cat(c: char) -> u8 {
    match c {
        '{' => BEGIN_GROUP,
        '}' => END_GROUP,
        '$' => MATH_SHIFT,
        '&' => ALIGNMENT_TAB,
        '#' => PARAMETER,
        '^' | '\u{0b}' => SUPERSCRIPT,
        '_' | '\u{01}' => SUBSCRIPT,
        '\t' => SPACE,
        '~' | '\u{0c}' => ACTIVE,
        _ => initex_cat(c),
    }
}

#[derive(Clone, Debug, PartialEq, Eq, Hash)]
pub enum Tok {
    /// A control sequence. The name is empty for `null_cs` (§354: escape character at the very
    /// end of the buffer).
    Cs(String),
    /// A character token `(chr, cat)`; cat is one of 1,2,3,4,6,7,8,10,11,12,13. Space tokens are
    /// always `(' ', 10)` (§347-348).
    Char(char, u8),
}

impl Tok {
    /// Rendering used by trace comparison: `\name` or the character.
    pub fn text(&self) -> String {
        match self {
            Tok::Cs(n) => format!("\\{n}"),
            Tok::Char(c, _) => c.to_string(),
        }
    }
}

/// Where a token started.
#[derive(Clone, Copy, Debug, PartialEq, Eq, Hash)]
pub struct Pos {
    /// 1-based number of the line (= 1 + number of `\n` before the token's first character).
    pub line: usize,
    /// Column (in characters, 0-based) of the first source character of the token.
    pub col_lo: usize,
    /// Last column of the source span that produced the token's *first character*; differs from
    /// `col_lo` only if that character came out of a `^^` reduction. A character appended as the
    /// end-line character sits at the first trimmed position (= length of the trimmed line).
    pub col_hi: usize,
}

#[derive(Clone, Debug, PartialEq, Eq)]
pub enum Item {
    Token(Tok, Pos),
    /// §346: a character of category 15 was scanned (TeX prints an error and goes on; the
    /// scanner state is unchanged).
    Invalid(char, Pos),
    /// A line other than the first has just been read into the buffer (bookkeeping only; TeX's
    /// `\read` uses it).
    NewLine,
    End,
}

#[derive(Clone, Copy, Debug, PartialEq, Eq, Default, Hash)]
pub struct Quirks {
    /// Replace §352/§355's `^^xy` rule (two lowercase hex digits) by "not implemented": only
    /// the single-character form exists.
    pub no_hex: bool,
    /// Replace "`^^c` with c >= 128 is not a reduction" by "both superscript characters are
    /// silently dropped and scanning continues with c".
    pub drop_carets_before_non_ascii: bool,
}

/// What the model did (feeds observation counters and the trigger predicates).
#[derive(Clone, Copy, Debug, Default, PartialEq, Eq)]
pub struct Stats {
    pub lines: u32,
    pub trimmed_spaces: u32,
    pub reductions_main: u32,
    pub reductions_in_name: u32,
    pub hex_reductions: u32,
    /// hex-digit pairs where §352/§355 reduce `^^xy` but the `no_hex` quirk did `^^x` instead
    pub hex_suppressed: u32,
    /// the result of a reduction was itself scanned as a sup_mark that started another reduction
    pub recursive_reductions: u32,
    /// `^^c` with c >= 128 seen at a place where TeX checks for a reduction
    pub carets_before_non_ascii: u32,
    /// ... and the quirk dropped the two characters
    pub carets_dropped: u32,
    /// two equal sup_mark characters at the end of the buffer (no third character: no reduction)
    pub carets_at_line_end: u32,
    pub par_tokens: u32,
    pub eol_spaces: u32,
    pub eol_skipped: u32,
    pub spaces_skipped: u32,
    pub comments: u32,
    pub ignored: u32,
    pub invalid: u32,
    pub null_cs: u32,
    pub multi_letter_cs: u32,
    pub single_char_cs: u32,
    pub multi_reduction_names: u32,
}

#[derive(Clone, Copy, Debug, PartialEq, Eq)]
enum State {
    NewLine,
    MidLine,
    SkipBlanks,
}

#[derive(Clone, Copy, Debug)]
struct Cell {
    c: char,
    lo: usize,
    hi: usize,
}

pub struct Lexer {
    lines: Vec<String>,
    /// number of lines read so far = line number of the line in `buf`
    cur: usize,
    /// TeX's `buffer[start..=limit]`
    buf: Vec<Cell>,
    /// TeX's `loc - start`
    loc: usize,
    state: State,
    pub quirks: Quirks,
    pub stats: Stats,
}

fn is_hex(c: char) -> bool {
    c.is_ascii_digit() || ('a'..='f').contains(&c)
}

fn hex_val(c: char) -> u32 {
    if c <= '9' {
        c as u32 - '0' as u32
    } else {
        c as u32 - 'a' as u32 + 10
    }
}

/// §352: `if c<@'100 then cur_chr:=c+@'100 else cur_chr:=c-@'100`
fn flip64(c: char) -> char {
    let u = c as u32;
    debug_assert!(u < 128);
    char::from_u32(if u < 64 { u + 64 } else { u - 64 }).unwrap()
}

/// Split a source text into TeX lines: a line ends at `\n`; a final line without `\n` is a line;
/// the empty text has no lines.
pub fn split_lines(source: &str) -> Vec<String> {
    if source.is_empty() {
        return vec![];
    }
    let mut v: Vec<String> = source.split('\n').map(|s| s.to_string()).collect();
    if source.ends_with('\n') {
        v.pop();
    }
    v
}

impl Lexer {
    pub fn new(source: &str) -> Lexer {
        Lexer::with_quirks(source, Quirks::default())
    }

    pub fn with_quirks(source: &str, quirks: Quirks) -> Lexer {
        Lexer {
            lines: split_lines(source),
            cur: 0,
            buf: vec![],
            loc: 0,
            state: State::NewLine,
            quirks,
            stats: Stats::default(),
        }
    }

    /// Raw text of line `n` (1-based), without its `\n`.
    pub fn line_text(&self, n: usize) -> &str {
        &self.lines[n - 1]
    }

    pub fn num_lines(&self) -> usize {
        self.lines.len()
    }

    /// §362 + §31: read the next line; `false` if the file has ended.
    fn read_line(&mut self, end_line_char: Option<char>) -> bool {
        self.buf.clear();
        self.loc = 0;
        if self.cur >= self.lines.len() {
            return false;
        }
        let raw = &self.lines[self.cur];
        self.cur += 1;
        self.stats.lines += 1;
        // input_ln: `last` is set after the last non-space character (only " ", whatever its
        // category code is)
        let trimmed = raw.trim_end_matches(' ');
        let mut n = 0;
        for c in trimmed.chars() {
            self.buf.push(Cell { c, lo: n, hi: n });
            n += 1;
        }
        self.stats.trimmed_spaces += (raw.chars().count() - n) as u32;
        // `if end_line_char_inactive then decr(limit) else buffer[limit]:=end_line_char`
        if let Some(e) = end_line_char {
            self.buf.push(Cell { c: e, lo: n, hi: n });
        }
        true
    }

    fn pos(&self, lo: usize, hi: usize) -> Pos {
        Pos {
            line: self.cur,
            col_lo: lo,
            col_hi: hi,
        }
    }

    /// `get_next` for a file (§343). `cat` and `end_line_char` are the values current *now*.
    pub fn next(&mut self, cat: &dyn Fn(char) -> u8, end_line_char: Option<char>) -> Item {
        // switch:
        loop {
            if self.loc >= self.buf.len() {
                // §343 else-branch, §360
                self.state = State::NewLine;
                if !self.read_line(end_line_char) {
                    return Item::End;
                }
                if self.cur > 1 {
                    return Item::NewLine;
                }
                continue;
            }
            let cell = self.buf[self.loc];
            self.loc += 1;
            let mut cur_chr = cell.c;
            let lo = cell.lo;
            let mut hi = cell.hi;
            let mut from_reduction = false;
            // reswitch:
            loop {
                let cmd = cat(cur_chr);
                match cmd {
                    // §345
                    IGNORED => {
                        self.stats.ignored += 1;
                        break;
                    }
                    SPACE if self.state != State::MidLine => {
                        self.stats.spaces_skipped += 1;
                        break;
                    }
                    // §354
                    ESCAPE => {
                        let name = self.scan_control_sequence(cat);
                        return Item::Token(Tok::Cs(name), self.pos(lo, hi));
                    }
                    // §353
                    ACTIVE => {
                        self.state = State::MidLine;
                        return Item::Token(Tok::Char(cur_chr, ACTIVE), self.pos(lo, hi));
                    }
                    // §352
                    SUPERSCRIPT => {
                        let len = self.buf.len();
                        if self.loc < len && self.buf[self.loc].c == cur_chr {
                            if self.loc + 1 < len {
                                let c = self.buf[self.loc + 1].c;
                                if (c as u32) < 128 {
                                    if from_reduction {
                                        self.stats.recursive_reductions += 1;
                                    }
                                    from_reduction = true;
                                    self.stats.reductions_main += 1;
                                    let third = self.loc + 1;
                                    self.loc += 2;
                                    if is_hex(c) && self.loc < len && is_hex(self.buf[self.loc].c) {
                                        if self.quirks.no_hex {
                                            self.stats.hex_suppressed += 1;
                                        } else {
                                            let cc = self.buf[self.loc].c;
                                            hi = self.buf[self.loc].hi;
                                            self.loc += 1;
                                            self.stats.hex_reductions += 1;
                                            cur_chr =
                                                char::from_u32(16 * hex_val(c) + hex_val(cc)).unwrap();
                                            continue;
                                        }
                                    }
                                    hi = self.buf[third].hi;
                                    cur_chr = flip64(c);
                                    continue;
                                }
                                self.stats.carets_before_non_ascii += 1;
                                if self.quirks.drop_carets_before_non_ascii {
                                    self.stats.carets_dropped += 1;
                                    self.loc += 1;
                                    break;
                                }
                            } else {
                                self.stats.carets_at_line_end += 1;
                            }
                        }
                        self.state = State::MidLine;
                        return Item::Token(Tok::Char(cur_chr, SUPERSCRIPT), self.pos(lo, hi));
                    }
                    // §346
                    INVALID => {
                        self.stats.invalid += 1;
                        return Item::Invalid(cur_chr, self.pos(lo, hi));
                    }
                    // §347-§351
                    SPACE => {
                        // mid_line+spacer
                        self.state = State::SkipBlanks;
                        return Item::Token(Tok::Char(' ', SPACE), self.pos(lo, hi));
                    }
                    END_OF_LINE => {
                        self.loc = self.buf.len();
                        match self.state {
                            State::MidLine => {
                                self.stats.eol_spaces += 1;
                                return Item::Token(Tok::Char(' ', SPACE), self.pos(lo, hi));
                            }
                            State::SkipBlanks => {
                                self.stats.eol_skipped += 1;
                                break;
                            }
                            State::NewLine => {
                                self.stats.par_tokens += 1;
                                return Item::Token(Tok::Cs("par".into()), self.pos(lo, hi));
                            }
                        }
                    }
                    COMMENT => {
                        self.stats.comments += 1;
                        self.loc = self.buf.len();
                        break;
                    }
                    _ => {
                        // left_brace, right_brace, math_shift, tab_mark, mac_param, sub_mark,
                        // letter, other_char
                        self.state = State::MidLine;
                        return Item::Token(Tok::Char(cur_chr, cmd), self.pos(lo, hi));
                    }
                }
            }
        }
    }

    /// §355 "If an expanded code is present, reduce it and goto start_cs". `k` indexes the
    /// character after `cur_chr`. Returns true if the buffer was rewritten.
    fn reduce_in_name(&mut self, k: usize, cur_chr: char, cat_cur: u8) -> bool {
        let len = self.buf.len();
        // `if buffer[k]=cur_chr then if cat=sup_mark then if k<limit`
        if !(cat_cur == SUPERSCRIPT && k < len && self.buf[k].c == cur_chr) {
            return false;
        }
        if k + 1 >= len {
            self.stats.carets_at_line_end += 1;
            return false;
        }
        let c = self.buf[k + 1].c;
        if (c as u32) >= 128 {
            self.stats.carets_before_non_ascii += 1;
            if self.quirks.drop_carets_before_non_ascii {
                self.stats.carets_dropped += 1;
                self.buf.drain(k - 1..=k);
                return true;
            }
            return false;
        }
        let mut d = 2;
        if is_hex(c) && k + 2 < len && is_hex(self.buf[k + 2].c) {
            if self.quirks.no_hex {
                self.stats.hex_suppressed += 1;
            } else {
                d = 3;
            }
        }
        let new_c = if d > 2 {
            self.stats.hex_reductions += 1;
            char::from_u32(16 * hex_val(c) + hex_val(self.buf[k + 2].c)).unwrap()
        } else {
            flip64(c)
        };
        self.stats.reductions_in_name += 1;
        // buffer[k-1]:=...; the remainder of the line moves down by d
        self.buf[k - 1].c = new_c;
        self.buf[k - 1].hi = self.buf[k - 1 + d].hi;
        self.buf.drain(k..k + d);
        true
    }

    /// §354-§356; on entry `loc` is just after the escape character.
    fn scan_control_sequence(&mut self, cat: &dyn Fn(char) -> u8) -> String {
        if self.loc >= self.buf.len() {
            // `cur_cs:=null_cs {state is irrelevant in this case}`
            self.stats.null_cs += 1;
            return String::new();
        }
        let mut passes = 0;
        // start_cs:
        loop {
            passes += 1;
            if passes == 3 {
                // at least two reductions inside one control-sequence name
                self.stats.multi_reduction_names += 1;
            }
            let len = self.buf.len();
            let mut k = self.loc;
            let mut cur_chr = self.buf[k].c;
            let mut ct = cat(cur_chr);
            k += 1;
            self.state = if ct == LETTER || ct == SPACE {
                State::SkipBlanks
            } else {
                State::MidLine
            };
            if ct == LETTER && k < len {
                // §356
                loop {
                    cur_chr = self.buf[k].c;
                    ct = cat(cur_chr);
                    k += 1;
                    if ct != LETTER || k >= len {
                        break;
                    }
                }
                if self.reduce_in_name(k, cur_chr, ct) {
                    continue;
                }
                if ct != LETTER {
                    k -= 1;
                }
                if k > self.loc + 1 {
                    let name: String = self.buf[self.loc..k].iter().map(|c| c.c).collect();
                    self.loc = k;
                    self.stats.multi_letter_cs += 1;
                    return name;
                }
            } else if self.reduce_in_name(k, cur_chr, ct) {
                continue;
            }
            let name = self.buf[self.loc].c.to_string();
            self.loc += 1;
            self.stats.single_char_cs += 1;
            return name;
        }
    }
}

/// Convenience: lex a whole text under a fixed table and end-line character.
pub fn lex_all(
    source: &str,
    cat: &dyn Fn(char) -> u8,
    end_line_char: Option<char>,
    quirks: Quirks,
) -> (Vec<Item>, Stats) {
    let mut lx = Lexer::with_quirks(source, quirks);
    let mut out = vec![];
    loop {
        let it = lx.next(cat, end_line_char);
        if it == Item::End {
            break;
        }
        out.push(it);
    }
    (out, lx.stats)
}

#[cfg(test)]
mod tests {
    use super::*;

    fn toks(src: &str, elc: Option<char>) -> Vec<Tok> {
        lex_all(src, &plain_cat, elc, Quirks::default())
            .0
            .into_iter()
            .filter_map(|i| match i {
                Item::Token(t, _) => Some(t),
                _ => None,
            })
            .collect()
    }

    #[test]
    fn texbook_8_4() {
        // $x^2$~ \TeX ^^C  -> $ x ^ 2 $ ~ space \TeX ^^C(other) space
        let t = toks(" $x^2$~ \\TeX ^^C", Some('\r'));
        assert_eq!(
            t,
            vec![
                Tok::Char('$', 3),
                Tok::Char('x', 11),
                Tok::Char('^', 7),
                Tok::Char('2', 12),
                Tok::Char('$', 3),
                Tok::Char('~', 13),
                Tok::Char(' ', 10),
                Tok::Cs("TeX".into()),
                Tok::Char('\u{3}', 12),
                Tok::Char(' ', 10),
            ]
        );
    }

    #[test]
    fn hex_and_recursion() {
        assert_eq!(toks("^^5e", None), vec![Tok::Char('^', 7)]);
        // ^^5e^5ea: ^^5e -> ^ ; then ^ ^ 5e -> hex again -> ^ ; then `^a`? no: after the second
        // reduction cur_chr='^', buffer[loc]='a' -> plain superscript, then letter a
        assert_eq!(
            toks("^^5e^5ea", None),
            vec![Tok::Char('^', 7), Tok::Char('a', 11)]
        );
        assert_eq!(toks("\\^^5e^5ea", None), vec![Tok::Cs("^".into()), Tok::Char('a', 11)]);
        assert_eq!(toks("\\a^^62c", None), vec![Tok::Cs("abc".into())]);
    }

    #[test]
    fn non_ascii_after_carets() {
        assert_eq!(
            toks("^^é", None),
            vec![Tok::Char('^', 7), Tok::Char('^', 7), Tok::Char('é', 12)]
        );
        let q = Quirks {
            drop_carets_before_non_ascii: true,
            ..Default::default()
        };
        let (items, _) = lex_all("\\a^^é", &plain_cat, None, q);
        assert_eq!(items.len(), 2);
    }
}
