//! Reference model for property C19: TeX's input stack seen through `\input`, `\endinput`,
//! `\openin`, `\closein`, `\read` and `\ifeof`.
//!
//! This is a miniature TeX written from *TeX: The Program*; it interprets real text (a main
//! program plus a map of files) over a deliberately tiny language and returns the characters
//! TeX would typeset.  Nothing here depends on /repo.
//!
//! Transcribed rules
//!  * §343-355  the scanner for one line: states N (new line), M (mid line), S (skip blanks);
//!              trailing blanks of a line are removed and `end_line_char` (^^M) is appended
//!              (§31 input_ln, §360); an end-of-line gives `\par` in state N, a space in state M and
//!              nothing in state S; `%` discards the rest of the line.
//!  * §357/360/362  token lists and files live on ONE input stack; when a file level is at the end
//!              of its line the next line is read, unless `force_eof` is set or the file is exhausted,
//!              in which case the level is popped and scanning resumes in the level below - which
//!              kept its own scanner state and its own position in its own line.
//!  * §378      `\endinput` only sets `force_eof`: the current line is still read to its end.
//!  * §526      scan_file_name: expanded tokens; leading blanks skipped; a space token ends the
//!              name and is consumed, any non-character token ends it and is put back.
//!  * §537/538  `\input`: default extension `.tex`; the first line is read immediately;
//!              "If the file is empty, it is considered to contain a single blank line."
//!  * §1275     `\openin n = name`: a file that cannot be opened leaves the stream closed.
//!  * §482-486  `\read n to \cs`: lines are scanned (unexpanded) until the braces balance; an
//!              unmatched `}` discards the rest of its line and ends the read; when `input_ln` fails
//!              the stream is closed and the line is empty (so it yields `\par`): a file of N lines
//!              supports N+1 reads and `\ifeof` is true after the (N+1)-st; a closed or out-of-range
//!              stream reads from the terminal.
//!  * §494-510  `\iftrue`, `\iffalse`, `\ifeof`, `\else`, `\fi`; skipped text is scanned with get_next
//!              and only counts `\if...`/`\fi` nesting.  A file that ends while text is being skipped
//!              is an error in TeX (§336): the model reports such cases as out of its domain.
//!
//! Deviation models (`Sem`): the same interpreter with exactly one TeX rule replaced by what the
//! code under test does today, used only to attribute known findings.

use std::collections::{BTreeMap, VecDeque};

#[derive(Clone, Debug, PartialEq, Eq, Hash)]
pub enum Tok {
    /// letter or other character
    Ch(char),
    Space,
    Begin,
    End,
    Cs(String),
}

pub fn render(toks: &[Tok]) -> String {
    let mut s = String::new();
    for t in toks {
        match t {
            Tok::Ch(c) => s.push(*c),
            Tok::Space => s.push(' '),
            Tok::Begin => s.push('{'),
            Tok::End => s.push('}'),
            Tok::Cs(n) => {
                s.push('\\');
                s.push_str(n);
                s.push(' ');
            }
        }
    }
    s
}

#[derive(Clone, Copy, Debug, PartialEq, Eq)]
enum St {
    N,
    M,
    S,
}

/// Which rules are replaced by today's behaviour of the code (all false = TeX).
#[derive(Clone, Copy, Debug, Default, PartialEq, Eq)]
pub struct Sem {
    /// C19-endinput-drops-rest-of-line: `\endinput` discards the rest of the current line of the
    /// current file at once (pending token lists survive) and no further line is read.
    pub endinput_drops_rest: bool,
    /// C19-ifeof-one-read-early: a `\read` stream is closed as soon as its last real line has
    /// been consumed; the appended empty line is never delivered.
    pub ifeof_early: bool,
    /// C19-input-empty-file-no-blank-line: `\input` of a zero-byte file delivers no line at all.
    pub empty_file_no_line: bool,
}

#[derive(Clone, Debug, PartialEq, Eq)]
pub enum Status {
    Ok,
    /// TeX reports an error at this point (the model stops there).
    Error(&'static str),
    /// The model does not decide this input (TeX quirk, interaction needed, unsupported character).
    OutOfDomain(&'static str),
}

/// What the model saw while interpreting (trigger predicates of the known findings and
/// evidence counters).
#[derive(Clone, Debug, Default, PartialEq, Eq)]
pub struct Flags {
    pub inputs: u64,
    pub inputs_term_space: u64,
    pub inputs_term_eol: u64,
    pub inputs_from_token_list: u64,
    pub max_file_depth: u64,
    pub empty_file_inputs: u64,
    pub endinput_exec: u64,
    /// `\endinput` executed while the rest of the current file line holds a non-blank character.
    pub endinput_nonblank_rest: u64,
    pub endinput_from_token_list: u64,
    pub endinput_in_main: u64,
    pub files_ended: u64,
    pub file_left_group_open: u64,
    pub file_left_cond_open: u64,
    pub file_closed_outer_group: u64,
    pub file_closed_outer_cond: u64,
    pub lines_unread_after_endinput: u64,
    pub pars: u64,
    pub skipped_regions: u64,
    pub macro_calls: u64,
    pub openin_found: u64,
    pub openin_missing: u64,
    pub closein: u64,
    pub reads: u64,
    pub reads_multiline: u64,
    pub reads_unmatched_close: u64,
    /// the read that consumes the empty line TeX appends (closes the stream)
    pub reads_final_empty_line: u64,
    pub reads_terminal: u64,
    pub reads_in_group: u64,
    pub ifeof_true: u64,
    pub ifeof_false: u64,
    /// `\ifeof`/`\read` on a stream whose N >= 1 real lines are all consumed and which TeX still
    /// holds open (trigger of C19-ifeof-one-read-early).
    pub eof_pending_observed: u64,
    pub max_streams_open: u64,
}

#[derive(Clone, Debug)]
pub struct Run {
    pub out: String,
    pub status: Status,
    /// every macro expansion: (name, rendered body)
    pub macro_calls: Vec<(String, String)>,
    /// `\vprobe`: number of file levels on the input stack when it was executed
    pub probes: Vec<usize>,
    pub flags: Flags,
}

struct FileLevel {
    lines: Vec<String>,
    next: usize,
    cur: Vec<char>,
    pos: usize,
    st: St,
    groups_at_open: usize,
    conds_at_open: usize,
    min_groups: usize,
    min_conds: usize,
}

enum Level {
    File(FileLevel),
    Toks { toks: Vec<Tok>, pos: usize },
}

#[derive(Clone, Debug)]
enum Stream {
    Closed,
    /// just_open / normal of §480 (the distinction is not observable here)
    Open { lines: Vec<String>, pos: usize },
}

enum Lex {
    Tok(Tok),
    Eol,
    Bad(&'static str),
}

/// Lines of a file as `input_ln` delivers them.
pub fn split_lines(content: &str) -> Vec<String> {
    let mut v: Vec<&str> = content.split('\n').collect();
    if v.last() == Some(&"") {
        v.pop();
    }
    v.into_iter().map(|s| s.to_string()).collect()
}

/// §31 + §360: trailing blanks removed, end_line_char appended.
fn prepare_line(line: &str) -> Vec<char> {
    let mut v: Vec<char> = line.trim_end_matches(' ').chars().collect();
    v.push('\r');
    v
}

/// §343-355 for the characters of our alphabet.
fn lex_next(cur: &[char], pos: &mut usize, st: &mut St) -> Lex {
    loop {
        if *pos >= cur.len() {
            return Lex::Eol;
        }
        let c = cur[*pos];
        *pos += 1;
        match c {
            '\\' => {
                if *pos >= cur.len() {
                    return Lex::Bad("escape character at the very end of a line");
                }
                let c2 = cur[*pos];
                if c2.is_ascii_alphabetic() {
                    let start = *pos;
                    while *pos < cur.len() && cur[*pos].is_ascii_alphabetic() {
                        *pos += 1;
                    }
                    *st = St::S;
                    return Lex::Tok(Tok::Cs(cur[start..*pos].iter().collect()));
                }
                if c2 == '\r' || c2 == '^' || !c2.is_ascii() {
                    return Lex::Bad("control symbol outside the model's alphabet");
                }
                *pos += 1;
                *st = if c2 == ' ' { St::S } else { St::M };
                return Lex::Tok(Tok::Cs(c2.to_string()));
            }
            '{' => {
                *st = St::M;
                return Lex::Tok(Tok::Begin);
            }
            '}' => {
                *st = St::M;
                return Lex::Tok(Tok::End);
            }
            ' ' => {
                if *st == St::M {
                    *st = St::S;
                    return Lex::Tok(Tok::Space);
                }
            }
            '\r' => {
                *pos = cur.len();
                match *st {
                    St::N => return Lex::Tok(Tok::Cs("par".to_string())),
                    St::M => {
                        *st = St::N;
                        return Lex::Tok(Tok::Space);
                    }
                    St::S => return Lex::Eol,
                }
            }
            '%' => {
                *pos = cur.len();
                return Lex::Eol;
            }
            '#' | '^' | '~' => {
                return Lex::Bad("character with a special category code");
            }
            // math shift, alignment tab and subscript are character tokens like any other as far as this model goes:
            // the generators put them into FILE NAMES only (§526 scan_file_name takes every non-blank character token,
            // whatever its category: `\input part_1`)
            '$' | '&' | '_' => {
                *st = St::M;
                return Lex::Tok(Tok::Ch(c));
            }
            // characters beyond ASCII have category "other"; the generators put them into file names only
            c if !c.is_ascii() && !c.is_control() => {
                *st = St::M;
                return Lex::Tok(Tok::Ch(c));
            }
            c if !c.is_ascii() || c.is_ascii_control() => {
                return Lex::Bad("character outside the model's alphabet");
            }
            c => {
                *st = St::M;
                return Lex::Tok(Tok::Ch(c));
            }
        }
    }
}

/// All tokens of one line scanned on its own (used for calibration and by tests).
pub fn lex_line(line: &str) -> Option<Vec<Tok>> {
    let cur = prepare_line(line);
    let (mut pos, mut st) = (0usize, St::N);
    let mut v = vec![];
    loop {
        match lex_next(&cur, &mut pos, &mut st) {
            Lex::Tok(t) => v.push(t),
            Lex::Eol => return Some(v),
            Lex::Bad(_) => return None,
        }
    }
}

struct Machine<'a> {
    files: &'a BTreeMap<String, String>,
    sem: Sem,
    stack: Vec<Level>,
    force_eof: bool,
    skipping: bool,
    /// one entry per open conditional: true = already in its \else branch (if_limit = fi_code)
    conds: Vec<bool>,
    /// macro meanings, one map per open group (all definitions here are local)
    scopes: Vec<BTreeMap<String, Vec<Tok>>>,
    streams: Vec<Stream>,
    terminal: VecDeque<String>,
    out: String,
    macro_calls: Vec<(String, String)>,
    probes: Vec<usize>,
    flags: Flags,
    steps: u64,
}

type R<T> = Result<T, Status>;

const IF_NAMES: &[&str] = &["iftrue", "iffalse", "ifeof", "ifnum", "ifodd", "ifcase"];

impl<'a> Machine<'a> {
    fn new(files: &'a BTreeMap<String, String>, terminal: &[String], sem: Sem) -> Machine<'a> {
        Machine {
            files,
            sem,
            stack: vec![],
            force_eof: false,
            skipping: false,
            conds: vec![],
            scopes: vec![BTreeMap::new()],
            streams: (0..16).map(|_| Stream::Closed).collect(),
            terminal: terminal.iter().cloned().collect(),
            out: String::new(),
            macro_calls: vec![],
            probes: vec![],
            flags: Flags::default(),
            steps: 0,
        }
    }

    fn file_levels(&self) -> usize {
        self.stack.iter().filter(|l| matches!(l, Level::File(_))).count()
    }

    fn push_file(&mut self, lines: Vec<String>) {
        let mut f = FileLevel {
            lines,
            next: 0,
            cur: vec![],
            pos: 0,
            st: St::N,
            groups_at_open: self.scopes.len(),
            conds_at_open: self.conds.len(),
            min_groups: self.scopes.len(),
            min_conds: self.conds.len(),
        };
        if !f.lines.is_empty() {
            f.cur = prepare_line(&f.lines[0]);
            f.next = 1;
        }
        self.stack.push(Level::File(f));
        let d = self.file_levels() as u64;
        if d > self.flags.max_file_depth {
            self.flags.max_file_depth = d;
        }
    }

    fn note_depths(&mut self) {
        let (g, c) = (self.scopes.len(), self.conds.len());
        for l in self.stack.iter_mut().rev() {
            if let Level::File(f) = l {
                f.min_groups = f.min_groups.min(g);
                f.min_conds = f.min_conds.min(c);
                break;
            }
        }
    }

    /// get_next (§341/357/360): next token from the input stack, None when everything is exhausted.
    fn get_next(&mut self) -> R<Option<Tok>> {
        loop {
            self.steps += 1;
            if self.steps > 2_000_000 {
                return Err(Status::OutOfDomain("model step budget"));
            }
            let top = match self.stack.last_mut() {
                None => return Ok(None),
                Some(t) => t,
            };
            match top {
                Level::Toks { toks, pos } => {
                    if *pos < toks.len() {
                        let t = toks[*pos].clone();
                        *pos += 1;
                        return Ok(Some(t));
                    }
                    self.stack.pop();
                }
                Level::File(f) => match lex_next(&f.cur, &mut f.pos, &mut f.st) {
                    Lex::Tok(t) => {
                        if t == Tok::Cs("par".to_string()) && !self.skipping {
                            self.flags.pars += 1;
                        }
                        return Ok(Some(t));
                    }
                    Lex::Bad(r) => return Err(Status::OutOfDomain(r)),
                    Lex::Eol => {
                        if !self.force_eof && f.next < f.lines.len() {
                            f.cur = prepare_line(&f.lines[f.next]);
                            f.next += 1;
                            f.pos = 0;
                            f.st = St::N;
                            continue;
                        }
                        // §362: the file has ended (or \endinput was seen)
                        if self.skipping {
                            return Err(Status::OutOfDomain(
                                "file ended while conditional text was being skipped (TeX: Incomplete \\if)",
                            ));
                        }
                        let unread = (f.lines.len() - f.next) as u64;
                        let (g0, c0, gmin, cmin) =
                            (f.groups_at_open, f.conds_at_open, f.min_groups, f.min_conds);
                        self.force_eof = false;
                        self.stack.pop();
                        self.flags.files_ended += 1;
                        self.flags.lines_unread_after_endinput += unread;
                        if self.scopes.len() > gmin {
                            self.flags.file_left_group_open += 1;
                        }
                        if self.conds.len() > cmin {
                            self.flags.file_left_cond_open += 1;
                        }
                        if gmin < g0 {
                            self.flags.file_closed_outer_group += 1;
                        }
                        if cmin < c0 {
                            self.flags.file_closed_outer_cond += 1;
                        }
                    }
                },
            }
        }
    }

    fn back_input(&mut self, t: Tok) {
        self.stack.push(Level::Toks { toks: vec![t], pos: 0 });
    }

    fn lookup(&self, name: &str) -> Option<&Vec<Tok>> {
        for s in self.scopes.iter().rev() {
            if let Some(b) = s.get(name) {
                return Some(b);
            }
        }
        None
    }

    fn is_expandable(&self, name: &str) -> bool {
        matches!(name, "input" | "endinput" | "else" | "fi") || IF_NAMES.contains(&name) || self.lookup(name).is_some()
    }

    /// get_x_token (§380): next token after full expansion.
    fn get_x_token(&mut self) -> R<Option<Tok>> {
        loop {
            match self.get_next()? {
                None => return Ok(None),
                Some(Tok::Cs(name)) if self.is_expandable(&name) => self.expand(&name)?,
                Some(t) => return Ok(Some(t)),
            }
        }
    }

    /// expand (§366) for the expandable commands of the model's language.
    fn expand(&mut self, name: &str) -> R<()> {
        if let Some(body) = self.lookup(name) {
            let body = body.clone();
            self.flags.macro_calls += 1;
            self.macro_calls.push((format!("\\{name} "), render(&body)));
            self.stack.push(Level::Toks { toks: body, pos: 0 });
            return Ok(());
        }
        match name {
            "input" => self.do_input(),
            "endinput" => {
                self.do_endinput();
                Ok(())
            }
            "iftrue" => {
                self.conds.push(false);
                Ok(())
            }
            "iffalse" => self.if_false(),
            "ifeof" => {
                let n = self.scan_int()?;
                if !(0..=15).contains(&n) {
                    return Err(Status::Error("bad number (stream out of range)"));
                }
                self.note_eof_pending(n as usize);
                let closed = matches!(self.streams[n as usize], Stream::Closed);
                if closed {
                    self.flags.ifeof_true += 1;
                    self.conds.push(false);
                    Ok(())
                } else {
                    self.flags.ifeof_false += 1;
                    self.if_false()
                }
            }
            "else" => {
                match self.conds.last() {
                    None => return Err(Status::Error("extra \\else")),
                    Some(true) => return Err(Status::Error("extra \\else")),
                    Some(false) => {}
                }
                // skip to the matching \fi; a second \else at level 0 is TeX's "Extra \else"
                if self.pass_text()? != "fi" {
                    return Err(Status::Error("extra \\else"));
                }
                self.conds.pop();
                self.note_depths();
                Ok(())
            }
            "fi" => {
                if self.conds.pop().is_none() {
                    return Err(Status::Error("extra \\fi"));
                }
                self.note_depths();
                Ok(())
            }
            _ => Err(Status::OutOfDomain("conditional not modelled")),
        }
    }

    fn if_false(&mut self) -> R<()> {
        if self.pass_text()? == "else" {
            self.conds.push(true);
        }
        Ok(())
    }

    /// pass_text (§494): skip to the `\else` or `\fi` at nesting level 0.
    fn pass_text(&mut self) -> R<&'static str> {
        self.flags.skipped_regions += 1;
        self.skipping = true;
        let mut level = 0usize;
        let r = loop {
            match self.get_next() {
                Err(e) => {
                    self.skipping = false;
                    return Err(e);
                }
                Ok(None) => {
                    self.skipping = false;
                    return Err(Status::OutOfDomain("input ended while skipping"));
                }
                Ok(Some(Tok::Cs(n))) => {
                    if n == "fi" {
                        if level == 0 {
                            break "fi";
                        }
                        level -= 1;
                    } else if n == "else" {
                        if level == 0 {
                            break "else";
                        }
                    } else if IF_NAMES.contains(&n.as_str()) {
                        level += 1;
                    }
                }
                Ok(Some(_)) => {}
            }
        };
        self.skipping = false;
        Ok(r)
    }

    fn top_file_mut(&mut self) -> Option<&mut FileLevel> {
        for l in self.stack.iter_mut().rev() {
            if let Level::File(f) = l {
                return Some(f);
            }
        }
        None
    }

    fn do_endinput(&mut self) {
        self.flags.endinput_exec += 1;
        if !matches!(self.stack.last(), Some(Level::File(_))) {
            self.flags.endinput_from_token_list += 1;
        }
        if self.file_levels() == 1 {
            self.flags.endinput_in_main += 1;
        }
        let drops = self.sem.endinput_drops_rest;
        let mut nonblank = false;
        if let Some(f) = self.top_file_mut() {
            nonblank = f.cur[f.pos.min(f.cur.len())..].iter().any(|c| *c != ' ' && *c != '\r');
            if drops {
                f.pos = f.cur.len();
                f.next = f.lines.len();
            }
        }
        if nonblank {
            self.flags.endinput_nonblank_rest += 1;
        }
        if !drops {
            self.force_eof = true;
        }
    }

    /// scan_file_name (§526) + default extension.
    fn scan_file_name(&mut self) -> R<String> {
        let mut name = String::new();
        // get the next non-blank non-call token
        let mut t = loop {
            match self.get_x_token()? {
                Some(Tok::Space) => continue,
                other => break other,
            }
        };
        loop {
            match t {
                None => break,
                Some(Tok::Space) => break,
                Some(Tok::Ch(c)) => name.push(c),
                Some(Tok::Begin) | Some(Tok::End) => {
                    return Err(Status::OutOfDomain("brace inside a file name"));
                }
                Some(cs @ Tok::Cs(_)) => {
                    self.back_input(cs);
                    break;
                }
            }
            t = self.get_x_token()?;
        }
        if name.is_empty() {
            return Err(Status::OutOfDomain("empty file name"));
        }
        if name.contains(|c| c == '>' || c == ':') {
            return Err(Status::OutOfDomain("file area"));
        }
        if !name.contains('.') {
            name.push_str(".tex");
        }
        Ok(name)
    }

    fn do_input(&mut self) -> R<()> {
        let from_list = !matches!(self.stack.last(), Some(Level::File(_)));
        // which character ends the name is visible in the current file line
        let name = self.scan_file_name()?;
        if self.force_eof {
            // TeX82 quirk: force_eof is global, the *new* file would be cut after its first line
            return Err(Status::OutOfDomain("\\input while \\endinput is pending on the same line"));
        }
        let content = match self.files.get(&name) {
            None => return Err(Status::Error("file not found")),
            Some(c) => c,
        };
        self.flags.inputs += 1;
        if from_list {
            self.flags.inputs_from_token_list += 1;
        }
        if let Some(f) = self.top_file_mut() {
            if f.pos >= f.cur.len() {
                self.flags.inputs_term_eol += 1;
            } else {
                self.flags.inputs_term_space += 1;
            }
        }
        let mut lines = split_lines(content);
        if lines.is_empty() {
            self.flags.empty_file_inputs += 1;
            if !self.sem.empty_file_no_line {
                // §538: "If the file is empty, it is considered to contain a single blank line."
                lines.push(String::new());
            }
        }
        self.push_file(lines);
        Ok(())
    }

    /// scan_int (§440) for decimal constants: blanks and signs, digits, one optional space.
    fn scan_int(&mut self) -> R<i64> {
        let mut neg = false;
        let mut t;
        loop {
            t = self.get_x_token()?;
            match t {
                Some(Tok::Space) => continue,
                Some(Tok::Ch('-')) => neg = !neg,
                Some(Tok::Ch('+')) => {}
                _ => break,
            }
        }
        let mut v: i64 = 0;
        let mut any = false;
        loop {
            match t {
                Some(Tok::Ch(c)) if c.is_ascii_digit() => {
                    any = true;
                    v = v * 10 + (c as i64 - '0' as i64);
                    if v > i32::MAX as i64 {
                        return Err(Status::Error("number too big"));
                    }
                }
                Some(Tok::Space) => break,
                Some(other) => {
                    self.back_input(other);
                    break;
                }
                None => break,
            }
            t = self.get_x_token()?;
        }
        if !any {
            return Err(Status::Error("missing number"));
        }
        Ok(if neg { -v } else { v })
    }

    fn scan_optional_equals(&mut self) -> R<()> {
        loop {
            match self.get_x_token()? {
                Some(Tok::Space) => continue,
                Some(Tok::Ch('=')) => return Ok(()),
                Some(other) => {
                    self.back_input(other);
                    return Ok(());
                }
                None => return Ok(()),
            }
        }
    }

    /// scan_keyword("to") (§407), simplified: the keyword is required here.
    fn scan_to(&mut self) -> R<()> {
        let mut t = self.get_x_token()?;
        while t == Some(Tok::Space) {
            t = self.get_x_token()?;
        }
        match t {
            Some(Tok::Ch('t')) | Some(Tok::Ch('T')) => {}
            _ => return Err(Status::Error("missing `to'")),
        }
        match self.get_x_token()? {
            Some(Tok::Ch('o')) | Some(Tok::Ch('O')) => Ok(()),
            _ => Err(Status::Error("missing `to'")),
        }
    }

    fn note_eof_pending(&mut self, n: usize) {
        if let Stream::Open { lines, pos } = &self.streams[n] {
            if !lines.is_empty() && *pos == lines.len() {
                self.flags.eof_pending_observed += 1;
            }
        }
    }

    /// read_toks (§482-486)
    fn read_toks(&mut self, n: i64) -> R<Vec<Tok>> {
        let m: usize = if (0..=15).contains(&n) { n as usize } else { 16 };
        if m < 16 {
            self.note_eof_pending(m);
        }
        self.flags.reads += 1;
        if self.scopes.len() > 1 {
            self.flags.reads_in_group += 1;
        }
        let mut toks = vec![];
        let mut balance = 0i32;
        let mut nlines = 0;
        let mut from_file = false;
        'lines: loop {
            let line: String = if m == 16 || matches!(self.streams[m], Stream::Closed) {
                match self.terminal.pop_front() {
                    None => return Err(Status::Error("\\read from the terminal: no input available")),
                    Some(l) => {
                        if nlines == 0 {
                            self.flags.reads_terminal += 1;
                        }
                        l
                    }
                }
            } else if let Stream::Open { lines, pos } = &mut self.streams[m] {
                from_file = true;
                if *pos < lines.len() {
                    *pos += 1;
                    lines[*pos - 1].clone()
                } else {
                    // input_ln failed: §485/486
                    self.streams[m] = Stream::Closed;
                    if balance != 0 {
                        return Err(Status::Error("file ended within \\read"));
                    }
                    self.flags.reads_final_empty_line += 1;
                    String::new()
                }
            } else {
                unreachable!()
            };
            nlines += 1;
            let cur = prepare_line(&line);
            let (mut pos, mut st) = (0usize, St::N);
            loop {
                match lex_next(&cur, &mut pos, &mut st) {
                    Lex::Eol => break,
                    Lex::Bad(r) => return Err(Status::OutOfDomain(r)),
                    Lex::Tok(t) => {
                        match t {
                            Tok::Begin => balance += 1,
                            Tok::End => {
                                balance -= 1;
                                if balance < 0 {
                                    // unmatched `}' aborts the line
                                    self.flags.reads_unmatched_close += 1;
                                    break 'lines;
                                }
                            }
                            _ => {}
                        }
                        toks.push(t);
                    }
                }
            }
            if balance == 0 {
                break;
            }
        }
        if nlines > 1 {
            self.flags.reads_multiline += 1;
        }
        if from_file && self.sem.ifeof_early && m < 16 {
            if let Stream::Open { lines, pos } = &self.streams[m] {
                if *pos == lines.len() {
                    self.streams[m] = Stream::Closed;
                }
            }
        }
        Ok(toks)
    }

    fn four_bit(&mut self) -> R<usize> {
        let n = self.scan_int()?;
        if !(0..=15).contains(&n) {
            return Err(Status::Error("bad number (stream out of range)"));
        }
        Ok(n as usize)
    }

    /// get_r_token (§1215)
    fn get_r_token(&mut self) -> R<String> {
        loop {
            match self.get_next()? {
                Some(Tok::Space) => continue,
                Some(Tok::Cs(n)) => return Ok(n),
                _ => return Err(Status::Error("missing control sequence")),
            }
        }
    }

    fn execute_cs(&mut self, name: &str) -> R<()> {
        match name {
            "relax" => Ok(()),
            "vprobe" => {
                let d = self.file_levels();
                self.probes.push(d);
                Ok(())
            }
            "def" => {
                let target = self.get_r_token()?;
                match self.get_next()? {
                    Some(Tok::Begin) => {}
                    _ => return Err(Status::OutOfDomain("macro with parameters")),
                }
                let mut depth = 0usize;
                let mut body = vec![];
                loop {
                    match self.get_next()? {
                        None => return Err(Status::Error("file ended while scanning definition")),
                        Some(Tok::Begin) => {
                            depth += 1;
                            body.push(Tok::Begin);
                        }
                        Some(Tok::End) => {
                            if depth == 0 {
                                break;
                            }
                            depth -= 1;
                            body.push(Tok::End);
                        }
                        Some(t) => body.push(t),
                    }
                }
                self.scopes.last_mut().unwrap().insert(target, body);
                Ok(())
            }
            "openin" => {
                let n = self.four_bit()?;
                self.scan_optional_equals()?;
                let name = self.scan_file_name()?;
                self.streams[n] = match self.files.get(&name) {
                    None => {
                        self.flags.openin_missing += 1;
                        Stream::Closed
                    }
                    Some(c) => {
                        self.flags.openin_found += 1;
                        let mut lines = split_lines(c);
                        if lines.is_empty() && self.sem.ifeof_early {
                            // the code appends a newline to the (empty) content: one empty line
                            lines.push(String::new());
                        }
                        Stream::Open { lines, pos: 0 }
                    }
                };
                let open = self.streams.iter().filter(|s| matches!(s, Stream::Open { .. })).count() as u64;
                if open > self.flags.max_streams_open {
                    self.flags.max_streams_open = open;
                }
                Ok(())
            }
            "closein" => {
                let n = self.four_bit()?;
                self.flags.closein += 1;
                self.streams[n] = Stream::Closed;
                Ok(())
            }
            "read" => {
                let n = self.scan_int()?;
                self.scan_to()?;
                let target = self.get_r_token()?;
                let body = self.read_toks(n)?;
                self.scopes.last_mut().unwrap().insert(target, body);
                Ok(())
            }
            _ => Err(Status::Error("undefined control sequence")),
        }
    }

    fn main_loop(&mut self) -> R<()> {
        loop {
            let t = match self.get_x_token()? {
                None => return Ok(()),
                Some(t) => t,
            };
            match t {
                Tok::Ch(c) => self.out.push(c),
                Tok::Space => self.out.push(' '),
                Tok::Begin => {
                    self.scopes.push(BTreeMap::new());
                }
                Tok::End => {
                    if self.scopes.len() <= 1 {
                        return Err(Status::Error("too many }'s"));
                    }
                    self.scopes.pop();
                    self.note_depths();
                }
                Tok::Cs(name) => self.execute_cs(&name)?,
            }
        }
    }
}

/// Interpret `main` (a file pushed on an empty input stack) against `files` (full names, e.g.
/// `f.tex`) and the lines the terminal would supply.
pub fn run(files: &BTreeMap<String, String>, terminal: &[String], main: &str, sem: Sem) -> Run {
    let mut m = Machine::new(files, terminal, sem);
    // the main program is not subject to §538's rule for empty files (it is handed to the
    // interpreter as text, not opened by \input)
    m.push_file(split_lines(main));
    let status = match m.main_loop() {
        Ok(()) => Status::Ok,
        Err(s) => s,
    };
    Run {
        out: m.out,
        status,
        macro_calls: m.macro_calls,
        probes: m.probes,
        flags: m.flags,
    }
}

/// Number of `\read`s that deliver real lines of `content` (TeX semantics); None if the file
/// ends inside a brace group.  The (n+1)-st read then yields the appended empty line.
pub fn read_units(content: &str) -> Option<usize> {
    let files = BTreeMap::new();
    let mut m = Machine::new(&files, &[], Sem::default());
    m.streams[0] = Stream::Open { lines: split_lines(content), pos: 0 };
    let mut units = 0;
    loop {
        match m.read_toks(0) {
            Err(_) => return None,
            Ok(_) => {}
        }
        if matches!(m.streams[0], Stream::Closed) {
            return Some(units);
        }
        units += 1;
    }
}

#[cfg(test)]
mod tests {
    use super::*;

    fn fs(v: &[(&str, &str)]) -> BTreeMap<String, String> {
        v.iter().map(|(a, b)| (a.to_string(), b.to_string())).collect()
    }

    #[test]
    fn basic_input() {
        let f = fs(&[("f.tex", "A\nB\n")]);
        let r = run(&f, &[], "\\def\\par{!}X \\input f Y\nZ \\input f\nW\n\nQ", Sem::default());
        assert_eq!(r.status, Status::Ok);
        assert_eq!(r.out, "X A B Y Z A B W !Q ");
    }

    #[test]
    fn endinput_reads_line_to_its_end() {
        let f = fs(&[("f.tex", "A\\endinput B\nC\n")]);
        let r = run(&f, &[], "X \\input f Y\nZ", Sem::default());
        assert_eq!(r.out, "X AB Y Z ");
        assert_eq!(r.flags.endinput_nonblank_rest, 1);
        let d = run(&f, &[], "X \\input f Y\nZ", Sem { endinput_drops_rest: true, ..Sem::default() });
        assert_eq!(d.out, "X AY Z ");
    }

    #[test]
    fn empty_file_is_one_blank_line() {
        let f = fs(&[("e.tex", "")]);
        let r = run(&f, &[], "\\def\\par{!}A\\input e B", Sem::default());
        assert_eq!(r.out, "A!B ");
        let d = run(&f, &[], "\\def\\par{!}A\\input e B", Sem { empty_file_no_line: true, ..Sem::default() });
        assert_eq!(d.out, "AB ");
    }

    #[test]
    fn read_n_plus_one() {
        let f = fs(&[("f.tex", "A\nB\n")]);
        let p = "\\def\\par{!}\\openin1=f \\ifeof1 T\\else F\\fi\\read1 to\\x[\\x]\\ifeof1 T\\else F\\fi\\read1 to\\x[\\x]\\ifeof1 T\\else F\\fi\\read1 to\\x[\\x]\\ifeof1 T\\else F\\fi";
        let r = run(&f, &[], p, Sem::default());
        assert_eq!(r.status, Status::Ok);
        assert_eq!(r.out, "F[A ]F[B ]F[!]T");
        let d = run(&f, &["T0".into(), "T1".into()], p, Sem { ifeof_early: true, ..Sem::default() });
        assert_eq!(d.out, "F[A ]F[B ]T[T0 ]T");
    }

    #[test]
    fn read_groups() {
        let f = fs(&[("f.tex", "A {\n B\n}C }D\nE")]);
        let p = "\\def\\par{!}\\openin3=f \\read3 to\\x[\\x]\\ifeof3 T\\else F\\fi\\read3 to\\x[\\x]\\ifeof3 T\\else F\\fi";
        let r = run(&f, &[], p, Sem::default());
        assert_eq!(r.out, "[A  B C ]F[E ]F");
        assert_eq!(read_units("A {\n B\n}C }D\nE"), Some(2));
        assert_eq!(read_units(""), Some(0));
        assert_eq!(read_units("{\n"), None);
    }
}
