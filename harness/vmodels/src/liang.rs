//! Reference model of Liang's hyphenation as TeX82 defines it (TeX: The Program, part 40
//! "Hyphenation" §919-§931, part 43 "Initializing the hyphenation tables" §960-§965, and the
//! exception dictionary §934-§940). Shared by C13 (pattern matching) and C14 (hyphenating a
//! horizontal list).
//!
//! Nothing here depends on /repo. Two independent formulations of the pattern rule are kept:
//!
//! * `Liang::scores` - for every substring of `.word.` look the substring up in a hash map keyed by
//!   (anchored-at-start, anchored-at-end, letters);
//! * `Liang::scores_linear` - the definition read literally: for every pattern, for every offset,
//!   compare letter by letter.
//!
//! The monitors compare both (disagreement = INCONCLUSIVE, never a verdict).
//!
//! Conventions. A word has letters `w[0..n]`. "Gap `i`" (0 <= i <= n) is the inter-letter position
//! before `w[i]`; gap 0 is before the word and gap n after it. In TeX's own indexing this is
//! `hyf[i]` ("a hyphen may follow letter hc[i]"). A *position* is a gap at which a hyphen is
//! permitted; positions are reported as the index of the letter the hyphen precedes.

use std::collections::HashMap;

/// One pattern, in the form TeX stores it after §962-§965.
#[derive(Clone, Debug, PartialEq, Eq, Hash)]
pub struct Pattern {
    /// The pattern began with `.` (edge-of-word delimiter, `hc[1]=0`).
    pub start: bool,
    /// The pattern ended with `.` (`hc[k]=0`).
    pub end: bool,
    pub letters: Vec<char>,
    /// `digits[i]` = the level in the gap before `letters[i]`; `digits[len]` = after the last letter.
    /// Always `letters.len() + 1` entries.
    pub digits: Vec<u8>,
}

/// Why a pattern text is outside the domain in which TeX's behaviour is unambiguous.
#[derive(Clone, Debug, PartialEq, Eq)]
pub enum PatternError {
    /// Two digits in a row: TeX §962 treats the second digit as a *letter* (`digit_sensed`), which
    /// in plain TeX is a "Nonletter" error.
    ConsecutiveDigits,
    /// `.` somewhere other than the first or last letter position.
    InnerDot,
    /// No letter at all.
    NoLetters,
}

impl Pattern {
    /// Transcription of §962 (scan letters and digits) and §965 (the two `hyf` entries outside the
    /// delimiters are cleared).
    pub fn parse(text: &str) -> Result<Pattern, PatternError> {
        // hc[1..=k] with None standing for the edge-of-word delimiter 0; hyf[0..=k].
        let mut hc: Vec<Option<char>> = vec![];
        let mut hyf: Vec<u8> = vec![0];
        let mut digit_sensed = false;
        for c in text.chars() {
            if c.is_ascii_digit() {
                if digit_sensed {
                    return Err(PatternError::ConsecutiveDigits);
                }
                let k = hc.len();
                hyf[k] = c as u8 - b'0';
                digit_sensed = true;
            } else {
                hc.push(if c == '.' { None } else { Some(c) });
                hyf.push(0);
                digit_sensed = false;
            }
        }
        let k = hc.len();
        if k == 0 {
            return Err(PatternError::NoLetters);
        }
        let start = hc[0].is_none();
        let end = k >= 2 && hc[k - 1].is_none();
        if k == 1 && start {
            return Err(PatternError::NoLetters);
        }
        // §965: if hc[1]=0 then hyf[0]:=0; if hc[k]=0 then hyf[k]:=0.
        if start {
            hyf[0] = 0;
        }
        if end {
            hyf[k] = 0;
        }
        let lo = if start { 1 } else { 0 };
        let hi = if end { k - 1 } else { k };
        if lo >= hi {
            return Err(PatternError::NoLetters);
        }
        let mut letters = vec![];
        for x in &hc[lo..hi] {
            match x {
                Some(c) => letters.push(*c),
                None => return Err(PatternError::InnerDot),
            }
        }
        // hyf[i] sits after hc[i] (1-based) = before hc[i+1]; with 0-based letters hc[lo..hi] the gap
        // before letters[0] is hyf[lo].
        let digits = hyf[lo..=hi].to_vec();
        debug_assert_eq!(digits.len(), letters.len() + 1);
        Ok(Pattern {
            start,
            end,
            letters,
            digits,
        })
    }

    /// The identity TeX uses to reject "Duplicate pattern" (§963): the letter string including the
    /// delimiters.
    pub fn key(&self) -> (bool, bool, Vec<char>) {
        (self.start, self.end, self.letters.clone())
    }

    pub fn to_text(&self) -> String {
        let mut s = String::new();
        if self.start {
            s.push('.');
        }
        for (i, c) in self.letters.iter().enumerate() {
            if self.digits[i] != 0 {
                s.push((b'0' + self.digits[i]) as char);
            }
            s.push(*c);
        }
        if self.digits[self.letters.len()] != 0 {
            s.push((b'0' + self.digits[self.letters.len()]) as char);
        }
        if self.end {
            s.push('.');
        }
        s
    }
}

/// Parse one `\hyphenation` word (§935-§939): letters, with `-` marking the permitted positions.
/// Returns (letters, positions) where a position is the index of the letter the hyphen precedes
/// (0..=n are all representable; 0 and n are harmless because §923 `found:` clears them).
pub fn parse_exception(text: &str) -> (Vec<char>, Vec<usize>) {
    let mut letters = vec![];
    let mut pos = vec![];
    for c in text.chars() {
        if c == '-' {
            if pos.last() != Some(&letters.len()) {
                pos.push(letters.len());
            }
        } else {
            letters.push(c);
        }
    }
    (letters, pos)
}

#[derive(Clone, Debug, Default)]
pub struct Liang {
    by_key: HashMap<(bool, bool, Vec<char>), Vec<u8>>,
    list: Vec<Pattern>,
    max_len: usize,
    /// word -> permitted positions; a later entry for the same word replaces the earlier one
    /// (§940-§941: the most recent entry is found first).
    exceptions: HashMap<Vec<char>, Vec<usize>>,
}

impl Liang {
    pub fn new() -> Liang {
        Default::default()
    }

    /// Returns false (and ignores the pattern) if a pattern with the same letters is already
    /// present - TeX reports "Duplicate pattern" and keeps the first (§963).
    pub fn add_pattern(&mut self, p: Pattern) -> bool {
        let key = p.key();
        if self.by_key.contains_key(&key) {
            return false;
        }
        self.max_len = self.max_len.max(p.letters.len());
        self.by_key.insert(key, p.digits.clone());
        self.list.push(p);
        true
    }

    /// Load a whitespace separated pattern text. Returns the number of patterns that were outside
    /// the domain (malformed or duplicate) and therefore not loaded.
    pub fn load_patterns(&mut self, text: &str) -> usize {
        let mut bad = 0;
        for t in text.split_whitespace() {
            match Pattern::parse(t) {
                Ok(p) => {
                    if !self.add_pattern(p) {
                        bad += 1;
                    }
                }
                Err(_) => bad += 1,
            }
        }
        bad
    }

    pub fn add_exception(&mut self, text: &str) {
        let (w, p) = parse_exception(text);
        if !w.is_empty() {
            self.exceptions.insert(w, p);
        }
    }

    pub fn num_patterns(&self) -> usize {
        self.list.len()
    }

    pub fn patterns(&self) -> &[Pattern] {
        &self.list
    }

    pub fn exception(&self, word: &[char]) -> Option<&Vec<usize>> {
        self.exceptions.get(word)
    }

    /// §923-§924, formulation 1: gap-wise maximum over all pattern occurrences. `word` must already
    /// be lower-cased (`hc[1..hn]`). Result has `n+1` entries (gaps 0..=n), *before* the
    /// "never before the first / after the last letter" clearing.
    pub fn scores(&self, word: &[char]) -> Vec<u8> {
        let n = word.len();
        let mut hyf = vec![0u8; n + 1];
        for i in 0..n {
            let top = n.min(i + self.max_len);
            for j in (i + 1)..=top {
                let sub = &word[i..j];
                for (st, en) in [(false, false), (true, false), (false, true), (true, true)] {
                    if (st && i != 0) || (en && j != n) {
                        continue;
                    }
                    // (allocation per lookup is fine for a reference model)
                    if let Some(d) = self.by_key.get(&(st, en, sub.to_vec())) {
                        for (k, v) in d.iter().enumerate() {
                            if *v > hyf[i + k] {
                                hyf[i + k] = *v;
                            }
                        }
                    }
                }
            }
        }
        hyf
    }

    /// Formulation 2: every pattern against every offset.
    pub fn scores_linear(&self, word: &[char]) -> Vec<u8> {
        let n = word.len();
        let mut hyf = vec![0u8; n + 1];
        for p in &self.list {
            let m = p.letters.len();
            if m > n {
                continue;
            }
            for off in 0..=(n - m) {
                if p.start && off != 0 {
                    break;
                }
                if p.end && off + m != n {
                    continue;
                }
                if word[off..off + m] == p.letters[..] {
                    for k in 0..=m {
                        if p.digits[k] > hyf[off + k] {
                            hyf[off + k] = p.digits[k];
                        }
                    }
                }
            }
        }
        hyf
    }

    /// Positions from the patterns alone (odd level), with the two outer gaps excluded.
    pub fn pattern_positions(&self, word: &[char]) -> Vec<usize> {
        let hyf = self.scores(word);
        (1..word.len()).filter(|i| hyf[*i] % 2 == 1).collect()
    }

    /// The permitted positions of a (lower-cased) word: the exception entry if there is one
    /// (§930-§931: "if found, goto found" skips the patterns entirely), otherwise the patterns.
    /// Never before the first letter, never after the last.
    pub fn positions(&self, word: &[char]) -> Vec<usize> {
        let n = word.len();
        match self.exceptions.get(word) {
            Some(p) => {
                let mut v: Vec<usize> = p.iter().copied().filter(|i| *i >= 1 && *i < n).collect();
                v.sort_unstable();
                v.dedup();
                v
            }
            None => self.pattern_positions(word),
        }
    }

    /// §923 `found:` - clear `hyf[0..l_hyf-1]` and `hyf[hn-r_hyf+1..hn]`; and §891/§1091:
    /// `l_hyf`, `r_hyf` are the `\lefthyphenmin`/`\righthyphenmin` values normalised into 1..63
    /// (`norm_min`: h<=0 -> 1, h>=64 -> 63).
    pub fn positions_minmax(&self, word: &[char], left_min: i32, right_min: i32) -> Vec<usize> {
        let l = norm_min(left_min);
        let r = norm_min(right_min);
        let n = word.len();
        // §899/§902: hn < l_hyf + r_hyf -> no attempt at all (same set: empty)
        self.positions(word)
            .into_iter()
            .filter(|p| *p >= l && *p + r <= n)
            .collect()
    }

    /// What the implementation under test does *today* for C13's known finding: the exception is
    /// not a separate table but a pseudo-pattern `.word.` stored in the pattern trie, whose gaps
    /// carry level 7 (hyphen) or 6 (no hyphen) and which is merged with the ordinary patterns by
    /// maximum. Because it occupies the trie node of the pattern `.word.`, a real pattern with
    /// exactly these letters and both anchors (loaded earlier) is replaced by it.
    pub fn positions_exception_as_levels(&self, word: &[char]) -> Vec<usize> {
        let n = word.len();
        let Some(p) = self.exceptions.get(word) else {
            return self.pattern_positions(word);
        };
        let mut hyf = vec![0u8; n + 1];
        for pat in &self.list {
            let m = pat.letters.len();
            if m > n || (pat.start && pat.end && m == n) {
                continue;
            }
            for off in 0..=(n - m) {
                if (pat.start && off != 0) || (pat.end && off + m != n) {
                    continue;
                }
                if word[off..off + m] == pat.letters[..] {
                    for k in 0..=m {
                        hyf[off + k] = hyf[off + k].max(pat.digits[k]);
                    }
                }
            }
        }
        for (i, h) in hyf.iter_mut().enumerate() {
            let e = if p.contains(&i) { 7 } else { 6 };
            *h = (*h).max(e);
        }
        (1..n).filter(|i| hyf[*i] % 2 == 1).collect()
    }
}

/// §1091 `norm_min`.
pub fn norm_min(h: i32) -> usize {
    if h <= 0 {
        1
    } else if h >= 64 {
        63
    } else {
        h as usize
    }
}

// ==========================================================================================
// Which words of a horizontal list TeX tries to hyphenate (TeX §891-§899), on an abstract list.
// ==========================================================================================

/// What the word finder needs to know about a node of a horizontal list (TeX part 10 node types,
/// reduced to the distinctions §896-§899 make).
#[derive(Clone, Debug, PartialEq, Eq)]
pub enum HNode {
    /// `char_node`: character and font.
    Char(char, u32),
    /// `ligature_node`: font and the original characters (`lig_ptr`), possibly none.
    Lig(u32, Vec<char>),
    /// `kern_node` with `subtype=normal` (inserted by a font's lig/kern program).
    ImplicitKern,
    /// `kern_node` with any other subtype (explicit, accent, math).
    OtherKern,
    Whatsit,
    Glue,
    Penalty,
    /// ins_node, adjust_node, mark_node
    InsAdjustMark,
    /// hlist, vlist, rule, disc, math - "othercases" in §896 and §899.
    BoxRuleDiscMath,
}

/// Why the word finder gave up after a glue node (label `done1`).
#[derive(Clone, Copy, Debug, PartialEq, Eq)]
pub enum NoWord {
    /// §896: the prefix scan met something that is not a character, ligature, implicit kern or
    /// whatsit before it met a letter (or the list ended).
    PrefixAborted,
    /// §899: fewer than `l_hyf + r_hyf` letters.
    TooShort,
    /// §899: the nodes after the word do not permit hyphenation (box, rule, disc, math).
    BadFollower,
    /// §894: `l_hyf + r_hyf > 63`.
    MinimumsTooLarge,
}

#[derive(Clone, Debug, PartialEq, Eq)]
pub struct FoundWord {
    /// Index of the glue node that triggered the search (`cur_p`).
    pub glue: usize,
    /// Index of the first node of the word (the node after `ha`).
    pub first: usize,
    /// Index of the last node that belongs to the word (`hb`): the last letter-carrying node or an
    /// implicit kern after it.
    pub last: usize,
    /// `hu[1..hn]`, as they stand in the list (not lower-cased).
    pub letters: Vec<char>,
    /// The word stopped because 63 letters were collected although more letters follow (§897
    /// `if hn=63 then goto done3`): TeX's implementation limit.
    pub truncated: bool,
    /// The font `hf`.
    pub font: u32,
    /// `None`: TeX calls `hyphenate`. Otherwise the reason it does not.
    pub rejected: Option<NoWord>,
}

/// The two behaviours of the outer loop. `Tex`: every glue node of the list is a starting point
/// (§866: the main loop of `line_break` visits every node; §894 only peeks ahead from `cur_p`).
/// `AbortConsumes`: deviation model for the C14 finding "a word after a letterless token is never
/// tried" - the node on which the prefix scan gives up is consumed by the scan, so if it is a glue
/// node it never becomes a starting point itself.
#[derive(Clone, Copy, Debug, PartialEq, Eq)]
pub enum Scan {
    Tex,
    AbortConsumes,
}

/// Transcription of §894-§899 under the assumptions the implementation documents: `\uchyph>0`,
/// a valid `\hyphenchar`, `is_letter(c)` <=> `lc_code(c)<>0`.
/// Returns, for every glue node that is a starting point, either the word found (with its verdict)
/// or nothing (prefix aborted).
pub fn find_words(
    list: &[HNode],
    is_letter: &dyn Fn(char) -> bool,
    left_min: i32,
    right_min: i32,
    scan: Scan,
) -> Vec<FoundWord> {
    let l_hyf = norm_min(left_min);
    let r_hyf = norm_min(right_min);
    let mut out = vec![];
    let mut cur = 0usize;
    while cur < list.len() {
        if list[cur] != HNode::Glue {
            cur += 1;
            continue;
        }
        let glue = cur;
        cur += 1;
        // §896: skip to node ha, or goto done1
        let mut s = glue + 1;
        let hf: u32;
        loop {
            let c: char;
            let f: u32;
            match list.get(s) {
                Some(HNode::Char(ch, font)) => {
                    c = *ch;
                    f = *font;
                }
                Some(HNode::Lig(font, orig)) => {
                    if orig.is_empty() {
                        s += 1;
                        continue;
                    }
                    c = orig[0];
                    f = *font;
                }
                Some(HNode::ImplicitKern) | Some(HNode::Whatsit) => {
                    s += 1;
                    continue;
                }
                _ => {
                    // done1
                    if scan == Scan::AbortConsumes && s < list.len() {
                        cur = s + 1;
                    }
                    s = usize::MAX;
                    break;
                }
            }
            if is_letter(c) {
                hf = f;
                // (uc_hyph>0: upper-case letters are accepted as well)
                let first = s;
                // §897-§898: skip to node hb, putting letters into hu
                let mut letters: Vec<char> = vec![];
                let mut hb = s;
                let mut truncated = false;
                loop {
                    match list.get(s) {
                        Some(HNode::Char(ch, font)) => {
                            if *font != hf || !is_letter(*ch) {
                                break;
                            }
                            if letters.len() == 63 {
                                truncated = true;
                                break;
                            }
                            letters.push(*ch);
                            hb = s;
                        }
                        Some(HNode::Lig(font, orig)) => {
                            if *font != hf {
                                break;
                            }
                            // all characters must be letters and fit, otherwise hn stays
                            if !orig.iter().all(|c| is_letter(*c)) {
                                break;
                            }
                            if letters.len() + orig.len() > 63 {
                                truncated = true;
                                break;
                            }
                            letters.extend(orig.iter());
                            hb = s;
                        }
                        Some(HNode::ImplicitKern) => {
                            hb = s;
                        }
                        _ => break,
                    }
                    s += 1;
                }
                // §894 / §899
                let mut rejected = None;
                if l_hyf + r_hyf > 63 {
                    rejected = Some(NoWord::MinimumsTooLarge);
                } else if letters.len() < l_hyf + r_hyf {
                    rejected = Some(NoWord::TooShort);
                } else {
                    let mut t = s;
                    loop {
                        match list.get(t) {
                            Some(HNode::Char(..)) | Some(HNode::Lig(..)) | Some(HNode::ImplicitKern) => {}
                            Some(HNode::OtherKern)
                            | Some(HNode::Whatsit)
                            | Some(HNode::Glue)
                            | Some(HNode::Penalty)
                            | Some(HNode::InsAdjustMark) => break,
                            Some(HNode::BoxRuleDiscMath) => {
                                rejected = Some(NoWord::BadFollower);
                                break;
                            }
                            // TeX's lists end with \penalty10000\parfillskip; a list that simply
                            // ends is treated like one that ends with them.
                            None => break,
                        }
                        t += 1;
                    }
                }
                out.push(FoundWord {
                    glue,
                    first,
                    last: hb,
                    letters,
                    truncated,
                    font: hf,
                    rejected,
                });
                break;
            }
            s += 1;
        }
        let _ = s;
    }
    out
}

#[cfg(test)]
mod tests {
    use super::*;

    fn w(s: &str) -> Vec<char> {
        s.chars().collect()
    }

    #[test]
    fn texbook_appendix_h() {
        // The TeXbook, Appendix H: h0y3p0h0e2n5a4t2i0o2n
        let mut m = Liang::new();
        assert_eq!(m.load_patterns("hy3ph he2n hena4 hen5at 1na n2at 1tio 2io o2n"), 0);
        let word = w("hyphenation");
        assert_eq!(m.scores(&word), vec![0, 0, 3, 0, 0, 2, 5, 4, 2, 0, 2, 0]);
        assert_eq!(m.scores_linear(&word), m.scores(&word));
        assert_eq!(m.positions(&word), vec![2, 6]);
    }

    #[test]
    fn anchors_and_outer_digits() {
        let p = Pattern::parse("8.a1b2.9").unwrap();
        assert_eq!(p.digits, vec![0, 1, 2]);
        assert!(p.start && p.end);
        let p = Pattern::parse(".1ab").unwrap();
        assert_eq!(p.digits, vec![1, 0, 0]);
        assert_eq!(Pattern::parse("a12b"), Err(PatternError::ConsecutiveDigits));
        assert_eq!(Pattern::parse("a.b"), Err(PatternError::InnerDot));
        assert_eq!(Pattern::parse("."), Err(PatternError::NoLetters));
        assert_eq!(Pattern::parse("1"), Err(PatternError::NoLetters));
        let mut m = Liang::new();
        m.load_patterns(".ab1 b1a. a3a");
        assert_eq!(m.positions(&w("abba")), vec![2, 3]);
        assert_eq!(m.positions(&w("xabba")), vec![4]);
        assert_eq!(m.positions(&w("aaa")), vec![1, 2]);
    }

    #[test]
    fn exceptions_win() {
        let mut m = Liang::new();
        m.load_patterns("a9b");
        m.add_exception("ab-ab");
        assert_eq!(m.positions(&w("abab")), vec![2]);
        assert_eq!(m.positions_exception_as_levels(&w("abab")), vec![1, 2, 3]);
        assert_eq!(m.positions(&w("ababa")), vec![1, 3]);
        m.add_exception("abab");
        assert_eq!(m.positions(&w("abab")), Vec::<usize>::new());
        assert_eq!(m.positions_minmax(&w("ababa"), 2, 3), Vec::<usize>::new());
        assert_eq!(m.positions_minmax(&w("ababa"), 0, 2), vec![1, 3]);
    }
}
