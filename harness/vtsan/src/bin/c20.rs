//! C20 under ThreadSanitizer (built and run by /verif/stages/C20.sh, thorough tier):
//! `c20 <threads> <creations per thread> <rounds>`. All tags must be pairwise distinct and the
//! shared StaticTag single-valued (exit 3 otherwise); a TSan report makes the process exit 66.

use std::sync::Barrier;
use texlang::command::{StaticTag, Tag};

fn main() {
    let arg = |i: usize, d: usize| -> usize {
        std::env::args().nth(i).and_then(|s| s.parse().ok()).unwrap_or(d)
    };
    let (t, n, rounds) = (arg(1, 64), arg(2, 10_000), arg(3, 3));
    let mut all: Vec<Tag> = Vec::with_capacity(t * n * rounds + rounds);
    let mut ok = true;
    let mut switches = 0usize;
    for round in 0..rounds {
        let barrier = Barrier::new(t);
        let shared = StaticTag::new();
        let mut created: Vec<(Tag, usize)> = Vec::with_capacity(t * n);
        let mut statics: Vec<Tag> = vec![];
        std::thread::scope(|scope| {
            let hs: Vec<_> = (0..t)
                .map(|id| {
                    let barrier = &barrier;
                    let shared = &shared;
                    scope.spawn(move || {
                        barrier.wait();
                        let s1 = shared.get();
                        let mine: Vec<Tag> = (0..n).map(|_| Tag::new()).collect();
                        (id, mine, s1, shared.get())
                    })
                })
                .collect();
            for h in hs {
                let (id, mine, s1, s2) = h.join().expect("tag thread panicked");
                created.extend(mine.into_iter().map(|tag| (tag, id)));
                statics.push(s1);
                statics.push(s2);
            }
        });
        created.sort();
        switches += created.windows(2).filter(|w| w[0].1 != w[1].1).count();
        if statics.iter().any(|s| *s != statics[0]) {
            println!("STATIC-TAG-SEVERAL-VALUES round={round}");
            ok = false;
        }
        all.extend(created.iter().map(|p| p.0));
        all.push(statics[0]);
    }
    let total = all.len();
    all.sort();
    all.dedup();
    if all.len() != total {
        println!("DUPLICATE-TAG {} duplicates among {total}", total - all.len());
        ok = false;
    }
    println!("TAGS-CREATED {total}");
    println!("OWNER-SWITCHES {switches}");
    if !ok {
        println!("PROPERTY-BROKEN");
        std::process::exit(3);
    }
    println!("DONE");
}
