//! The font corpus of the repository under test, read at run time from
//! `vcore::repo_dir()/crates/tfm/corpus` (so a scratch worktree is honoured).

use std::path::{Path, PathBuf};
use std::sync::OnceLock;

pub struct Corpus {
    /// (path relative to the corpus root, bytes), sorted by name: `.tfm` files.
    pub tfm: Vec<(String, Vec<u8>)>,
    /// (path relative to the corpus root, text), sorted by name: `.plst` / `.pl` files.
    pub pl: Vec<(String, String)>,
    pub root: PathBuf,
    pub problems: Vec<String>,
}

fn walk(dir: &Path, out: &mut Vec<PathBuf>) {
    let Ok(rd) = std::fs::read_dir(dir) else {
        return;
    };
    for e in rd.flatten() {
        let p = e.path();
        if p.is_dir() {
            walk(&p, out);
        } else {
            out.push(p);
        }
    }
}

fn load() -> Corpus {
    let root = vcore::repo_dir().join("crates/tfm/corpus");
    let mut files = vec![];
    walk(&root, &mut files);
    // one more property list lives next to the lig/kern unit tests
    files.push(vcore::repo_dir().join("crates/tfm/src/ligkern/ligaroo.plst"));
    files.sort();
    let mut c = Corpus {
        tfm: vec![],
        pl: vec![],
        root: root.clone(),
        problems: vec![],
    };
    for p in files {
        let name = p
            .strip_prefix(&root)
            .map(|r| r.to_string_lossy().to_string())
            .unwrap_or_else(|_| p.file_name().unwrap_or_default().to_string_lossy().to_string());
        match p.extension().and_then(|e| e.to_str()) {
            Some("tfm") => match std::fs::read(&p) {
                Ok(b) => c.tfm.push((name, b)),
                Err(e) => c.problems.push(format!("{}: {e}", p.display())),
            },
            Some("plst") | Some("pl") => match std::fs::read(&p) {
                // pltotf reads with read_to_string; a file that is not UTF-8 cannot reach the
                // library, so use the lossy form (keeps the structure, replaces bad bytes).
                Ok(b) => c.pl.push((name, String::from_utf8_lossy(&b).to_string())),
                Err(e) => c.problems.push(format!("{}: {e}", p.display())),
            },
            _ => {}
        }
    }
    c
}

pub fn corpus() -> &'static Corpus {
    static C: OnceLock<Corpus> = OnceLock::new();
    C.get_or_init(load)
}
