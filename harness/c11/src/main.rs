fn main() {
    vcore::run_main(&c11::MONITOR)
}
