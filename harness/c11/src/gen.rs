//! Generator of fonts as property lists (the quantifier of C11: 0..256 characters, at most
//! 15/15/63 distinct non-zero heights/depths/italics and 255 widths so that PLtoTF's lossy
//! compression is never needed, lig/kern tables with several labels per chain, more than 255
//! instructions to force entry-point redirection, boundary characters, NEXTLARGER chains,
//! VARCHAR recipes). The output is meant to be *valid*: whatever still raises a warning in the
//! first PL->TFM step is outside the quantifier and skipped by the monitor.

use vcore::Rng;

#[derive(Default, Debug, Clone)]
pub struct Features {
    pub chars: usize,
    pub lig_instructions: usize,
    pub labels: usize,
    pub max_labels_per_chain: usize,
    pub boundary_char: bool,
    pub left_boundary_program: bool,
    pub next_larger: usize,
    pub varchar: usize,
    pub params: usize,
    pub extra_header: usize,
    pub wild_ligs: bool,
    pub skips: usize,
    pub big_skips: usize,
}

fn real(rng: &mut Rng, lo: i64, hi: i64) -> String {
    // decimal with up to 7 fractional digits, |value| < hi
    let ip = rng.range_i64(lo, hi - 1);
    let digits = rng.range_usize(0, 7);
    let mut s = if ip < 0 || (ip == 0 && lo < 0 && rng.coin()) {
        format!("-{}", ip.abs())
    } else {
        format!("{ip}")
    };
    if digits > 0 {
        s.push('.');
        for _ in 0..digits {
            s.push((b'0' + rng.below(10) as u8) as char);
        }
    }
    s
}

fn pool(rng: &mut Rng, n: usize, lo: i64, hi: i64) -> Vec<String> {
    let mut v: Vec<String> = vec![];
    while v.len() < n {
        let r = real(rng, lo, hi);
        // distinct as decimal strings is not distinct as fix words, but fewer is always fine
        if !v.contains(&r) {
            v.push(r);
        }
    }
    v
}

fn chr(rng: &mut Rng, c: u8) -> String {
    match rng.below(4) {
        0 if c.is_ascii_alphanumeric() => format!("C {}", c as char),
        1 => format!("D {c}"),
        2 => format!("H {c:X}"),
        _ => format!("O {c:o}"),
    }
}

const LIGS: [&str; 8] = ["LIG", "/LIG", "/LIG>", "LIG/", "LIG/>", "/LIG/", "/LIG/>", "/LIG/>>"];

pub fn gen_font(rng: &mut Rng, size_class: u64) -> (String, Features) {
    let mut f = Features::default();
    let mut out = String::new();

    // ---- header
    if rng.chance(2, 3) {
        let fam: &[&str] = &["CMR", "HELVETICA", "Times", "x", "", "A B C", "UNSPECIFIED", "0123456789012345678"];
        out.push_str(&format!("(FAMILY {})\n", rng.pick(fam)));
    }
    if rng.chance(2, 3) {
        if rng.coin() {
            out.push_str(&format!("(FACE F {}{}{})\n", rng.pick(&["M", "B", "L"]), rng.pick(&["R", "I"]), rng.pick(&["R", "C", "E"])));
        } else {
            out.push_str(&format!("(FACE O {:o})\n", rng.below(256)));
        }
    }
    // extra header words HEADER D 18 ..; one time in twelve up to the field maximum (index 255,
    // i.e. a header of exactly 256 words) - all of them emitted then
    let full_header = rng.chance(1, 12);
    let n_extra = if full_header {
        *rng.pick(&[200usize, 236, 237, 238])
    } else if rng.chance(1, 3) {
        rng.range_usize(1, 6)
    } else {
        0
    };
    for i in 0..n_extra {
        if full_header || rng.chance(3, 4) {
            out.push_str(&format!("(HEADER D {} O {:o})\n", 18 + i, rng.next_u32()));
            f.extra_header = i + 1;
        }
    }
    let math = rng.below(12);
    let scheme: String = match math {
        0 => "TEX MATH SYMBOLS".into(),
        1 => "TEX MATH EXTENSION".into(),
        2 => "TeX text".into(),
        3 => "".into(),
        4 => "012345678901234567890123456789012345678".into(),
        _ => rng.pick(&["ASCII", "TEX TEXT", "UNSPECIFIED", "EXTENDED TEX FONT ENCODING - LATIN"]).to_string(),
    };
    if math != 11 {
        out.push_str(&format!("(CODINGSCHEME {scheme})\n"));
    }
    if rng.chance(4, 5) {
        out.push_str(&format!("(DESIGNSIZE R {})\n", real(rng, 1, 100)));
    }
    if rng.chance(1, 2) {
        out.push_str(&format!("(CHECKSUM O {:o})\n", rng.next_u32()));
    }

    // ---- parameters
    let np = match math {
        0 if rng.chance(4, 5) => 22,
        1 if rng.chance(4, 5) => 13,
        _ => *rng.pick(&[0usize, 0, 1, 6, 7, 7, 8, 13, 22, 25, 30]),
    };
    if np > 0 {
        out.push_str("(FONTDIMEN\n");
        for i in 1..=np {
            if rng.chance(1, 8) {
                continue; // gaps are zero
            }
            let v = if i == 1 { real(rng, -3, 3) } else { real(rng, -15, 15) };
            out.push_str(&format!("   (PARAMETER D {i} R {v})\n"));
        }
        out.push_str("   )\n");
        f.params = np;
    }

    // ---- characters
    // one font in twenty-four is all extensible: every character carries a VARCHAR, the recipes come from a small pool
    // (several characters share one), and half of these fonts have all 256 codes - the extensible table at its limit
    let all_ext = rng.chance(1, 24);
    let n_chars = match if all_ext && rng.coin() { 7 } else { size_class % 8 } {
        0 => rng.range_usize(0, 2),
        1 | 2 => rng.range_usize(2, 12),
        3 | 4 => rng.range_usize(8, 60),
        5 => rng.range_usize(40, 160),
        6 => rng.range_usize(128, 256),
        _ => 256,
    };
    let mut codes: Vec<u8> = (0..=255u8).collect();
    if rng.chance(1, 3) {
        // a contiguous range
        let start = rng.range_usize(0, 256 - n_chars);
        codes = (start..start + n_chars).map(|c| c as u8).collect();
    } else {
        rng.shuffle(&mut codes);
        codes.truncate(n_chars);
        codes.sort_unstable();
    }
    f.chars = codes.len();

    let nw = rng.range_usize(1, 40.min(n_chars.max(1))).max(1);
    let widths = pool(rng, nw, -2, 15);
    let nh = rng.range_usize(0, 15);
    let heights = pool(rng, nh, -3, 15);
    let nd = rng.range_usize(0, 15);
    let depths = pool(rng, nd, -3, 15);
    let ni = rng.range_usize(0, 63);
    let italics = pool(rng, ni, -2, 15);
    // rarely: as many distinct widths as characters (up to 255)
    let many_widths = if rng.chance(1, 10) { pool(rng, n_chars.min(255), -15, 15) } else { vec![] };

    // roles: lig results that take no part in any program (loop-free scheme)
    f.wild_ligs = rng.chance(1, 4);
    let n_results = if codes.len() >= 3 { rng.range_usize(1, (codes.len() / 3).max(1)) } else { 0 };
    let mut shuffled = codes.clone();
    rng.shuffle(&mut shuffled);
    let results: Vec<u8> = shuffled[..n_results].to_vec();
    let actors: Vec<u8> = shuffled[n_results..].to_vec();

    // boundary character: a declared character, or a code that is not in the font
    let bchar: Option<u8> = if rng.chance(2, 5) {
        if !codes.is_empty() && rng.chance(2, 3) {
            Some(*rng.pick(&codes))
        } else {
            Some(rng.below(256) as u8)
        }
    } else {
        None
    };
    if let Some(b) = bchar {
        out.push_str(&format!("(BOUNDARYCHAR {})\n", chr(rng, b)));
        f.boundary_char = true;
    }

    // tags: each character gets at most one of lig label / NEXTLARGER / VARCHAR
    #[derive(Clone, Copy, PartialEq)]
    enum Role {
        Plain,
        Lig,
        List,
        Ext,
    }
    let mut role = [Role::Plain; 256];
    let has_lig = !all_ext && !actors.is_empty() && rng.chance(5, 6);
    for &c in &codes {
        role[c as usize] = match rng.below(10) {
            _ if all_ext => Role::Ext,
            0..=4 if has_lig && (f.wild_ligs || actors.contains(&c)) => Role::Lig,
            5 if codes.len() > 1 => Role::List,
            6 => Role::Ext,
            _ => Role::Plain,
        };
    }
    let recipe_pool: Vec<String> = if all_ext && !codes.is_empty() {
        (0..rng.range_usize(1, 6))
            .map(|_| {
                let mut r = String::new();
                for piece in ["TOP", "MID", "BOT"] {
                    if rng.chance(1, 2) {
                        let p = *rng.pick(&codes);
                        r.push_str(&format!("      ({piece} {})\n", chr(rng, p)));
                    }
                }
                let p = *rng.pick(&codes);
                r.push_str(&format!("      (REP {})\n", chr(rng, p)));
                r
            })
            .collect()
    } else {
        vec![]
    };

    // ---- lig table
    if has_lig {
        let mut labelled: Vec<u8> = codes.iter().copied().filter(|c| role[*c as usize] == Role::Lig).collect();
        rng.shuffle(&mut labelled);
        let target_len = match size_class % 5 {
            0 => rng.range_usize(1, 12),
            1 | 2 => rng.range_usize(5, 120),
            3 => rng.range_usize(200, 400),
            _ => rng.range_usize(256, 1400),
        };
        let rights: Vec<u8> = {
            let mut v = if f.wild_ligs { codes.clone() } else { actors.clone() };
            if let Some(b) = bchar {
                if !f.wild_ligs {
                    // the boundary char may be named even if it is not in the font
                    v.push(b);
                } else if rng.coin() {
                    v.push(b);
                }
            }
            v
        };
        let inserted: Vec<u8> = if f.wild_ligs { codes.clone() } else { results.clone() };
        out.push_str("(LIGTABLE\n");
        // labels are spread over the whole table (so that entry points beyond 255 occur): each
        // block takes labels with a probability that makes them last until the end
        let est_blocks = (target_len as f64 / 3.5).max(1.0);
        let q_num = ((labelled.len() as f64 / est_blocks) * 1000.0).clamp(30.0, 1000.0) as u64;
        let mut n = 0usize;
        let mut left_boundary_done = false;
        let mut open_chain_labels = 0usize;
        let mut pending_skip_guard = 0usize; // instructions that must still follow a SKIP
        while n < target_len || pending_skip_guard > 0 {
            // start of a block: some labels
            let mut nl = 0;
            if pending_skip_guard == 0 {
                let want = match rng.below(6) {
                    0 => 0,
                    1..=3 => 1,
                    4 => 2,
                    _ => rng.range_usize(2, 5),
                };
                // the last block takes what is left
                let last_block = n + 4 >= target_len;
                let want = if last_block { want.max(labelled.len().min(6)) } else { want };
                for _ in 0..want {
                    if !last_block && !rng.chance(q_num, 1000) {
                        continue;
                    }
                    if let Some(c) = labelled.pop() {
                        out.push_str(&format!("   (LABEL {})\n", chr(rng, c)));
                        nl += 1;
                    }
                }
                if !left_boundary_done && rng.chance(1, 12) {
                    out.push_str("   (LABEL BOUNDARYCHAR)\n");
                    left_boundary_done = true;
                    f.left_boundary_program = true;
                    nl += 1;
                }
                // a block without label after a STOP is unreachable: mostly avoid that (TFtoPL
                // reports such steps in a comment, and a comment does not survive), keep a few
                if nl == 0 && open_chain_labels == 0 && !rng.chance(1, 12) {
                    match labelled.pop() {
                        Some(c) => {
                            out.push_str(&format!("   (LABEL {})\n", chr(rng, c)));
                            nl += 1;
                        }
                        None if n > 0 => break,
                        None => {}
                    }
                }
            }
            f.labels += nl;
            open_chain_labels += nl;
            f.max_labels_per_chain = f.max_labels_per_chain.max(open_chain_labels);
            // instructions of the block
            let k = rng.range_usize(1, 6).max(pending_skip_guard);
            for j in 0..k {
                // inside the range a SKIP jumps over: usually label the step, else it is dead code
                // (inside a long skipped range only now and then, or the labels run out before
                // the table passes step 255 and no entry point above 255 is ever produced)
                if pending_skip_guard > 1 && rng.chance(if pending_skip_guard > 8 { 1 } else { 6 }, 8) {
                    if let Some(c) = labelled.pop() {
                        out.push_str(&format!("   (LABEL {})\n", chr(rng, c)));
                        f.labels += 1;
                        open_chain_labels += 1;
                    }
                }
                let r = *rng.pick(&rights);
                if !inserted.is_empty() && rng.chance(1, 2) {
                    let z = *rng.pick(&inserted);
                    out.push_str(&format!("   ({} {} {})\n", rng.pick(&LIGS), chr(rng, r), chr(rng, z)));
                } else {
                    out.push_str(&format!("   (KRN {} R {})\n", chr(rng, r), real(rng, -2, 2)));
                }
                n += 1;
                pending_skip_guard = pending_skip_guard.saturating_sub(1);
                // an occasional SKIP over the following 1..3 instructions (which we then emit)
                if j + 1 < k && rng.chance(1, 25) && pending_skip_guard == 0 {
                    // mostly 1..3; sometimes up to the field maximum of 127
                    let s = if f.big_skips == 0 && rng.chance(1, 4) {
                        *rng.pick(&[100usize, 126, 127, 127])
                    } else {
                        rng.range_usize(1, 3)
                    };
                    if s >= 100 {
                        f.big_skips += 1;
                    }
                    out.push_str(&format!("   (SKIP D {s})\n"));
                    pending_skip_guard = s + 1;
                    f.skips += 1;
                }
            }
            if pending_skip_guard > 0 {
                continue;
            }
            // end of block: STOP, or fall through into the next block (several labels per chain)
            if rng.chance(2, 3) {
                out.push_str("   (STOP)\n");
                open_chain_labels = 0;
            }
        }
        out.push_str("   )\n");
        f.lig_instructions = n;
        // characters whose label was never emitted lose their role
        for c in labelled {
            role[c as usize] = Role::Plain;
        }
    } else {
        for &c in &codes {
            if role[c as usize] == Role::Lig {
                role[c as usize] = Role::Plain;
            }
        }
    }

    // ---- character lists
    for (i, &c) in codes.iter().enumerate() {
        out.push_str(&format!("(CHARACTER {}\n", chr(rng, c)));
        let w = if !many_widths.is_empty() { &many_widths[i % many_widths.len()] } else { rng.pick(&widths) };
        out.push_str(&format!("   (CHARWD R {w})\n"));
        if !heights.is_empty() && rng.chance(2, 3) {
            out.push_str(&format!("   (CHARHT R {})\n", rng.pick(&heights)));
        }
        if !depths.is_empty() && rng.chance(1, 2) {
            out.push_str(&format!("   (CHARDP R {})\n", rng.pick(&depths)));
        }
        if !italics.is_empty() && rng.chance(1, 3) {
            out.push_str(&format!("   (CHARIC R {})\n", rng.pick(&italics)));
        }
        match role[c as usize] {
            Role::List => {
                // next larger: a strictly larger declared code keeps the chains acyclic; sometimes
                // any other code (cycles are then reported by PLtoTF and the font is skipped)
                let larger: Vec<u8> = codes.iter().copied().filter(|d| *d > c).collect();
                if !larger.is_empty() && rng.chance(9, 10) {
                    // prefer the nearest ones: long chains
                    let d = larger[rng.usize_below(larger.len().min(3))];
                    out.push_str(&format!("   (NEXTLARGER {})\n", chr(rng, d)));
                    f.next_larger += 1;
                } else if rng.chance(1, 3) {
                    let d = *rng.pick(&codes);
                    out.push_str(&format!("   (NEXTLARGER {})\n", chr(rng, d)));
                    f.next_larger += 1;
                }
            }
            Role::Ext if !recipe_pool.is_empty() => {
                out.push_str("   (VARCHAR\n");
                out.push_str(rng.pick(&recipe_pool[..]).as_str());
                out.push_str("      )\n");
                f.varchar += 1;
            }
            Role::Ext => {
                out.push_str("   (VARCHAR\n");
                for piece in ["TOP", "MID", "BOT"] {
                    if rng.chance(1, 2) {
                        let p = *rng.pick(&codes);
                        out.push_str(&format!("      ({piece} {})\n", chr(rng, p)));
                    }
                }
                if rng.chance(9, 10) {
                    let p = *rng.pick(&codes);
                    out.push_str(&format!("      (REP {})\n", chr(rng, p)));
                }
                out.push_str("      )\n");
                f.varchar += 1;
            }
            _ => {}
        }
        out.push_str("   )\n");
    }
    (out, f)
}
