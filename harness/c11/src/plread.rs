//! A minimal reader of *canonical* property lists (the output format of Knuth's TFtoPL), used only
//! for calibration: the recorded `.plst` goldens in the corpus are Knuth's own description of the
//! `.tfm` next to them, so our independent TFM reader (`rawfont`) must extract exactly the values
//! they state. Numbers are converted with our transcription of PLtoTF §59-§66.

#[derive(Clone, Debug)]
pub enum Item {
    Word(String),
    List(Vec<Item>),
}

pub fn parse(s: &str) -> Vec<Item> {
    let mut stack: Vec<Vec<Item>> = vec![vec![]];
    let mut word = String::new();
    for c in s.chars() {
        let flush = |stack: &mut Vec<Vec<Item>>, word: &mut String| {
            if !word.is_empty() {
                stack.last_mut().unwrap().push(Item::Word(std::mem::take(word)));
            }
        };
        match c {
            '(' => {
                flush(&mut stack, &mut word);
                stack.push(vec![]);
            }
            ')' => {
                flush(&mut stack, &mut word);
                if stack.len() > 1 {
                    let l = stack.pop().unwrap();
                    stack.last_mut().unwrap().push(Item::List(l));
                }
            }
            c if c.is_whitespace() => flush(&mut stack, &mut word),
            c => word.push(c),
        }
    }
    while stack.len() > 1 {
        let l = stack.pop().unwrap();
        stack.last_mut().unwrap().push(Item::List(l));
    }
    stack.pop().unwrap()
}

pub fn words(l: &[Item]) -> Vec<&str> {
    l.iter()
        .filter_map(|i| match i {
            Item::Word(w) => Some(w.as_str()),
            _ => None,
        })
        .collect()
}

pub fn lists(l: &[Item]) -> Vec<&Vec<Item>> {
    l.iter()
        .filter_map(|i| match i {
            Item::List(v) => Some(v),
            _ => None,
        })
        .collect()
}

/// PLtoTF §51-§55: a one-byte value `C x | D n | O n | H n` (F codes not needed here).
/// Returns the value and the number of words consumed.
pub fn byte_value(w: &[&str]) -> Option<(u8, usize)> {
    let r = w.first()?;
    let v = w.get(1)?;
    let n = match *r {
        "C" => {
            let mut it = v.chars();
            let c = it.next()?;
            if it.next().is_some() || !c.is_ascii() {
                return None;
            }
            c as u32
        }
        "D" => v.parse::<u32>().ok()?,
        "O" => u32::from_str_radix(v, 8).ok()?,
        "H" => u32::from_str_radix(v, 16).ok()?,
        _ => return None,
    };
    if n > 255 {
        return None;
    }
    Some((n as u8, 2))
}

/// PLtoTF §62-§66 `get_fix`: `R` or `D`, optional signs, integer part, up to 7 fractional digits
/// accumulated as `acc := (acc div 10) + 2^21 * d` from the last digit to the first, then
/// `(acc + 10) div 20`; the result is `int * 2^20 + acc`, negated if an odd number of `-`.
pub fn fix_value(w: &[&str]) -> Option<i32> {
    let r = w.first()?;
    if *r != "R" && *r != "D" {
        return None;
    }
    let v = w.get(1)?;
    let mut neg = false;
    let mut rest = *v;
    loop {
        if let Some(x) = rest.strip_prefix('-') {
            neg = !neg;
            rest = x;
        } else if let Some(x) = rest.strip_prefix('+') {
            rest = x;
        } else {
            break;
        }
    }
    let (ip, fp) = match rest.split_once('.') {
        Some((a, b)) => (a, b),
        None => (rest, ""),
    };
    let mut int: i64 = 0;
    for c in ip.chars() {
        int = int * 10 + c.to_digit(10)? as i64;
        if int >= 2048 {
            return None;
        }
    }
    let digits: Vec<i64> = fp.chars().take(7).map(|c| c.to_digit(10).map(|d| d as i64)).collect::<Option<_>>()?;
    let mut acc: i64 = 0;
    for d in digits.iter().rev() {
        acc = acc / 10 + (1 << 21) * d;
    }
    acc = (acc + 10) / 20;
    let m = int * (1 << 20) + acc;
    let m = if neg { -m } else { m };
    i32::try_from(m).ok()
}

/// 32-bit value `O n | H n` (PLtoTF §59-§60).
pub fn u32_value(w: &[&str]) -> Option<u32> {
    match *w.first()? {
        "O" => u32::from_str_radix(w.get(1)?, 8).ok(),
        "H" => u32::from_str_radix(w.get(1)?, 16).ok(),
        _ => None,
    }
}

#[cfg(test)]
mod tests {
    use super::*;
    #[test]
    fn fix() {
        assert_eq!(fix_value(&["R", "1.0"]), Some(1 << 20));
        assert_eq!(fix_value(&["R", "-0.5"]), Some(-(1 << 19)));
        assert_eq!(fix_value(&["R", "0.000001"]), Some(1));
    }
}
