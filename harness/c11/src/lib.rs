//! Monitor for property C11 (see /verif/DESIGN.md §6): TFM<->PL conversion is an idempotent,
//! font-preserving normalisation for warning-free fonts.
//!
//! For a warning-free b0 the real code is run as  b0 -> PL1 -> b1 -> PL2 -> b2  and observed:
//!   * no warning after the first step, b2 == b1 byte for byte, PL2 == PL1 (see `pl_equal`);
//!   * File(b0) ~ File(b1) through the crate's public accessors (values through the index tables,
//!     tags, recipes, parameters, header);
//!   * the same through our own TFM reader (`rawfont`, calibrated against Knuth's recorded
//!     TFtoPL outputs in the corpus), including the lig/kern program as the map
//!     (left, right) -> first matching instruction for every left character and the boundary;
//!   * `CompiledProgram::compile_from_tfm_file(..).run(word)` gives identical results for both
//!     fonts on every single character, every ordered pair of the characters involved (with and
//!     without the left boundary) and sampled triples.

pub mod corpus;
pub mod gen;
pub mod plread;
pub mod rawfont;

use corpus::corpus;
use rawfont::RawFont;
use std::collections::{BTreeMap, BTreeSet};
use tfm::ligkern::{CompiledProgram, RunItem, RunOptions};
use vcore::*;

pub struct M;
pub static MONITOR: M = M;

fn hex(b: &[u8]) -> String {
    let mut s = String::with_capacity(b.len() * 2);
    for x in b {
        s.push_str(&format!("{x:02x}"));
    }
    s
}

fn clip(t: &str, n: usize) -> String {
    if t.len() <= n {
        return t.to_string();
    }
    let mut k = n;
    while !t.is_char_boundary(k) {
        k -= 1;
    }
    format!("{}... [{} bytes]", &t[..k], t.len())
}

fn variant_name<T: std::fmt::Debug>(t: &T) -> String {
    let s = format!("{t:?}");
    s.split(|c: char| !(c.is_alphanumeric() || c == '_'))
        .next()
        .unwrap_or("")
        .to_string()
}

fn display_format(k: u64) -> tfm::pl::CharDisplayFormat {
    match k % 3 {
        0 => tfm::pl::CharDisplayFormat::Default,
        1 => tfm::pl::CharDisplayFormat::Ascii,
        _ => tfm::pl::CharDisplayFormat::Octal,
    }
}

// ------------------------------------------------------------------------------------------
// the view of a font through the crate's public accessors

#[derive(Debug, PartialEq, Eq, Clone)]
enum TagView {
    None,
    Lig,
    List(u8),
    Ext(Option<(Option<u8>, Option<u8>, Option<u8>, u8)>),
}

#[derive(Debug, PartialEq, Eq, Clone)]
struct CharView {
    wd: Option<i32>,
    ht: Option<i32>,
    dp: Option<i32>,
    ic: Option<i32>,
    tag: TagView,
}

fn file_view(f: &tfm::File) -> BTreeMap<u8, CharView> {
    let mut m = BTreeMap::new();
    for (c, d) in &f.char_dimens {
        let tag = match f.char_tags.get(c) {
            None => TagView::None,
            Some(tfm::CharTag::Ligature(_)) => TagView::Lig,
            Some(tfm::CharTag::List(n)) => TagView::List(n.0),
            Some(tfm::CharTag::Extension(i)) => TagView::Ext(
                f.extensible_chars
                    .get(*i as usize)
                    .map(|r| (r.top.map(|c| c.0), r.middle.map(|c| c.0), r.bottom.map(|c| c.0), r.rep.0)),
            ),
        };
        m.insert(
            c.0,
            CharView {
                wd: f.widths.get(d.width_index.get() as usize).map(|v| v.0),
                ht: f.heights.get(d.height_index as usize).map(|v| v.0),
                dp: f.depths.get(d.depth_index as usize).map(|v| v.0),
                ic: f.italic_corrections.get(d.italic_index as usize).map(|v| v.0),
                tag,
            },
        );
    }
    m
}

fn file_diff(a: &tfm::File, b: &tfm::File) -> Vec<(String, String)> {
    let mut d = vec![];
    let (va, vb) = (file_view(a), file_view(b));
    let ka: Vec<u8> = va.keys().copied().collect();
    let kb: Vec<u8> = vb.keys().copied().collect();
    if ka != kb {
        d.push(("characters".to_string(), format!("{ka:?} vs {kb:?}")));
    }
    for (c, x) in &va {
        let Some(y) = vb.get(c) else { continue };
        for (name, p, q) in [("width", x.wd, y.wd), ("height", x.ht, y.ht), ("depth", x.dp, y.dp), ("italic", x.ic, y.ic)] {
            if p != q {
                d.push((name.to_string(), format!("char {c}: {p:?} vs {q:?}")));
            }
        }
        if x.tag != y.tag {
            // a lig tag may legitimately disappear when its program is empty; the behavioural
            // comparison (run) decides about lig tags
            let lig_vs_none = matches!((&x.tag, &y.tag), (TagView::Lig, TagView::None) | (TagView::None, TagView::Lig));
            if !lig_vs_none {
                d.push(("tag".to_string(), format!("char {c}: {:?} vs {:?}", x.tag, y.tag)));
            }
        }
    }
    let pa: Vec<i32> = a.params.iter().map(|v| v.0).collect();
    let pb: Vec<i32> = b.params.iter().map(|v| v.0).collect();
    if pa != pb {
        d.push(("params".to_string(), format!("{pa:?} vs {pb:?}")));
    }
    let (ha, hb) = (&a.header, &b.header);
    if ha.checksum != hb.checksum {
        d.push(("checksum".to_string(), format!("{:?} vs {:?}", ha.checksum, hb.checksum)));
    }
    if ha.design_size != hb.design_size {
        d.push(("design-size".to_string(), format!("{:?} vs {:?}", ha.design_size, hb.design_size)));
    }
    // A header of fewer than 18 words has no strings/face; PLtoTF (and this crate) then writes
    // the defaults (UNSPECIFIED, face 0) - only compare what b0 states.
    let up = |s: &Option<String>| s.as_ref().map(|s| s.to_ascii_uppercase());
    if ha.character_coding_scheme.is_some() && up(&ha.character_coding_scheme) != up(&hb.character_coding_scheme) {
        d.push(("header".to_string(), format!("coding scheme {:?} vs {:?}", ha.character_coding_scheme, hb.character_coding_scheme)));
    }
    if ha.font_family.is_some() && up(&ha.font_family) != up(&hb.font_family) {
        d.push(("header".to_string(), format!("family {:?} vs {:?}", ha.font_family, hb.font_family)));
    }
    if ha.face.is_some() && ha.face.map(u8::from) != hb.face.map(u8::from) {
        d.push(("header".to_string(), format!("face {:?} vs {:?}", ha.face, hb.face)));
    }
    if ha.additional_data != hb.additional_data {
        d.push(("header".to_string(), format!("extra words {:?} vs {:?}", ha.additional_data, hb.additional_data)));
    }
    d
}

// ------------------------------------------------------------------------------------------
// lig/kern behaviour through the crate's compiler and `run`

fn run_word(p: &CompiledProgram, w: &str, no_left_boundary: bool) -> Vec<RunItem> {
    let opts = RunOptions {
        disable_left_boundary: no_left_boundary,
        right_boundary_override: None,
    };
    p.run_with_options(w.chars(), opts).take(64).collect()
}

struct RunDiff {
    word: Vec<u8>,
    left_boundary: bool,
    b0: Vec<RunItem>,
    b1: Vec<RunItem>,
}

struct RunCmp {
    words: u64,
    first_diff: Option<String>,
    diffs: Vec<RunDiff>,
    total_diffs: u64,
    replacements: usize,
}

fn compare_runs(f0: &tfm::File, f1: &tfm::File, rng: &mut Rng, pair_cap: usize) -> Result<RunCmp, String> {
    let mut f0 = f0.clone();
    let mut f1 = f1.clone();
    let (p0, e0) = CompiledProgram::compile_from_tfm_file(&mut f0);
    let (p1, e1) = CompiledProgram::compile_from_tfm_file(&mut f1);
    if !e0.is_empty() {
        return Err(format!("b0 compiles with infinite-loop errors although TFtoPL raised no warning: {e0:?}"));
    }
    let mut r = RunCmp {
        words: 0,
        first_diff: None,
        diffs: vec![],
        total_diffs: 0,
        replacements: p0.all_pairs_with_replacements().len(),
    };
    if !e1.is_empty() {
        r.first_diff = Some(format!("b1 compiles with infinite-loop errors: {e1:?}"));
        return Ok(r);
    }
    // characters that matter: existing ones, everything named in either compiled program, the
    // right boundary character
    let mut s: BTreeSet<u8> = f0.char_dimens.keys().map(|c| c.0).collect();
    s.extend(f1.char_dimens.keys().map(|c| c.0));
    let mut keys: BTreeSet<(Option<u8>, u8)> = BTreeSet::new();
    for p in [&p0, &p1] {
        for (l, rc) in p.all_pairs_with_replacements() {
            keys.insert((l.map(|c| c.0), rc.0));
            if let Some(l) = l {
                s.insert(l.0);
            }
            s.insert(rc.0);
        }
    }
    if let Some(b) = f0.lig_kern_program.right_boundary_char {
        s.insert(b.0);
    }
    if let Some(b) = f1.lig_kern_program.right_boundary_char {
        s.insert(b.0);
    }
    let sv: Vec<u8> = s.iter().copied().collect();
    let check = |w: &str, r: &mut RunCmp| {
        for nlb in [false, true] {
            r.words += 1;
            let a = run_word(&p0, w, nlb);
            let b = run_word(&p1, w, nlb);
            if a != b {
                r.total_diffs += 1;
                if r.first_diff.is_none() {
                    r.first_diff = Some(format!(
                        "word {:?} (left boundary {}): b0 gives {:?}, b1 gives {:?}",
                        w.chars().map(|c| c as u32).collect::<Vec<_>>(),
                        if nlb { "off" } else { "on" },
                        a,
                        b
                    ));
                }
                if r.diffs.len() < 20_000 {
                    r.diffs.push(RunDiff {
                        word: w.chars().map(|c| c as u32 as u8).collect(),
                        left_boundary: !nlb,
                        b0: a,
                        b1: b,
                    });
                }
            }
        }
    };
    let ch = |c: u8| c as char;
    // every single character: (boundary, c) and (c, boundary)
    for c in 0..=255u8 {
        check(&ch(c).to_string(), &mut r);
    }
    // every ordered pair of the characters that matter, or (if too many) every pair that has a
    // replacement in either program plus a sample
    if sv.len() * sv.len() <= pair_cap {
        for &a in &sv {
            for &b in &sv {
                check(&[ch(a), ch(b)].iter().collect::<String>(), &mut r);
            }
        }
    } else {
        for (l, rc) in &keys {
            if let Some(l) = l {
                check(&[ch(*l), ch(*rc)].iter().collect::<String>(), &mut r);
            }
        }
        for _ in 0..pair_cap.saturating_sub(keys.len()).min(pair_cap / 2) {
            let a = *rng.pick(&sv);
            let b = *rng.pick(&sv);
            check(&[ch(a), ch(b)].iter().collect::<String>(), &mut r);
        }
    }
    // sampled triples and longer words over the characters named in the programs
    let named: Vec<u8> = {
        let mut n: BTreeSet<u8> = BTreeSet::new();
        for (l, rc) in &keys {
            if let Some(l) = l {
                n.insert(*l);
            }
            n.insert(*rc);
        }
        n.into_iter().collect()
    };
    if !named.is_empty() {
        for _ in 0..(pair_cap / 16).clamp(16, 400) {
            let len = rng.range_usize(3, 6);
            let w: String = (0..len).map(|_| ch(*rng.pick(&named))).collect();
            check(&w, &mut r);
        }
    }
    Ok(r)
}

// ------------------------------------------------------------------------------------------
// PL comparison

/// PL2 must equal PL1, except for what TFtoPL itself reports about parts of b0 that cannot
/// survive: the `(COMMENT THIS PART OF THE PROGRAM IS NEVER USED! ...)` lists of unreachable
/// lig/kern instructions (not a warning in TFtoPL; PLtoTF cannot keep what is inside a comment).
fn strip_never_used(pl: &str) -> (String, usize) {
    let mut out = String::with_capacity(pl.len());
    let mut n = 0;
    let mut rest = pl;
    while let Some(pos) = rest.find("(COMMENT THIS PART OF THE PROGRAM IS NEVER USED!") {
        // cut the whole line indentation + the balanced list + trailing newline
        let line_start = rest[..pos].rfind('\n').map(|p| p + 1).unwrap_or(0);
        out.push_str(&rest[..line_start]);
        let mut depth = 0i32;
        let mut end = rest.len();
        for (i, c) in rest[pos..].char_indices() {
            match c {
                '(' => depth += 1,
                ')' => {
                    depth -= 1;
                    if depth == 0 {
                        end = pos + i + 1;
                        break;
                    }
                }
                _ => {}
            }
        }
        let after = &rest[end..];
        rest = after.strip_prefix('\n').unwrap_or(after);
        n += 1;
    }
    out.push_str(rest);
    if n > 0 {
        // a LIGTABLE that consisted of nothing else is not printed for b1 (no instructions left)
        out = out.replace("(LIGTABLE\n   )\n", "");
        // a SKIP over nothing but unreachable steps is printed as (SKIP D 0) - a no-op that b1,
        // which no longer has those steps, does not need
        out = out.replace("   (SKIP D 0)\n", "");
    }
    (out, n)
}

/// The differences between PL1 and PL2 that are part of the normalisation itself (all of them
/// are what Knuth's TFtoPL/PLtoTF do as well) are removed from both texts; everything else -
/// every character list, the lig table, parameters, header - must then be textually identical.
///  * `(SEVENBITSAFEFLAG TRUE)`: PLtoTF recomputes the flag (PLtoTF §133), b0 may understate it;
///  * if b0's header has fewer than the 18 standard words, PLtoTF fills in its defaults
///    (PLtoTF §70): `(FAMILY UNSPECIFIED)`, `(FACE F MRR)`, `(CODINGSCHEME UNSPECIFIED)`;
///  * `(CHARHT R 0.0)`, `(CHARDP R 0.0)`, `(CHARIC R 0.0)`: b0 may reach the value zero through a
///    non-zero index (a second zero in the table), which TFtoPL prints; b1 uses index 0, for which
///    TFtoPL prints nothing (TFtoPL §80-§82). Same value;
///  * if PL1 reported unreachable lig/kern steps: an empty `(LIGTABLE )` on either side (b1 keeps
///    one word to carry a boundary character) - the comment itself and `(SKIP D 0)` are removed
///    from PL1 by `strip_never_used`.
fn pl_normal_form(pl: &str, had_never_used: bool, short_header: bool) -> String {
    let mut out = String::with_capacity(pl.len());
    for line in pl.split_inclusive('\n') {
        let t = line.trim_end_matches('\n');
        if t == "(SEVENBITSAFEFLAG TRUE)" {
            continue;
        }
        if t == "   (CHARHT R 0.0)" || t == "   (CHARDP R 0.0)" || t == "   (CHARIC R 0.0)" {
            continue;
        }
        if short_header && (t == "(FAMILY UNSPECIFIED)" || t == "(FACE F MRR)" || t == "(CODINGSCHEME UNSPECIFIED)") {
            continue;
        }
        out.push_str(line);
    }
    if had_never_used {
        out = out.replace("(LIGTABLE\n   )\n", "");
    }
    out
}

// ------------------------------------------------------------------------------------------
// the chain

struct ChainStats {
    b0_len: usize,
    b1_equals_b0: bool,
    never_used_comments: usize,
    run_words: u64,
    replacements: usize,
}

enum ChainResult {
    /// b0 is outside the quantifier (not warning-free)
    Skipped(String),
    /// a violation or panic was reported
    Reported,
    Held(ChainStats),
}

fn chain(obs: &mut Obs, rng: &mut Rng, b0: &[u8], fmt_k: u64, how: &dyn Fn() -> Value) -> ChainResult {
    let fmt = display_format(fmt_k);
    let witness = |extra: Value| -> Value {
        json!({"b0": if b0.len() <= 2048 { json!(hex(b0)) } else { json!(format!("{} bytes", b0.len())) },
               "derived": how(), "display_format": format!("{fmt:?}"), "observed": extra})
    };
    macro_rules! guarded {
        ($what:expr, $e:expr) => {
            match catch(|| $e) {
                Ok(v) => v,
                Err(p) => {
                    obs.repo_panic(&p, witness(json!({"step": $what})));
                    return ChainResult::Reported;
                }
            }
        };
    }
    // step one: b0 -> PL1, must be warning-free (else outside the quantifier)
    let o1 = guarded!("b0->PL1", tfm::algorithms::tfm_to_pl(b0, 3, &|_| fmt));
    let o1 = match o1 {
        Ok(o) => o,
        Err(_) => return ChainResult::Skipped("b0-fmt-error".into()),
    };
    let pl1 = match o1.pl_data {
        Ok(s) => s,
        Err(e) => return ChainResult::Skipped(format!("b0-rejected-by-reader:{}", variant_name(&e))),
    };
    if !o1.error_messages.is_empty() {
        let kind = match &o1.error_messages[0] {
            tfm::algorithms::TfmToPlErrorMessage::DeserializationWarning(w) => variant_name(w),
            tfm::algorithms::TfmToPlErrorMessage::ValidationWarning(tfm::ValidationWarning::LigKernWarning(w)) => {
                format!("LigKern-{}", variant_name(w))
            }
            tfm::algorithms::TfmToPlErrorMessage::ValidationWarning(w) => variant_name(w),
        };
        return ChainResult::Skipped(format!("b0-has-warnings:{kind}"));
    }
    // PL1 -> b1
    let (b1, w1) = guarded!("PL1->b1", tfm::algorithms::pl_to_tfm(&pl1));
    if !w1.is_empty() {
        // Known finding C11-more-than-254-parameters. Trigger (own reader): b0 has more than 254
        // parameters. Deviation model: PLtoTF's table limit (max_param_words = 254, PLtoTF §93)
        // is reproduced, so exactly the PARAMETER properties numbered >= 255 draw warnings
        // (255: "index is too big"; >= 256: small integer too big + index zero).
        let np = RawFont::parse(b0).map(|r| r.param.len()).unwrap_or(0);
        if np > 254 {
            let kinds: Vec<String> = w1.iter().map(|w| variant_name(&w.kind)).collect();
            let expected = |k: &String| k == "ParameterNumberIsTooBig" || k == "SmallIntegerIsTooBig" || k == "ParameterNumberIsZero";
            let n255 = kinds.iter().filter(|k| *k == "ParameterNumberIsTooBig").count();
            let nbig = kinds.iter().filter(|k| *k == "SmallIntegerIsTooBig").count();
            let nzero = kinds.iter().filter(|k| *k == "ParameterNumberIsZero").count();
            if kinds.iter().all(expected) && n255 == 1 && nbig == np - 255 && nzero == np - 255 {
                obs.known(
                    "C11-more-than-254-parameters",
                    witness(json!({"np": np, "warnings": kinds.len()})),
                );
                return ChainResult::Reported;
            }
        }
        // Known finding C11-seven-bit-safety-analysis-simplified. Trigger: b0 carries the seven-bit-safe flag and the only
        // warning is NotReallySevenBitSafe. Deviation model (own reader): PLtoTF's analysis (first step per right-hand
        // character wins, boundary character, left-boundary program) says safe, the simplified analysis says unsafe.
        if w1.len() == 1 && variant_name(&w1[0].kind) == "NotReallySevenBitSafe" {
            // A font that carries the flag but is NOT seven-bit safe (own judgement) draws this warning from PLtoTF too:
            // TFtoPL does not look at the flag, PLtoTF does - such a font is outside the quantifier ("warning-free" has to
            // hold for the whole trip). Only a font that IS safe must keep the flag without a warning.
            if let Ok(r) = RawFont::parse(b0) {
                if r.header.len() >= 18 && r.header[17][0] >= 128 && r.seven_bit_safe_by(true) != Some(true) {
                    return ChainResult::Skipped("b0-flagged-seven-bit-safe-but-is-not(own-judgement)".into());
                }
            }
            if let Ok(r) = RawFont::parse(b0) {
                if r.header.len() >= 18 && r.header[17][0] >= 128 && r.seven_bit_safe_by(true) == Some(true) && r.seven_bit_safe_by(false) == Some(false) {
                    obs.known("C11-seven-bit-safety-analysis-simplified", witness(json!({"pl1": clip(&pl1, 3000)})));
                    return ChainResult::Reported;
                }
            }
        }
        obs.violation(
            format!("warning-after-step-one:PL1->b1:{}", variant_name(&w1[0].kind)),
            witness(json!({"warnings": format!("{:?}", w1.iter().take(5).collect::<Vec<_>>()), "pl1": clip(&pl1, 3000)})),
        );
        return ChainResult::Reported;
    }
    // b1 -> PL2
    let o2 = guarded!("b1->PL2", tfm::algorithms::tfm_to_pl(&b1, 3, &|_| fmt));
    let o2 = match o2 {
        Ok(o) => o,
        Err(e) => {
            obs.violation("b1->PL2:fmt-error", witness(json!({"error": format!("{e:?}")})));
            return ChainResult::Reported;
        }
    };
    let pl2 = match o2.pl_data {
        Ok(s) => s,
        Err(e) => {
            obs.violation(
                format!("b1-rejected-by-reader:{}", variant_name(&e)),
                witness(json!({"error": format!("{e:?}"), "b1": hex(&b1[..b1.len().min(1024)])})),
            );
            return ChainResult::Reported;
        }
    };
    if !o2.error_messages.is_empty() {
        let msgs: Vec<String> = o2.error_messages.iter().take(5).map(|m| m.tftopl_message()).collect();
        let kind = match &o2.error_messages[0] {
            tfm::algorithms::TfmToPlErrorMessage::DeserializationWarning(w) => variant_name(w),
            tfm::algorithms::TfmToPlErrorMessage::ValidationWarning(w) => variant_name(w),
        };
        obs.violation(
            format!("warning-after-step-one:b1->PL2:{kind}"),
            witness(json!({"messages": msgs, "pl1": clip(&pl1, 3000)})),
        );
        return ChainResult::Reported;
    }
    // PL2 -> b2
    let (b2, w2) = guarded!("PL2->b2", tfm::algorithms::pl_to_tfm(&pl2));
    if !w2.is_empty() {
        obs.violation(
            format!("warning-after-step-one:PL2->b2:{}", variant_name(&w2[0].kind)),
            witness(json!({"warnings": format!("{:?}", w2.iter().take(5).collect::<Vec<_>>())})),
        );
        return ChainResult::Reported;
    }
    // fixed point
    if b2 != b1 {
        let at = b1.iter().zip(b2.iter()).position(|(x, y)| x != y).unwrap_or(b1.len().min(b2.len()));
        obs.violation(
            "not-a-fixed-point:b2!=b1",
            witness(json!({"first_difference_at_byte": at, "len_b1": b1.len(), "len_b2": b2.len(),
                           "b1_header": hex(&b1[..b1.len().min(24)]), "b2_header": hex(&b2[..b2.len().min(24)]),
                           "pl2": clip(&pl2, 2000)})),
        );
        return ChainResult::Reported;
    }
    let short_header = b0.len() >= 4 && u16::from_be_bytes([b0[2], b0[3]]) < 18;
    let (s1, never_used) = strip_never_used(&pl1);
    let (n1, n2) = (pl_normal_form(&s1, never_used > 0, short_header), pl_normal_form(&pl2, never_used > 0, short_header));
    if n1 != n2 {
        let at = n1.bytes().zip(n2.bytes()).position(|(x, y)| x != y).unwrap_or(n1.len().min(n2.len()));
        let lo = at.saturating_sub(200);
        let ctx = |s: &str| -> String {
            let mut a = lo.min(s.len());
            while !s.is_char_boundary(a) {
                a -= 1;
            }
            let mut b = (at + 200).min(s.len());
            while !s.is_char_boundary(b) {
                b -= 1;
            }
            s[a..b].to_string()
        };
        obs.violation(
            "pl2!=pl1",
            witness(json!({"first_difference_at_byte": at, "pl1_around": ctx(&n1), "pl2_around": ctx(&n2),
                           "never_used_comments_removed_from_pl1": never_used, "b0_header_shorter_than_18_words": short_header})),
        );
        return ChainResult::Reported;
    }
    if pl2 == pl1 {
        obs.count("pl2_identical_to_pl1");
    } else {
        obs.count("pl2_equal_to_pl1_modulo_stated_normalisations");
    }
    // same font, through the crate's accessors
    let f0 = guarded!("deserialize(b0)", tfm::File::deserialize(b0)).0;
    let f1 = guarded!("deserialize(b1)", tfm::File::deserialize(&b1)).0;
    let (f0, f1) = match (f0, f1) {
        (Ok(a), Ok(b)) => (a, b),
        (a, b) => {
            obs.violation(
                "reader-rejects-font-after-accepting-it",
                witness(json!({"b0": format!("{:?}", a.err()), "b1": format!("{:?}", b.err())})),
            );
            return ChainResult::Reported;
        }
    };
    let d = file_diff(&f0, &f1);
    if let Some((what, _)) = d.first() {
        obs.violation(
            format!("font-changed(accessors):{what}"),
            witness(json!({"differences": d.iter().take(8).collect::<Vec<_>>(), "pl1": clip(&pl1, 3000)})),
        );
        return ChainResult::Reported;
    }
    // same font, through our own reader
    match (RawFont::parse(b0), RawFont::parse(&b1)) {
        (Ok(r0), Ok(r1)) => {
            obs.count("own_reader_compared");
            let (s0, s1) = (r0.semantics(), r1.semantics());
            let mut d = rawfont::diff(&s0, &s1);
            if r0.header.len() < 18 {
                obs.count("b0_header_shorter_than_18_words");
                d.retain(|(w, _)| w != "header");
            }
            // Known finding C11-header-string-length-one-too-large-accepted. Trigger (own reader): the length byte of the
            // coding scheme is exactly 40 or that of the family exactly 20. Deviation: TFtoPL §52 reports "String is too
            // long" (the font is then outside the quantifier); the reader under test builds `first character + blanks`
            // of length 39 / 19, which passes its own length check, so no warning is raised and the canonical font
            // carries that string. Attributed when the header is the ONLY difference.
            if r0.header.len() >= 18 && (r0.header[2][0] == 40 || r0.header[12][0] == 20) && d.iter().all(|(w, _)| w == "header") && !d.is_empty() {
                obs.known(
                    "C11-header-string-length-one-too-large-accepted",
                    witness(json!({"coding_scheme_length_byte": r0.header[2][0], "family_length_byte": r0.header[12][0],
                                   "differences": d.iter().take(4).collect::<Vec<_>>()})),
                );
                return ChainResult::Reported;
            }
            if let Some((what, _)) = d.first() {
                obs.violation(
                    format!("font-changed(own-reader):{what}"),
                    witness(json!({"differences": d.iter().take(8).collect::<Vec<_>>(), "pl1": clip(&pl1, 3000)})),
                );
                return ChainResult::Reported;
            }
            // canonical form of the dimension tables (TFM format: sorted? no - but PLtoTF's
            // sort_in produces ascending, duplicate-free tables with a zero first entry)
            for (name, t) in [("width", &r1.width), ("height", &r1.height), ("depth", &r1.depth), ("italic", &r1.italic)] {
                let canonical = t.first() == Some(&0) && t[1..].windows(2).all(|w| w[0] < w[1]);
                if !canonical {
                    obs.violation(
                        format!("b1-not-canonical:{name}-table"),
                        witness(json!({"table": t})),
                    );
                    return ChainResult::Reported;
                }
            }
            // ... and nothing unused: PLtoTF only writes values some character (or some
            // reachable instruction) refers to, and each kern value once
            let mut used = [vec![false; r1.width.len()], vec![false; r1.height.len()], vec![false; r1.depth.len()], vec![false; r1.italic.len()]];
            let mut used_ext = vec![false; r1.exten.len()];
            for ci in &r1.char_info {
                if ci[0] == 0 {
                    continue;
                }
                for (k, i) in [(0usize, ci[0] as usize), (1, (ci[1] / 16) as usize), (2, (ci[1] % 16) as usize), (3, (ci[2] / 4) as usize)] {
                    if let Some(u) = used[k].get_mut(i) {
                        *u = true;
                    }
                }
                if ci[2] % 4 == 3 {
                    if let Some(u) = used_ext.get_mut(ci[3] as usize) {
                        *u = true;
                    }
                }
            }
            let mut used_kern = vec![false; r1.kern.len()];
            for w in &r1.lig_kern {
                if w[0] <= 128 && w[2] >= 128 {
                    if let Some(u) = used_kern.get_mut(256 * (w[2] as usize - 128) + w[3] as usize) {
                        *u = true;
                    }
                }
            }
            let mut unused: Vec<String> = vec![];
            for (k, name) in ["width", "height", "depth", "italic"].iter().enumerate() {
                if used[k].iter().skip(1).any(|u| !u) {
                    unused.push(name.to_string());
                }
            }
            if used_kern.iter().any(|u| !u) {
                unused.push("kern".into());
            }
            if used_ext.iter().any(|u| !u) {
                unused.push("exten".into());
            }
            let mut ks = r1.kern.clone();
            ks.sort_unstable();
            if ks.windows(2).any(|w| w[0] == w[1]) {
                unused.push("kern(duplicate)".into());
            }
            if let Some(first) = unused.first() {
                obs.violation(
                    format!("b1-not-canonical:unused-or-duplicate-entries:{first}"),
                    witness(json!({"tables": unused, "pl1": clip(&pl1, 3000)})),
                );
                return ChainResult::Reported;
            }
        }
        (Err(e), _) => {
            // our strict reader refuses b0 although TFtoPL accepted it without warning
            obs.count("own_reader_rejects_b0");
            if obs.verbose {
                println!("own reader rejects b0: {e}");
            }
        }
        (_, Err(e)) => {
            obs.violation("b1-rejected-by-own-reader", witness(json!({"error": e})));
            return ChainResult::Reported;
        }
    }
    // same lig/kern behaviour, through the crate's compiler
    let pair_cap = match obs.tier {
        Tier::Quick => 2500,
        Tier::Thorough => 12_000,
    };
    let rc = match catch(|| compare_runs(&f0, &f1, rng, pair_cap)) {
        Ok(Ok(rc)) => rc,
        Ok(Err(e)) => {
            obs.inconclusive(format!("lig/kern comparison impossible: {e}"));
            return ChainResult::Reported;
        }
        Err(p) => {
            obs.repo_panic(&p, witness(json!({"step": "compile/run lig-kern"})));
            return ChainResult::Reported;
        }
    };
    if let Some(dif) = &rc.first_diff {
        // Known finding C11-phantom-left-boundary-ligature. Trigger (own reader, on b1): the lig
        // table of b1 is the single instruction [255, bchar, 0, 0] that PLtoTF writes to carry the
        // boundary character when no instruction survives; TeX (§573, §1039) never executes it
        // (skip byte > 128), and our own reader found the two fonts equal. Deviation model: the
        // crate's reader takes the same word as the left-boundary entry point 0 and its compiler
        // turns that redirect into the "phantom" ligature (boundary, bchar) -> char 0, so exactly
        // the words that start with bchar after a left boundary change, and in b1 they start
        // with a ligature item for character 0.
        let single = RawFont::parse(&b1).ok().and_then(|r| {
            if r.lig_kern.len() == 1 && r.lig_kern[0][0] == 255 && r.lig_kern[0][2] == 0 && r.lig_kern[0][3] == 0 {
                Some(r.lig_kern[0][1])
            } else {
                None
            }
        });
        if let Some(bch) = single {
            let explained = rc.total_diffs as usize == rc.diffs.len()
                && rc.diffs.iter().all(|d| {
                    d.left_boundary
                        && d.word.first() == Some(&bch)
                        && matches!(d.b1.first(), Some(RunItem::Ligature(l)) if l.c == '\0' && l.includes_left_boundary)
                        && !matches!(d.b0.first(), Some(RunItem::Ligature(_)))
                });
            if explained {
                obs.known(
                    "C11-phantom-left-boundary-ligature",
                    witness(json!({"boundary_char": bch, "words_that_differ": rc.total_diffs, "first": dif, "pl1": clip(&pl1, 2000)})),
                );
                return ChainResult::Reported;
            }
        }
        obs.violation(
            "font-changed(run):ligkern",
            witness(json!({"difference": dif, "pl1": clip(&pl1, 3000)})),
        );
        return ChainResult::Reported;
    }
    ChainResult::Held(ChainStats {
        b0_len: b0.len(),
        b1_equals_b0: b1 == b0,
        never_used_comments: never_used,
        run_words: rc.words,
        replacements: rc.replacements,
    })
}

// ------------------------------------------------------------------------------------------
// semantics-preserving repacking of a font (our own writer): the normaliser must undo it

fn repack(rng: &mut Rng, r: &RawFont) -> (RawFont, Vec<&'static str>) {
    let mut f = r.clone();
    let mut log = vec![];
    // permute a dimension table (entry 0 stays) and possibly add duplicates / unused entries
    fn permute(rng: &mut Rng, t: &mut Vec<i32>, cap: usize, dup: bool) -> Vec<usize> {
        let n = t.len();
        let mut order: Vec<usize> = (1..n).collect();
        rng.shuffle(&mut order);
        let mut new_t = vec![t[0]];
        let mut map = vec![0usize; n];
        for &old in &order {
            map[old] = new_t.len();
            new_t.push(t[old]);
        }
        if dup {
            // duplicates and unused values, while the index still fits
            while new_t.len() < cap && rng.chance(2, 3) {
                let v = if n > 1 && rng.coin() { t[1 + rng.usize_below(n - 1)] } else { rng.range_i32(-(1 << 23), 1 << 23) };
                new_t.push(v);
            }
        }
        *t = new_t;
        map
    }
    let what = rng.below(6);
    if what == 0 || what == 5 {
        let dup = rng.coin();
        let map = permute(rng, &mut f.width, 256, dup);
        for ci in f.char_info.iter_mut() {
            ci[0] = map[ci[0] as usize] as u8;
        }
        log.push("widths-permuted");
    }
    if what == 1 || what == 5 {
        let dup = rng.coin();
        let mh = permute(rng, &mut f.height, 16, dup);
        let md = permute(rng, &mut f.depth, 16, dup);
        for ci in f.char_info.iter_mut() {
            ci[1] = (mh[(ci[1] / 16) as usize] * 16 + md[(ci[1] % 16) as usize]) as u8;
        }
        log.push("heights-depths-permuted");
    }
    if what == 2 || what == 5 {
        let dup = rng.coin();
        let mi = permute(rng, &mut f.italic, 64, dup);
        for ci in f.char_info.iter_mut() {
            ci[2] = (mi[(ci[2] / 4) as usize] * 4) as u8 + ci[2] % 4;
        }
        log.push("italics-permuted");
    }
    if (what == 3 || what == 5) && !f.kern.is_empty() {
        // permute the kern table (no entry is special) and add unused kerns
        let n = f.kern.len();
        let mut order: Vec<usize> = (0..n).collect();
        rng.shuffle(&mut order);
        let mut map = vec![0usize; n];
        let mut nk = vec![];
        for &old in &order {
            map[old] = nk.len();
            nk.push(f.kern[old]);
        }
        if rng.coin() {
            nk.push(rng.range_i32(-(1 << 22), 1 << 22));
        }
        f.kern = nk;
        for w in f.lig_kern.iter_mut() {
            if w[0] <= 128 && w[2] >= 128 {
                let idx = 256 * (w[2] as usize - 128) + w[3] as usize;
                if idx < n {
                    let ni = map[idx];
                    w[2] = 128 + (ni / 256) as u8;
                    w[3] = (ni % 256) as u8;
                }
            }
        }
        log.push("kerns-permuted");
    }
    // identical extensible recipes stored once: characters share a recipe (a .tfm may; PLtoTF writes one per VARCHAR)
    {
        let mut uniq: Vec<[u8; 4]> = vec![];
        let map: Vec<usize> = f
            .exten
            .iter()
            .map(|e| match uniq.iter().position(|u| u == e) {
                Some(i) => i,
                None => {
                    uniq.push(*e);
                    uniq.len() - 1
                }
            })
            .collect();
        if uniq.len() < f.exten.len() && rng.chance(2, 3) {
            for ci in f.char_info.iter_mut() {
                if ci[2] % 4 == 3 && (ci[3] as usize) < map.len() {
                    ci[3] = map[ci[3] as usize] as u8;
                }
            }
            f.exten = uniq;
            log.push("recipes-shared");
        }
    }
    if what == 4 || what == 5 {
        // unused words: an extra extensible recipe, or lower-case header strings
        if rng.coin() && f.exten.len() < 255 {
            let c = f.bc.min(255) as u8;
            if f.exists(c as u16) {
                f.exten.push([0, 0, 0, c]);
                log.push("unused-recipe");
            }
        }
        if f.header.len() >= 18 {
            let mut bytes: Vec<u8> = f.header.iter().flatten().copied().collect();
            for k in [8usize, 48] {
                let n = bytes[k] as usize;
                let cap = if k == 8 { 39 } else { 19 };
                for j in 0..n.min(cap) {
                    bytes[k + 1 + j] = bytes[k + 1 + j].to_ascii_lowercase();
                }
            }
            // junk in the padding after the strings is not part of the font either
            for k in [8usize, 48] {
                let n = bytes[k] as usize;
                let cap = if k == 8 { 39 } else { 19 };
                for j in n.min(cap)..cap {
                    bytes[k + 1 + j] = b'X';
                }
            }
            f.header = bytes.chunks(4).map(|c| [c[0], c[1], c[2], c[3]]).collect();
            log.push("header-strings-lowercase-and-padding");
        }
    }
    (f, log)
}

// ------------------------------------------------------------------------------------------
// calibration of our own TFM reader against Knuth's recorded TFtoPL outputs

const CALIBRATION_PAIRS: &[(&str, &str)] = &[
    ("computer-modern/cmr10.tfm", "computer-modern/cmr10.plst"),
    ("computer-modern/cmss8.tfm", "computer-modern/cmss8.plst"),
    ("computer-modern/cmex10.tfm", "computer-modern/cmex10.plst"),
    ("computer-modern/cminch.tfm", "computer-modern/cminch.plst"),
    ("computer-modern/cmsy7.tfm", "computer-modern/cmsy7.plst"),
    ("ctan/trip.tfm", "ctan/trip.plst"),
    ("originals/many-ligatures.tfm", "originals/many-ligatures.plst"),
    ("originals/font-dimen.tfm", "originals/font-dimen.plst"),
    ("originals/boundarychar.tfm", "originals/boundarychar.plst"),
    ("originals/boundarychar-unspecified.tfm", "originals/boundarychar-unspecified.plst"),
    ("originals/boundarychar-noentrypoint.tfm", "originals/boundarychar-noentrypoint.plst"),
    ("originals/many-entrypoints.tfm", "originals/many-entrypoints.plst"),
    ("ctan/TheanoOldStyle-Bold-tlf-t1--base.tfm", "ctan/TheanoOldStyle-Bold-tlf-t1--base.plst"),
    ("originals/orphan-lig-kerns-4.tfm", "originals/orphan-lig-kerns-5.plst"),
    ("ctan/ArevSans-BoldOblique-3.tfm", "ctan/ArevSans-BoldOblique-4.plst"),
    ("ctan/smfebsl10-1.tfm", "ctan/smfebsl10-2.plst"),
    ("ctan/smfebsl10-3.tfm", "ctan/smfebsl10-4.plst"),
    ("ctan/cprbn8t.tfm", "ctan/cprbn8t.plst"),
    ("ctan/rashii2-1.tfm", "ctan/rashii2-2.plst"),
    ("ctan/rashii2-3.tfm", "ctan/rashii2-4.plst"),
    ("ctan/6vcr8r.tfm", "ctan/6vcr8r.plst"),
    ("ctan/bxjatoucs-jis-1.tfm", "ctan/bxjatoucs-jis-2.plst"),
    ("ctan/bxjatoucs-jis-3.tfm", "ctan/bxjatoucs-jis-4.plst"),
    ("ctan/aebkri.tfm", "ctan/aebkri.plst"),
    ("ctan/mt2exa.tfm", "ctan/mt2exa.plst"),
    ("ctan/md-utree.tfm", "ctan/md-utree.plst"),
    ("ctan/txbmi.tfm", "ctan/txbmi.plst"),
    ("ctan/md-grbr7m.tfm", "ctan/md-grbr7m.plst"),
    ("ctan/xyeuat12.tfm", "ctan/xyeuat12.plst"),
];

fn lig_op_byte(name: &str) -> Option<u8> {
    Some(match name {
        "LIG" => 0,
        "LIG/" => 1,
        "LIG/>" => 5,
        "/LIG" => 2,
        "/LIG>" => 6,
        "/LIG/" => 3,
        "/LIG/>" => 7,
        "/LIG/>>" => 11,
        _ => return None,
    })
}

/// Compare our reading of `tfm` with what Knuth's TFtoPL recorded in `pl`. Returns mismatches.
fn calibrate_pair(tfm_bytes: &[u8], pl: &str) -> Result<(usize, Vec<String>), String> {
    use plread::*;
    let raw = RawFont::parse(tfm_bytes)?;
    let sem = raw.semantics();
    let items = parse(pl);
    let mut bad = vec![];
    let mut seen_chars: BTreeSet<u8> = BTreeSet::new();
    let mut checked = 0usize;
    let mut params: Vec<i32> = vec![];
    for l in lists(&items) {
        let w = words(l);
        match w.first().copied() {
            Some("CHARACTER") => {
                let Some((c, _)) = byte_value(&w[1..]) else {
                    bad.push(format!("unreadable CHARACTER head {w:?}"));
                    continue;
                };
                seen_chars.insert(c);
                let Some(cs) = sem.chars.get(&c) else {
                    bad.push(format!("PL lists character {c} which our reader says does not exist"));
                    continue;
                };
                let (mut wd, mut ht, mut dp, mut ic) = (None, 0, 0, 0);
                let mut next_larger = None;
                let mut varchar: Option<[u8; 4]> = None;
                let mut program: Option<BTreeMap<u8, rawfont::Op>> = None;
                for sub in lists(l) {
                    let sw = words(sub);
                    match sw.first().copied() {
                        Some("CHARWD") => wd = fix_value(&sw[1..]),
                        Some("CHARHT") => ht = fix_value(&sw[1..]).unwrap_or(i32::MIN),
                        Some("CHARDP") => dp = fix_value(&sw[1..]).unwrap_or(i32::MIN),
                        Some("CHARIC") => ic = fix_value(&sw[1..]).unwrap_or(i32::MIN),
                        Some("NEXTLARGER") => next_larger = byte_value(&sw[1..]).map(|v| v.0),
                        Some("VARCHAR") => {
                            let mut r = [0u8; 4];
                            for piece in lists(sub) {
                                let pw = words(piece);
                                let v = byte_value(&pw[1..]).map(|v| v.0).unwrap_or(0);
                                match pw.first().copied() {
                                    Some("TOP") => r[0] = v,
                                    Some("MID") => r[1] = v,
                                    Some("BOT") => r[2] = v,
                                    Some("REP") => r[3] = v,
                                    _ => {}
                                }
                            }
                            varchar = Some(r);
                        }
                        Some("COMMENT") => {
                            // the character's lig/kern program, instruction by instruction
                            let mut m = BTreeMap::new();
                            for ins in lists(sub) {
                                let iw = words(ins);
                                let Some(name) = iw.first().copied() else { continue };
                                if name == "KRN" {
                                    if let (Some((r, n)), true) = (byte_value(&iw[1..]), iw.len() >= 5) {
                                        if let Some(v) = fix_value(&iw[1 + n..]) {
                                            m.entry(r).or_insert(rawfont::Op::Kern(v));
                                        }
                                    }
                                } else if let Some(op) = lig_op_byte(name) {
                                    if let Some((r, n)) = byte_value(&iw[1..]) {
                                        if let Some((z, _)) = byte_value(&iw[1 + n..]) {
                                            m.entry(r).or_insert(rawfont::Op::Lig(op, z));
                                        }
                                    }
                                }
                            }
                            program = Some(m);
                        }
                        _ => {}
                    }
                }
                checked += 1;
                if wd.is_none() || cs.wd != wd {
                    bad.push(format!("char {c}: width {:?}, PL says {:?}", cs.wd, wd));
                }
                if cs.ht != Some(ht) {
                    bad.push(format!("char {c}: height {:?}, PL says {ht}", cs.ht));
                }
                if cs.dp != Some(dp) {
                    bad.push(format!("char {c}: depth {:?}, PL says {dp}", cs.dp));
                }
                if cs.ic != Some(ic) {
                    bad.push(format!("char {c}: italic {:?}, PL says {ic}", cs.ic));
                }
                match (&cs.tag, next_larger, varchar, program) {
                    (rawfont::Tag::None, None, None, None) => {}
                    (rawfont::Tag::List(n), Some(m), None, None) if *n == m => {}
                    (rawfont::Tag::Ext(Some(r)), None, Some(v), None) => {
                        // TFtoPL prints REP as the character itself when the recipe's rep does not
                        // exist (TFtoPL §87); the corpus fonts used here are clean
                        if *r != v {
                            bad.push(format!("char {c}: recipe {r:?}, PL says {v:?}"));
                        }
                    }
                    (rawfont::Tag::Lig(p), None, None, Some(q)) => {
                        if *p != q {
                            bad.push(format!("char {c}: lig/kern pair map differs from the COMMENT in the PL: ours {p:?}, PL {q:?}"));
                        }
                    }
                    (t, n, v, p) => bad.push(format!("char {c}: tag {t:?}, PL says nextlarger={n:?} varchar={v:?} program={}", p.is_some())),
                }
            }
            Some("FONTDIMEN") => {
                for sub in lists(l) {
                    let sw = words(sub);
                    if sw.first().copied() == Some("COMMENT") {
                        continue;
                    }
                    // named or PARAMETER D n R v: the value is always the last two words
                    if sw.len() >= 3 {
                        if let Some(v) = fix_value(&sw[sw.len() - 2..]) {
                            params.push(v);
                        }
                    }
                }
            }
            Some("CHECKSUM") => {
                if u32_value(&w[1..]) != Some(u32::from_be_bytes(sem.checksum)) {
                    bad.push(format!("checksum {:?}, PL says {w:?}", sem.checksum));
                }
            }
            Some("DESIGNSIZE") => {
                if fix_value(&w[1..]) != Some(i32::from_be_bytes(sem.design_size)) {
                    bad.push(format!("design size {:?}, PL says {w:?}", sem.design_size));
                }
            }
            Some("BOUNDARYCHAR") => {
                if byte_value(&w[1..]).map(|v| v.0) != sem.bchar {
                    bad.push(format!("boundary char {:?}, PL says {w:?}", sem.bchar));
                }
            }
            _ => {}
        }
    }
    let ours: BTreeSet<u8> = sem.chars.keys().copied().collect();
    if ours != seen_chars {
        bad.push(format!("characters: ours {ours:?}, PL {seen_chars:?}"));
    }
    if params != sem.params {
        bad.push(format!("params: ours {:?}, PL {:?}", sem.params, params));
    }
    Ok((checked, bad))
}

// ------------------------------------------------------------------------------------------

// ------------------------------------------------------------------------------------------
// coverage-guided stage
// ------------------------------------------------------------------------------------------

/// Entry point of the libFuzzer target `c11_pl_font` (harness/vfuzz). Byte 0 selects the character display format and
/// whether the rest is a property list (b0 = pl_to_tfm(text), which must be warning-free, as in the `gen` phase) or a
/// .tfm file taken as b0 directly (high bit). b0 then goes through `chain`, the oracle of all generated phases: a
/// warning-free b0 must come back from TFM -> PL -> TFM as the same font (our own reader of the raw bytes and the crate's),
/// the canonical bytes must be a fixed point, the property lists must agree, and lig/kern runs must be identical.
pub fn fuzz_one(data: &[u8], obs: &mut Obs) {
    let Some((sel, rest)) = data.split_first() else {
        return;
    };
    let mut rng = Rng::new(vcore::stable_hash(rest));
    let b0: Vec<u8> = if sel & 0x80 != 0 {
        rest.to_vec()
    } else {
        let Ok(text) = std::str::from_utf8(rest) else {
            return;
        };
        match catch(|| tfm::algorithms::pl_to_tfm(text)) {
            Ok((b, w)) if w.is_empty() => b,
            Ok(_) => {
                obs.skip("fuzz:pl-has-warnings");
                return;
            }
            Err(_) => {
                // a panic while *making* b0 is C10's subject
                obs.skip("fuzz:making-b0-panics");
                return;
            }
        }
    };
    let how = || json!({"fuzz": "b0 from the fuzzer's input"});
    let r = chain(obs, &mut rng, &b0, (*sel & 3) as u64, &how);
    report(obs, "fuzz", r, &how);
}

/// Seed corpus (generated fonts of every size class as property lists, small corpus fonts as bytes) and dictionary.
pub fn fuzz_seeds() -> vcore::fuzzglue::Seeds {
    let mut inputs = vec![];
    for k in 0..120u64 {
        let mut rng = Rng::new(0xC11 + k);
        let (text, _) = gen::gen_font(&mut rng, k);
        if text.len() <= 6000 {
            let mut v = vec![(k % 3) as u8];
            v.extend_from_slice(text.as_bytes());
            inputs.push(v);
        }
    }
    for (_, b) in corpus().tfm.iter().filter(|(_, b)| b.len() <= 3000).take(40) {
        let mut v = vec![0x80u8];
        v.extend_from_slice(b);
        inputs.push(v);
    }
    let dictionary = [
        "(CHARACTER C ", "(CHARWD R ", "(CHARHT R ", "(CHARDP R ", "(CHARIC R ", "(NEXTLARGER C ", "(VARCHAR", "(TOP C ", "(MID C ", "(BOT C ", "(REP C ",
        "(LIGTABLE", "(LABEL C ", "(LABEL BOUNDARYCHAR)", "(LIG C ", "(/LIG C ", "(LIG/ C ", "(/LIG/ C ", "(/LIG> C ", "(LIG/> C ", "(/LIG/> C ", "(/LIG/>> C ",
        "(KRN C ", "(STOP)", "(SKIP D ", "(BOUNDARYCHAR C ", "(FONTDIMEN", "(PARAMETER D ", "(SLANT R ", "(DESIGNSIZE R ", "(CHECKSUM O ", "(FACE F ",
        "(CODINGSCHEME ", "(FAMILY ", "(HEADER D ", "(SEVENBITSAFEFLAG TRUE)", " R 0.5)", " O 101)", " D 255)", ")", "\n",
    ]
    .iter()
    .map(|s| s.to_string())
    .collect();
    vcore::fuzzglue::Seeds { inputs, dictionary }
}

fn report(obs: &mut Obs, class: &str, r: ChainResult, sample: &dyn Fn() -> Value) {
    match r {
        ChainResult::Skipped(why) => obs.skip(&format!("{class}:{why}")),
        ChainResult::Reported => obs.count(&format!("{class}:reported")),
        ChainResult::Held(s) => {
            obs.count(&format!("{class}:held"));
            obs.count("chains_held");
            obs.add("run_words_compared", s.run_words);
            if s.b1_equals_b0 {
                obs.count("b0_already_canonical");
            } else {
                obs.count("b0_not_canonical(normalisation_changed_bytes)");
            }
            if s.never_used_comments > 0 {
                obs.count("pl1_had_never_used_comments");
            }
            if s.replacements > 0 {
                obs.count("fonts_with_ligkern_replacements");
            }
            if obs.wants_sample() {
                let mut v = sample();
                if let Value::Object(m) = &mut v {
                    m.insert("b0_len".into(), json!(s.b0_len));
                    m.insert("b1_equals_b0".into(), json!(s.b1_equals_b0));
                    m.insert("words_run".into(), json!(s.run_words));
                    m.insert("pairs_with_replacement".into(), json!(s.replacements));
                }
                obs.sample(v);
            }
        }
    }
}

impl Monitor for M {
    fn id(&self) -> &'static str {
        "C11"
    }

    fn rule(&self) -> String {
        "b0 ranges over (corpus-tfm) every corpus .tfm, (corpus-pl) pl_to_tfm of every corpus property list, (gen) \
         pl_to_tfm of generated property lists (0..256 characters, <=15/15/63 distinct non-zero heights/depths/italics, \
         lig tables of 1..1400 steps with several labels per chain, SKIPs, entry points above 255, boundary \
         characters and boundary programs, NEXTLARGER chains, VARCHAR recipes, 0..30 parameters, extra header words), \
         (repack) the same fonts re-packed by our own writer without changing their meaning (permuted/duplicated \
         dimension and kern tables, unused entries, lower-case header strings, junk in string padding), each in one of the \
         three character display formats. Fonts for which the first TFM->PL step (or, for generated lists, the PL->TFM \
         step that makes b0) raises a warning are skipped and counted. A case is non-trivial when the whole chain ran; \
         distinct = hash of b0 and the display format."
            .into()
    }

    fn assumptions(&self) -> Vec<String> {
        vec![
            "warning-free = tfm_to_pl(b0) returns a property list and an empty error_messages".into(),
            "PL2 == PL1 is required after removing from PL1 the `(COMMENT THIS PART OF THE PROGRAM IS NEVER USED! ..)` lists: TFtoPL reports unreachable lig/kern steps as a comment without a warning and a comment cannot survive PLtoTF (Knuth's programs behave the same)".into(),
            "header: the two strings are compared upper-cased (TFtoPL §52 upper-cases them without a warning); the seven-bit-safe flag is not compared (PLtoTF §133 recomputes it); strings/face are compared only if b0's header has the 18 standard words (otherwise PLtoTF writes its defaults)".into(),
            "a lig tag whose program has no instruction is the same as no tag; the right boundary character is compared only if some reachable instruction names it".into(),
            "lig/kern `run` is compared on all 256 one-letter words, all ordered pairs over the characters that exist or are named in either program (if more than the tier's cap: all pairs with a replacement + a sample), and sampled words of 3..6 letters, each with and without the left boundary; the own-reader pair map covers every (left, right) pair exactly".into(),
            "lossy compression (more than 15/15/63/255 distinct values) is excluded by construction of the generated fonts (C17's subject)".into(),
        ]
    }

    fn phases(&self, tier: Tier) -> Vec<Phase> {
        let c = corpus();
        vec![
            Phase::new("corpus-tfm", c.tfm.len().max(1) as u64 * 3).batch(2),
            Phase::new("corpus-pl", c.pl.len().max(1) as u64 * 3).batch(2),
            Phase::new("gen", tier.pick(10_000, 300_000)).batch(8),
            Phase::new("repack", tier.pick(6_000, 150_000)).batch(8),
        ]
    }

    fn floors(&self, tier: Tier) -> Vec<(&'static str, u64)> {
        let q = tier == Tier::Quick;
        vec![
            ("chains_held", if q { 10_000 } else { 250_000 }),
            ("corpus-tfm:held", 90),
            ("corpus-pl:held", 60),
            ("gen:held", if q { 6_000 } else { 150_000 }),
            ("repack:held", if q { 3_500 } else { 75_000 }),
            ("repack:recipes-shared", if q { 40 } else { 1_000 }),
            ("own_reader_compared", if q { 10_000 } else { 250_000 }),
            ("b0_not_canonical(normalisation_changed_bytes)", if q { 3_000 } else { 60_000 }),
            ("fonts_with_ligkern_replacements", if q { 4_000 } else { 100_000 }),
            ("run_words_compared", if q { 10_000_000 } else { 200_000_000 }),
            ("feature:entrypoint_above_255", if q { 100 } else { 10_000 }),
            ("feature:several_labels_per_chain", if q { 300 } else { 30_000 }),
            ("feature:boundary_char", if q { 300 } else { 30_000 }),
            ("feature:left_boundary_program", if q { 100 } else { 10_000 }),
            ("feature:next_larger", if q { 300 } else { 30_000 }),
            ("feature:varchar", if q { 300 } else { 30_000 }),
            ("feature:256_chars", if q { 50 } else { 5_000 }),
            ("feature:no_chars", if q { 10 } else { 1_000 }),
            ("feature:skip", if q { 50 } else { 5_000 }),
        ]
    }

    fn calibrate(&self, obs: &mut Obs) {
        let c = corpus();
        for p in &c.problems {
            obs.inconclusive(format!("corpus file unreadable: {p}"));
        }
        if c.tfm.len() < 90 || c.pl.len() < 95 {
            obs.inconclusive(format!("corpus not found or incomplete under {}", c.root.display()));
            return;
        }
        // our TFM reader against Knuth's recorded TFtoPL outputs
        let mut pairs = 0;
        for (t, p) in CALIBRATION_PAIRS {
            let tb = c.tfm.iter().find(|(n, _)| n == t);
            let pt = c.pl.iter().find(|(n, _)| n == p);
            let (Some((_, tb)), Some((_, pt))) = (tb, pt) else {
                obs.count("calibration_pair_missing");
                continue;
            };
            match calibrate_pair(tb, pt) {
                Ok((n, bad)) => {
                    pairs += 1;
                    obs.add("calibration_characters_checked", n as u64);
                    if !bad.is_empty() {
                        obs.inconclusive(format!(
                            "own TFM reader disagrees with Knuth's recorded TFtoPL output for {t}: {}",
                            bad.iter().take(3).cloned().collect::<Vec<_>>().join("; ")
                        ));
                    }
                }
                Err(e) => obs.inconclusive(format!("own TFM reader rejects corpus font {t}: {e}")),
            }
        }
        obs.add("calibration_pairs", pairs);
        if pairs < 20 {
            obs.inconclusive(format!("only {pairs} calibration pairs found"));
        }
        // our writer is the inverse of our reader on every corpus font it accepts
        for (n, b) in &c.tfm {
            if let Ok(r) = RawFont::parse(b) {
                obs.count("calibration_writer_roundtrips");
                if r.to_bytes() != *b {
                    obs.inconclusive(format!("own TFM writer does not reproduce {n}"));
                }
            }
        }
    }

    fn run_case(&self, phase: &str, idx: u64, rng: &mut Rng, obs: &mut Obs) {
        let c = corpus();
        match phase {
            "corpus-tfm" => {
                if c.tfm.is_empty() {
                    obs.inconclusive("no corpus fonts");
                    return;
                }
                let f = (idx / 3) as usize % c.tfm.len();
                let (name, b0) = &c.tfm[f];
                let how = || json!({"corpus_font": name});
                obs.nontrivial(&(b0, idx % 3));
                let r = chain(obs, rng, b0, idx, &how);
                report(obs, "corpus-tfm", r, &how);
            }
            "corpus-pl" => {
                if c.pl.is_empty() {
                    obs.inconclusive("no corpus property lists");
                    return;
                }
                let f = (idx / 3) as usize % c.pl.len();
                let (name, text) = &c.pl[f];
                let how = || json!({"b0 = pl_to_tfm(corpus_pl)": name});
                let (b0, w) = match catch(|| tfm::algorithms::pl_to_tfm(text)) {
                    Ok(v) => v,
                    Err(p) => {
                        // a panic while *making* b0 is C10's subject, not a C11 observation
                        obs.skip(&format!("corpus-pl:making-b0-panics:{}", p.repo_function));
                        return;
                    }
                };
                if !w.is_empty() {
                    obs.skip("corpus-pl:pl-has-warnings");
                    return;
                }
                obs.nontrivial(&(&b0, idx % 3));
                let r = chain(obs, rng, &b0, idx, &how);
                report(obs, "corpus-pl", r, &how);
            }
            "gen" | "repack" => {
                let (text, feat) = gen::gen_font(rng, idx);
                let (b0, w) = match catch(|| tfm::algorithms::pl_to_tfm(&text)) {
                    Ok(v) => v,
                    Err(p) => {
                        obs.skip(&format!("{phase}:making-b0-panics:{}", p.repo_function));
                        return;
                    }
                };
                if !w.is_empty() {
                    obs.skip(&format!("{phase}:generated-pl-has-warnings:{}", variant_name(&w[0].kind)));
                    return;
                }
                let (b0, packlog) = if phase == "repack" {
                    match RawFont::parse(&b0) {
                        Ok(r) => {
                            let (mut r2, mut log) = repack(rng, &r);
                            // a font whose seven-bit-safe flag was set by an independent tool: PLtoTF must accept the
                            // flag without a warning exactly when the font IS seven-bit safe (own judgement from the
                            // raw tables, RawFont::seven_bit_safe)
                            // a header string whose length byte is one more than fits (40 for the coding scheme, 20 for the
                            // family): TFtoPL §52 reports "String is too long", so the font is outside the quantifier
                            // and must be skipped with that warning - a reader that accepts it silently changes the string
                            if r2.header.len() >= 18 && rng.chance(1, 16) {
                                if rng.coin() {
                                    r2.header[2][0] = 40;
                                } else {
                                    r2.header[12][0] = 20;
                                }
                                log.push("header string length byte set to one more than fits");
                                obs.count("feature:header_string_length_byte_too_large_by_one");
                            }
                            if r2.header.len() >= 18 && rng.coin() && r2.seven_bit_safe() == Some(true) {
                                r2.header[17][0] = 128;
                                log.push("seven-bit-safe flag set (font is seven-bit safe by own judgement)");
                                if (128..=255u16).any(|c| r2.exists(c)) {
                                    obs.count("feature:seven_bit_safe_flag_on_font_with_eight_bit_characters");
                                }
                            }
                            (r2.to_bytes(), log)
                        }
                        Err(e) => {
                            obs.violation("generated-b0-rejected-by-own-reader", json!({"error": e, "pl": clip(&text, 3000)}));
                            return;
                        }
                    }
                } else {
                    (b0, vec![])
                };
                let how = || json!({"generated_pl": clip(&text, 6000), "repacked": packlog});
                obs.nontrivial(&(&b0, idx % 3));
                let r = chain(obs, rng, &b0, idx, &how);
                if matches!(r, ChainResult::Held(_)) {
                    // feature counters only for fonts that went through the whole chain
                    if let Ok(raw) = RawFont::parse(&b0) {
                        let redirected = (0..=255u16).any(|ch| {
                            matches!(raw.info(ch), Some(i) if i[2] % 4 == 1
                                && matches!(raw.lig_kern.get(i[3] as usize), Some(w) if w[0] > 128))
                        });
                        if redirected {
                            obs.count("feature:entrypoint_above_255");
                        }
                        if raw.lig_kern.len() > 255 {
                            obs.count("feature:more_than_255_instructions");
                        }
                    }
                    if feat.max_labels_per_chain >= 2 {
                        obs.count("feature:several_labels_per_chain");
                    }
                    if feat.boundary_char {
                        obs.count("feature:boundary_char");
                    }
                    if feat.left_boundary_program {
                        obs.count("feature:left_boundary_program");
                    }
                    if feat.next_larger > 0 {
                        obs.count("feature:next_larger");
                    }
                    if feat.varchar > 0 {
                        obs.count("feature:varchar");
                    }
                    if feat.chars == 256 {
                        obs.count("feature:256_chars");
                    }
                    if feat.chars == 0 {
                        obs.count("feature:no_chars");
                    }
                    if feat.big_skips > 0 {
                        obs.count("gen.fonts_with_skip_of_100_or_more");
                    }
                    if feat.extra_header >= 200 {
                        obs.count("gen.fonts_with_header_of_200_or_more_words");
                    }
                    if feat.skips > 0 {
                        obs.count("feature:skip");
                    }
                    if feat.wild_ligs {
                        obs.count("feature:chained_ligatures");
                    }
                    for l in &packlog {
                        obs.count(&format!("repack:{l}"));
                    }
                }
                let sample = || json!({"generated": {"chars": feat.chars, "lig_steps": feat.lig_instructions, "labels": feat.labels,
                    "boundary_char": feat.boundary_char, "next_larger": feat.next_larger, "varchar": feat.varchar, "params": feat.params},
                    "repacked": packlog});
                report(obs, phase, r, &sample);
            }
            other => obs.inconclusive(format!("unknown phase {other}")),
        }
    }
}
