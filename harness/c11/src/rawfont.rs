//! Our own reader and writer of the TFM layout (TFtoPL §8-§17, TeX §540-§546), independent of
//! the crate under test, plus the semantic view used by the font-equivalence oracle:
//! dimension *values* per character (through the index tables), tags, and the lig/kern program as
//! the map (left, right) -> first matching instruction, computed the way TeX scans a program
//! (TeX §1039: start at `lig_kern_start`, follow a `skip_byte > 128` redirection, test
//! `next_char == cur_r && skip_byte <= 128`, advance by `skip_byte + 1`, stop at `skip_byte >= 128`).

use std::collections::BTreeMap;

#[derive(Clone, Debug, PartialEq, Eq)]
pub struct RawFont {
    pub header: Vec<[u8; 4]>,
    pub bc: u16,
    pub ec: u16,
    pub char_info: Vec<[u8; 4]>,
    pub width: Vec<i32>,
    pub height: Vec<i32>,
    pub depth: Vec<i32>,
    pub italic: Vec<i32>,
    pub lig_kern: Vec<[u8; 4]>,
    pub kern: Vec<i32>,
    pub exten: Vec<[u8; 4]>,
    pub param: Vec<i32>,
}

fn word(b: &[u8], i: usize) -> [u8; 4] {
    [b[4 * i], b[4 * i + 1], b[4 * i + 2], b[4 * i + 3]]
}

impl RawFont {
    /// Strict reader: the twelve lengths must be non-negative, complete and add up.
    pub fn parse(b: &[u8]) -> Result<RawFont, String> {
        if b.len() < 24 {
            return Err("shorter than 24 bytes".into());
        }
        let h = |i: usize| u16::from_be_bytes([b[2 * i], b[2 * i + 1]]) as usize;
        let (lf, lh, bc, ec, nw, nh, nd, ni, nl, nk, ne, np) =
            (h(0), h(1), h(2), h(3), h(4), h(5), h(6), h(7), h(8), h(9), h(10), h(11));
        for v in [lf, lh, bc, ec, nw, nh, nd, ni, nl, nk, ne, np] {
            if v > 32767 {
                return Err("negative length".into());
            }
        }
        if lh < 2 || nw == 0 || nh == 0 || nd == 0 || ni == 0 || ne > 256 {
            return Err("incomplete tables".into());
        }
        if bc > ec + 1 || ec > 255 {
            return Err("bad character range".into());
        }
        let nc = ec + 1 - bc;
        if lf != 6 + lh + nc + nw + nh + nd + ni + nl + nk + ne + np {
            return Err("lengths do not add up".into());
        }
        if b.len() != 4 * lf {
            return Err(format!("file has {} bytes, lf says {}", b.len(), 4 * lf));
        }
        let mut p = 6usize;
        let mut take = |n: usize| -> Vec<[u8; 4]> {
            let v = (p..p + n).map(|i| word(b, i)).collect();
            p += n;
            v
        };
        let fix = |v: Vec<[u8; 4]>| -> Vec<i32> { v.into_iter().map(i32::from_be_bytes).collect() };
        let header = take(lh);
        let char_info = take(nc);
        let width = fix(take(nw));
        let height = fix(take(nh));
        let depth = fix(take(nd));
        let italic = fix(take(ni));
        let lig_kern = take(nl);
        let kern = fix(take(nk));
        let exten = take(ne);
        let param = fix(take(np));
        Ok(RawFont {
            header,
            bc: if nc == 0 { 1 } else { bc as u16 },
            ec: if nc == 0 { 0 } else { ec as u16 },
            char_info,
            width,
            height,
            depth,
            italic,
            lig_kern,
            kern,
            exten,
            param,
        })
    }

    pub fn to_bytes(&self) -> Vec<u8> {
        let nc = self.char_info.len();
        let (bc, ec) = if nc == 0 { (1u16, 0u16) } else { (self.bc, self.ec) };
        let lens = [
            self.header.len(),
            bc as usize,
            ec as usize,
            self.width.len(),
            self.height.len(),
            self.depth.len(),
            self.italic.len(),
            self.lig_kern.len(),
            self.kern.len(),
            self.exten.len(),
            self.param.len(),
        ];
        let lf = 6
            + self.header.len()
            + nc
            + self.width.len()
            + self.height.len()
            + self.depth.len()
            + self.italic.len()
            + self.lig_kern.len()
            + self.kern.len()
            + self.exten.len()
            + self.param.len();
        let mut out = Vec::with_capacity(4 * lf);
        out.extend((lf as u16).to_be_bytes());
        for l in lens {
            out.extend((l as u16).to_be_bytes());
        }
        for w in &self.header {
            out.extend(w);
        }
        for w in &self.char_info {
            out.extend(w);
        }
        for t in [&self.width, &self.height, &self.depth, &self.italic] {
            for v in t {
                out.extend(v.to_be_bytes());
            }
        }
        for w in &self.lig_kern {
            out.extend(w);
        }
        for v in &self.kern {
            out.extend(v.to_be_bytes());
        }
        for w in &self.exten {
            out.extend(w);
        }
        for v in &self.param {
            out.extend(v.to_be_bytes());
        }
        out
    }

    pub fn info(&self, c: u16) -> Option<[u8; 4]> {
        if self.char_info.is_empty() || c < self.bc || c > self.ec {
            return None;
        }
        Some(self.char_info[(c - self.bc) as usize])
    }

    pub fn exists(&self, c: u16) -> bool {
        matches!(self.info(c), Some(i) if i[0] != 0)
    }

    /// Right boundary character: `next_char` of the first instruction if its skip byte is 255.
    pub fn bchar(&self) -> Option<u8> {
        match self.lig_kern.first() {
            Some(w) if w[0] == 255 => Some(w[1]),
            _ => None,
        }
    }

    /// Start of the left boundary program: last instruction, if its skip byte is 255.
    pub fn bchar_label(&self) -> Option<usize> {
        match self.lig_kern.last() {
            Some(w) if w[0] == 255 => Some(256 * w[2] as usize + w[3] as usize),
            _ => None,
        }
    }

    /// Resolved start of the program of character `c` (TeX §1039), if it has a lig tag.
    pub fn lig_start(&self, c: u16) -> Option<usize> {
        let i = self.info(c)?;
        if i[2] % 4 != 1 {
            return None;
        }
        let k = i[3] as usize;
        let w = self.lig_kern.get(k)?;
        if w[0] > 128 {
            Some(256 * w[2] as usize + w[3] as usize)
        } else {
            Some(k)
        }
    }

    /// The program starting at `k` as the map right char -> first matching instruction.
    pub fn scan(&self, mut k: usize) -> BTreeMap<u8, Op> {
        let mut m = BTreeMap::new();
        let mut steps = 0usize;
        while let Some(w) = self.lig_kern.get(k) {
            steps += 1;
            if steps > 70_000 {
                break;
            }
            if w[0] <= 128 {
                m.entry(w[1]).or_insert_with(|| {
                    if w[2] >= 128 {
                        let idx = 256 * (w[2] as usize - 128) + w[3] as usize;
                        match self.kern.get(idx) {
                            Some(v) => Op::Kern(*v),
                            None => Op::KernOutOfRange(idx),
                        }
                    } else {
                        Op::Lig(w[2], w[3])
                    }
                });
            }
            if w[0] >= 128 {
                break;
            }
            k += w[0] as usize + 1;
        }
        m
    }
}

#[derive(Clone, Debug, PartialEq, Eq)]
pub enum Op {
    Kern(i32),
    KernOutOfRange(usize),
    /// (op_byte, inserted character)
    Lig(u8, u8),
}

#[derive(Clone, Debug, PartialEq, Eq)]
pub enum Tag {
    None,
    /// lig/kern program, as a map
    Lig(BTreeMap<u8, Op>),
    List(u8),
    /// top, mid, bot, rep
    Ext(Option<[u8; 4]>),
}

#[derive(Clone, Debug, PartialEq, Eq)]
pub struct CharSem {
    pub wd: Option<i32>,
    pub ht: Option<i32>,
    pub dp: Option<i32>,
    pub ic: Option<i32>,
    pub tag: Tag,
}

/// What a font *means*: everything TeX can observe, nothing about how it is packed.
#[derive(Clone, Debug, PartialEq, Eq)]
pub struct FontSem {
    pub chars: BTreeMap<u8, CharSem>,
    pub bchar: Option<u8>,
    pub left_boundary: Option<BTreeMap<u8, Op>>,
    pub params: Vec<i32>,
    pub checksum: [u8; 4],
    pub design_size: [u8; 4],
    /// header words 2.. (coding scheme, family, flags, extra), kept raw
    pub header_rest: Vec<[u8; 4]>,
}

impl RawFont {
    pub fn semantics(&self) -> FontSem {
        let mut chars = BTreeMap::new();
        for c in 0..=255u16 {
            let Some(i) = self.info(c) else { continue };
            if i[0] == 0 {
                continue;
            }
            let tag = match i[2] % 4 {
                0 => Tag::None,
                1 => match self.lig_start(c) {
                    Some(k) => Tag::Lig(self.scan(k)),
                    None => Tag::Lig(BTreeMap::new()),
                },
                2 => Tag::List(i[3]),
                _ => Tag::Ext(self.exten.get(i[3] as usize).copied()),
            };
            chars.insert(
                c as u8,
                CharSem {
                    wd: self.width.get(i[0] as usize).copied(),
                    ht: self.height.get((i[1] / 16) as usize).copied(),
                    dp: self.depth.get((i[1] % 16) as usize).copied(),
                    ic: self.italic.get((i[2] / 4) as usize).copied(),
                    tag,
                },
            );
        }
        FontSem {
            chars,
            bchar: self.bchar(),
            left_boundary: self.bchar_label().map(|k| self.scan(k)),
            params: self.param.clone(),
            checksum: self.header.first().copied().unwrap_or_default(),
            design_size: self.header.get(1).copied().unwrap_or_default(),
            header_rest: self.header.iter().skip(2).copied().collect(),
        }
    }
}

/// Differences between two fonts, as short labelled strings. Empty = same font.
/// Header strings are compared the way TFtoPL normalises them (upper-cased, TFtoPL §52), the
/// seven-bit-safe flag and the two unused bytes next to the face byte are not compared here
/// (PLtoTF recomputes the flag, PLtoTF §133).
pub fn diff(a: &FontSem, b: &FontSem) -> Vec<(String, String)> {
    let mut d: Vec<(String, String)> = vec![];
    let ka: Vec<u8> = a.chars.keys().copied().collect();
    let kb: Vec<u8> = b.chars.keys().copied().collect();
    if ka != kb {
        d.push(("characters".into(), format!("{ka:?} vs {kb:?}")));
    }
    for (c, x) in &a.chars {
        let Some(y) = b.chars.get(c) else { continue };
        if x.wd != y.wd {
            d.push(("width".into(), format!("char {c}: {:?} vs {:?}", x.wd, y.wd)));
        }
        if x.ht != y.ht {
            d.push(("height".into(), format!("char {c}: {:?} vs {:?}", x.ht, y.ht)));
        }
        if x.dp != y.dp {
            d.push(("depth".into(), format!("char {c}: {:?} vs {:?}", x.dp, y.dp)));
        }
        if x.ic != y.ic {
            d.push(("italic".into(), format!("char {c}: {:?} vs {:?}", x.ic, y.ic)));
        }
        match (&x.tag, &y.tag) {
            (Tag::Lig(p), Tag::Lig(q)) => {
                if p != q {
                    let bad: Vec<u8> = (0..=255u8).filter(|r| p.get(r) != q.get(r)).take(4).collect();
                    d.push((
                        "ligkern-pair-map".into(),
                        format!("left {c}, right {:?}: {:?} vs {:?}", bad, bad.iter().map(|r| p.get(r)).collect::<Vec<_>>(), bad.iter().map(|r| q.get(r)).collect::<Vec<_>>()),
                    ));
                }
            }
            // a lig tag whose program has no instruction at all is the same as no tag
            (Tag::Lig(p), Tag::None) | (Tag::None, Tag::Lig(p)) if p.is_empty() => {}
            (s, t) => {
                if s != t {
                    d.push(("tag".into(), format!("char {c}: {s:?} vs {t:?}")));
                }
            }
        }
    }
    if a.bchar != b.bchar {
        // the boundary character only matters if some instruction can see it
        let used = |f: &FontSem, bc: Option<u8>| -> bool {
            let Some(bc) = bc else { return false };
            f.chars.values().any(|ch| matches!(&ch.tag, Tag::Lig(p) if p.contains_key(&bc)))
                || f.left_boundary.as_ref().map(|p| p.contains_key(&bc)).unwrap_or(false)
        };
        if used(a, a.bchar) || used(b, b.bchar) {
            d.push(("boundary-char".into(), format!("{:?} vs {:?}", a.bchar, b.bchar)));
        }
    }
    let lb = |f: &FontSem| f.left_boundary.clone().unwrap_or_default();
    if lb(a) != lb(b) {
        d.push(("left-boundary-program".into(), format!("{:?} vs {:?}", a.left_boundary, b.left_boundary)));
    }
    if a.params != b.params {
        d.push(("params".into(), format!("{:?} vs {:?}", a.params, b.params)));
    }
    if a.checksum != b.checksum {
        d.push(("checksum".into(), format!("{:?} vs {:?}", a.checksum, b.checksum)));
    }
    if a.design_size != b.design_size {
        d.push(("design-size".into(), format!("{:?} vs {:?}", a.design_size, b.design_size)));
    }
    let (ha, hb) = (norm_header(&a.header_rest), norm_header(&b.header_rest));
    if ha != hb {
        d.push(("header".into(), format!("{ha:?} vs {hb:?}")));
    }
    d
}

/// Header words 2.. normalised: the two BCPL strings upper-cased and cut at their length byte
/// (bytes after the string are padding), flag/unused bytes of word 17 dropped, face kept, extra
/// words kept. A header shorter than 18 words is padded with zeros (PLtoTF always writes 18).
pub fn norm_header(rest: &[[u8; 4]]) -> (Vec<u8>, Vec<u8>, u8, Vec<[u8; 4]>) {
    let mut bytes: Vec<u8> = rest.iter().flatten().copied().collect();
    if bytes.len() < 64 {
        bytes.resize(64, 0);
    }
    let bcpl = |s: &[u8]| -> Vec<u8> {
        let n = (s[0] as usize).min(s.len() - 1);
        s[1..1 + n].iter().map(|c| c.to_ascii_uppercase()).collect()
    };
    let scheme = bcpl(&bytes[0..40]);
    let family = bcpl(&bytes[40..60]);
    let face = bytes[63];
    let extra = rest.iter().skip(16).copied().collect();
    (scheme, family, face, extra)
}

impl RawFont {
    /// Is the font seven-bit safe in the sense of PLtoTF §110-§112 (own judgement from the raw tables, no code of the crate
    /// under test)? A character below 128 (or the left boundary) must not lead to a character of 128 or more through
    ///  * a NEXTLARGER link;
    ///  * a piece of its extensible recipe;
    ///  * a ligature step that can be reached by seven-bit input: the step's right-hand character is below 128 or is the
    ///    boundary character, it is the FIRST step of that program for this right-hand character (`hash_input`: later
    ///    steps for the same pair never fire), and the character it inserts is 128 or more.
    /// `None` if a table is inconsistent (index out of range, program running off the end): no judgement.
    pub fn seven_bit_safe(&self) -> Option<bool> {
        self.seven_bit_safe_by(true)
    }

    /// `tex = false`: the simplified analysis of the code under test today (listed finding
    /// C11-seven-bit-safety-analysis-simplified): EVERY ligature step of a seven-bit character's program counts, also one
    /// that an earlier step for the same right-hand character shadows; the boundary character as right-hand character
    /// and the left boundary's own program are not considered.
    pub fn seven_bit_safe_by(&self, tex: bool) -> Option<bool> {
        let nl = self.lig_kern.len();
        let bchar: Option<u8> = match self.lig_kern.first() {
            Some(w) if w[0] == 255 => Some(w[1]),
            _ => None,
        };
        let mut starts: Vec<usize> = vec![];
        for c in 0..128u16 {
            let Some(i) = self.info(c) else { continue };
            if i[0] == 0 {
                continue; // the character does not exist
            }
            match i[2] % 4 {
                1 => {
                    let mut k = i[3] as usize;
                    let w = self.lig_kern.get(k)?;
                    if w[0] > 128 {
                        k = 256 * w[2] as usize + w[3] as usize;
                    }
                    starts.push(k);
                }
                2 => {
                    if i[3] >= 128 {
                        return Some(false);
                    }
                }
                3 => {
                    let e = self.exten.get(i[3] as usize)?;
                    if e.iter().any(|b| *b >= 128) {
                        return Some(false);
                    }
                }
                _ => {}
            }
        }
        // the left boundary's program counts as seven-bit input too (PLtoTF: `(c<128) or (c=256)`)
        if let (true, Some(w)) = (tex, self.lig_kern.last()) {
            if w[0] == 255 {
                starts.push(256 * w[2] as usize + w[3] as usize);
            }
        }
        for start in starts {
            let mut seen = [false; 256];
            let mut k = start;
            let mut steps = 0;
            loop {
                let w = self.lig_kern.get(k)?;
                steps += 1;
                if steps > nl + 1 {
                    return None;
                }
                if w[0] <= 128 {
                    let right = w[1] as usize;
                    if !seen[right] || !tex {
                        seen[right] = true;
                        if w[2] < 128 && w[3] >= 128 && (w[1] < 128 || (tex && Some(w[1]) == bchar)) {
                            return Some(false);
                        }
                    }
                }
                if w[0] >= 128 {
                    break;
                }
                k += w[0] as usize + 1;
            }
        }
        Some(true)
    }
}
