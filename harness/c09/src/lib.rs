//! Monitor for property C09 - interpreter totality (DESIGN.md §6 C09).
//!
//! Events: the outcome of `VM::run` under the panic oracle - Ok / Err(TracedTexError) / panic(site)
//! / process death (worker journal) - for token-level programs over the full installed vocabulary,
//! each truncated at every token boundary and run in all four interaction modes; for Err: kind,
//! presence of the matching source trace, and that rendering the error itself returns; after the
//! run the H2 snapshot (no pending shutdown).
//! Oracle: totality itself. Non-termination is cut by the step budget and not counted.

use serde_json::json;
use std::sync::OnceLock;
use vcore::*;
use vstate::texlang::error::Kind;
use vstate::VmOptions;

pub struct M;
pub static MONITOR: M = M;

fn vocabulary() -> &'static Vec<String> {
    static V: OnceLock<Vec<String>> = OnceLock::new();
    V.get_or_init(|| {
        let mut v: Vec<String> = vstate::built_ins()
            .keys()
            .filter(|k| k.chars().all(|c| c.is_ascii_alphabetic()))
            .map(|k| k.to_string())
            .collect();
        v.sort();
        v
    })
}

const NUMBERS: &[&str] = &[
    "0", "1", "2", "-1", "-3", "7", "13", "15", "16", "17", "127", "128", "255", "256", "257",
    "32767", "32768", "65535", "65536", "55295", "55296", "57343", "57344", "1114111", "1114112",
    "1073741823", "1073741824", "2147483647", "2147483648", "-2147483647", "-2147483648",
    "4294967296", "99999999999999999999", "\"7FFFFFFF", "\"80000000", "\"FFFFFFFF", "\"10FFFF",
    "\"D800", "'17777777777", "'777", "`a", "`\\a", "`\\^^M", "`é", "`😀", "+-+5", "- - 3",
    "16383.99999", "16384", "0.00001", ".5", "1,5", "32768.1",
    // fractions that round up to exactly 1.0 (2^16 sixty-five-thousand-five-hundred-thirty-sixths) or sit next to it
    ".999993", "0.9999999", ".99999", "1.999999", ".99999999999999999", "16383.999999", "0.000007", "0.000008",
];

const UNITS: &[&str] = &[
    "pt", "pc", "in", "bp", "cm", "mm", "dd", "cc", "sp", "em", "ex", "fil", "fill", "filll",
    "true pt", "truept", "P T", "plus", "minus", "by", "to", "=", "width",
    // proper prefixes of keywords: the scanner has consumed part of a keyword when it meets
    // whatever comes next
    "t", "tr", "tru", "p", "pl", "plu", "m", "mi", "min", "minu", "f", "fi", "fil", "fill", "e", "b",
    "s", "i", "d", "c", "w", "wi", "T", "Pl",
];

/// Expandable tokens whose expansion is likely to fail (missing argument at end of input,
/// `\the` of something without a value, a file that does not exist, a dangling \expandafter).
const FAILING_EXPANDABLES: &[&str] = &[
    "\\a", "\\b", "\\c", "\\the x", "\\the\\relax", "\\the", "\\input nofile ", "\\expandafter",
    "\\expandafter\\a", "\\ifnum x", "\\ifcase", "\\fi", "\\else", "\\or", "\\noexpand", "\\jobname",
    "\\fontname\\a", "\\csname",
];

const FILES: &[&str] = &[
    "f", "f.tex", "g", "loop", "nofile", ">x", ":x", "a.b.c", "../x", "a", "b.mock", "invalid",
    "invalid.mock", "é", "x y", "",
];

const CHARS: &[&str] = &[
    "{", "}", "#", "$", "&", "^", "_", "~", "%", " ", "\n", "\n\n", "a", "b", "Z", "é", "😀", "^^M",
    "^^@", "^^?", "\u{7f}", "\\", "\\ ", "\\\\", "#1", "#2", "##", "[", "]", "<", ">", "=", "-",
    "\"", "'", "`", ".", ",", "\t", "\r",
];

const USER_MACROS: &[&str] = &["\\a", "\\b", "\\c", "\\undefinedcs"];

const REGISTER_PRIMS: &[&str] = &["\\count", "\\dimen", "\\skip", "\\toks"];

/// A generated program is a list of fragments; truncation happens at fragment boundaries.
fn gen_fragment(rng: &mut Rng) -> String {
    let voc = vocabulary();
    let num = |rng: &mut Rng| -> String {
        if rng.chance(1, 6) {
            // digit strings at hostile LENGTHS (buffers of 17 fraction digits, 10-digit
            // integers, ...), for the integer and the fraction part alike
            const LENS: &[usize] = &[1, 2, 8, 9, 10, 11, 15, 16, 17, 18, 19, 20, 21, 32, 33, 64, 65, 300];
            let digits = |rng: &mut Rng, n: usize| -> String {
                (0..n)
                    .map(|i| {
                        if i + 1 == n {
                            b'1' + rng.below(9) as u8
                        } else {
                            b'0' + rng.below(10) as u8
                        }
                    } as char)
                    .collect()
            };
            let int_len = if rng.coin() { 1 } else { *rng.pick(LENS) };
            let mut t = String::new();
            if rng.chance(1, 4) {
                t.push('-');
            }
            if rng.chance(1, 8) {
                t.push_str(if rng.coin() { "\"" } else { "'" });
            }
            t.push_str(&digits(rng, int_len));
            if rng.chance(2, 3) {
                t.push(if rng.chance(1, 5) { ',' } else { '.' });
                let fl = *rng.pick(LENS);
                t.push_str(&digits(rng, fl));
            }
            return t;
        }
        NUMBERS[rng.usize_below(NUMBERS.len())].to_string()
    };
    match rng.below(108) {
        0..=24 => format!("\\{} ", voc[rng.usize_below(voc.len())]),
        25..=34 => num(rng),
        35..=39 => UNITS[rng.usize_below(UNITS.len())].to_string(),
        40..=49 => CHARS[rng.usize_below(CHARS.len())].to_string(),
        50..=55 => USER_MACROS[rng.usize_below(USER_MACROS.len())].to_string(),
        56..=58 => FILES[rng.usize_below(FILES.len())].to_string() + " ",
        // structured fragments reach the deeper paths
        59..=63 => format!(
            "{}{}={}{} ",
            rng.pick(REGISTER_PRIMS),
            num(rng),
            num(rng),
            if rng.coin() { *rng.pick(UNITS) } else { "" }
        ),
        64 => format!(
            "{}{}={}{}{}{}",
            rng.pick(REGISTER_PRIMS),
            num(rng),
            num(rng),
            if rng.coin() { *rng.pick(UNITS) } else { "pt " },
            if rng.coin() { *rng.pick(UNITS) } else { "" },
            rng.pick(FAILING_EXPANDABLES)
        ),
        65..=66 => format!(
            "\\{} {}{} by {}{} ",
            rng.pick(&["advance", "multiply", "divide"]),
            rng.pick(REGISTER_PRIMS),
            num(rng),
            num(rng),
            if rng.coin() { *rng.pick(UNITS) } else { "" }
        ),
        67..=69 => format!(
            "\\{} {}{}{} ",
            rng.pick(&["ifnum", "ifodd", "ifcase", "ifeof"]),
            num(rng),
            rng.pick(&["<", "=", ">", " ", "z"]),
            num(rng)
        ),
        70..=71 => format!("\\catcode {}={} ", num(rng), num(rng)),
        72 => format!("\\mathcode {}={} ", num(rng), num(rng)),
        73..=74 => format!(
            "\\{}{}={} ",
            rng.pick(&["chardef", "mathchardef", "countdef", "toksdef"]),
            rng.pick(USER_MACROS),
            num(rng)
        ),
        75..=77 => format!(
            "\\the{}{} ",
            rng.pick(&[
                "\\count", "\\dimen", "\\skip", "\\toks", "\\catcode", "\\mathcode", "\\relax",
                "\\a", "\\year", "\\endlinechar", "\\font", "\\nullfont", "\\textfont", "\\input",
                "\\globaldefs", "a", "{", "\\the"
            ]),
            num(rng)
        ),
        78..=79 => format!(
            "\\font{}={} ",
            rng.pick(USER_MACROS),
            rng.pick(FILES)
        ),
        80..=81 => format!("\\input {} ", rng.pick(FILES)),
        82..=83 => format!("\\openin{}={} ", num(rng), rng.pick(FILES)),
        84..=85 => format!("\\read{} to{} ", num(rng), rng.pick(USER_MACROS)),
        86 => format!("\\closein{} ", num(rng)),
        87..=89 => format!(
            "\\{}{}{}{{{}}}",
            rng.pick(&["def", "gdef", "global\\def", "long\\def", "outer\\def"]),
            rng.pick(USER_MACROS),
            rng.pick(&["", "#1", "#1#2", "#1.", "#2", "#1#", "a#1b", "#1#{", "#1#3"]),
            rng.pick(&["", "#1", "x#1y#2", "##", "#3", "\\a", "\\a\\a", "{", "#", "\\b #1"])
        ),
        90..=91 => format!(
            "\\let{}{}{} ",
            rng.pick(USER_MACROS),
            rng.pick(&["", "=", "= ", "=="]),
            rng.pick(&["\\relax", "\\a", "a", "{", "}", "\\fi", "\\iftrue", "\\undefinedcs", "#", " "])
        ),
        92..=93 => format!(
            "\\{} ",
            rng.pick(&["errorstopmode", "scrollmode", "nonstopmode", "batchmode"])
        ),
        94 => format!(
            "\\{}{}={} {}",
            rng.pick(&["newInt", "newIntArray"]),
            rng.pick(USER_MACROS),
            num(rng),
            // allocated variables used directly and through aliases
            rng.pick(&["", "\\a 1=5 ", "\\let\\b=\\a \\b 1=5 ", "\\let\\b=\\a \\the\\b ", "{\\a=3 }\\the\\a "])
        ),
        95 => {
            // registers driven to the extreme values that no constant can express (reached by
            // \advance wrap-around), then used: every arithmetic path sees -2^31 and +-(2^31-1)
            let r = rng.below(3);
            let setup = match rng.below(5) {
                0 => format!("\\dimen{r}=-16383.99998pt \\advance\\dimen{r} by \\dimen{r} \\advance\\dimen{r} by -2sp "),
                1 => format!("\\dimen{r}=16383.99998pt \\advance\\dimen{r} by \\dimen{r} \\advance\\dimen{r} by 1sp "),
                2 => format!("\\count{r}=-2147483647 \\advance\\count{r} by -1 "),
                3 => format!("\\skip{r}=-16383.99998pt plus -16383.99998fil minus 16383.99998pt \\advance\\skip{r} by \\skip{r} \\advance\\skip{r} by -2sp plus -2sp minus 1sp "),
                _ => format!("\\count{r}=2147483647 "),
            };
            let kind = *rng.pick(&["count", "dimen", "skip"]);
            let operand = match rng.below(4) {
                0 => "-1".to_string(),
                1 => num(rng),
                2 => format!("\\count{r}"),
                _ => format!("-\\{kind}{r}"),
            };
            let use_it = match rng.below(7) {
                0 => format!("\\divide\\{kind}{r} by {operand} "),
                1 => format!("\\multiply\\{kind}{r} by {operand} "),
                2 => format!("\\advance\\{kind}{r} by {operand} "),
                3 => format!("\\{kind}5=-\\{kind}{r} \\the\\{kind}5 "),
                4 => format!("\\dimen5={operand}\\{kind}{r} "),
                5 => format!("\\the\\{kind}{r} \\count5=\\{kind}{r} \\ifnum\\{kind}{r}<{operand} \\fi "),
                _ => format!("\\skip5=\\{kind}{r} plus \\{kind}{r} minus 1.5\\{kind}{r} "),
            };
            format!("{setup}{use_it}")
        }
        104..=105 => format!(
            "{}{}={}{} ",
            rng.pick(&["\\dimen", "\\skip"]),
            rng.below(3),
            rng.pick(&[".999993", "0.9999999", ".99999", "1.999999", "-.999999", "0.5", "16383.999999"]),
            rng.pick(&["em", "ex", "\\dimen1", "\\skip2", "\\count1", "em plus .999999ex minus 0.9999999\\dimen2", "pt"])
        ),
        106..=107 => {
            // \ifcase with a case number at the ends of the integer range (-2^31 is reached by \advance only) and several
            // \or at depth 0: whatever counts the cases still to skip sees the extreme values, one step per \or
            let r = rng.below(3);
            let (setup, n) = match rng.below(8) {
                0..=1 => (format!("\\count{r}=-2147483647 \\advance\\count{r} by -1 "), format!("\\count{r}")),
                2 => (String::new(), "-2147483647 ".to_string()),
                3 => (String::new(), format!("-214748364{} ", 4 + rng.below(4))),
                4 => (String::new(), "2147483647 ".to_string()),
                5 => (format!("\\count{r}=2147483647 "), format!("\\count{r}")),
                6 => (String::new(), format!("{} ", rng.range_i64(-3, 6))),
                _ => (String::new(), num(rng) + " "),
            };
            let mut t = format!("{setup}\\ifcase {n}");
            for i in 0..rng.below(7) {
                t.push_str(*rng.pick(&["a", "", "\\ifcase 1 x\\or y\\or z\\fi ", "\\iftrue b\\else c\\fi ", "\\a", "{", "}"]));
                t.push_str(if i == 3 && rng.chance(1, 6) { "\\else " } else { "\\or " });
            }
            t.push_str(*rng.pick(&["z\\fi ", "\\else e\\fi ", "\\fi ", "", "\\or\\or\\or\\fi "]));
            t
        }
        101..=103 => {
            // the end-line character changed on an EARLIER line (it takes effect when the next line is read), then a
            // construct whose last character is the last character of a line or of the input: a lone escape
            // character (the empty-named control sequence when no end-line character is appended), an alphabetic
            // constant `\ , a name running into the line end
            let elc = *rng.pick(&["-1", "-1", "255", "65", "13", "32", "92", "200", "-5", "128"]);
            let tail = *rng.pick(&[
                "\\count1=`\\",
                "\\chardef\\a=`\\",
                "\\catcode`\\",
                "\\def\\a{\\",
                "\\",
                "\\count1=`",
                "\\the\\count`\\",
                "\\ifnum`\\",
                "\\input \\",
                "\\let\\a=\\",
                "\\string\\",
                "\\expandafter\\",
                "\\csname\\",
            ]);
            format!("\\endlinechar={elc} \n{tail}{}", rng.pick(&["", "", "\n", "\nx "]))
        }
        100 => format!("\\tracingmacros={} ", num(rng)),
        96 => format!("\\dumpFormat={} \\dumpValidate={} ", num(rng), num(rng)),
        97 => format!("\\globaldefs={} ", num(rng)),
        98 => format!("\\endlinechar={} ", num(rng)),
        _ => format!(
            "\\expandafter{}{}",
            rng.pick(&["\\the", "\\noexpand", "\\expandafter", "\\a", "{", "}"]),
            rng.pick(&["\\count1 ", "\\a", "\\fi", "\\else", "}", " "])
        ),
    }
}

const MODES: [&str; 4] = ["\\errorstopmode ", "\\scrollmode ", "\\nonstopmode ", "\\batchmode "];

fn files() -> Vec<(String, String)> {
    vec![
        ("f.tex".into(), "F\\count1=5 \n\\endinput X\nY".into()),
        ("g.tex".into(), "\\input f G".into()),
        ("loop.tex".into(), "L\\input loop ".into()),
        ("a.tex".into(), "{\\iftrue".into()),
        ("é.tex".into(), "é\\undefinedcs".into()),
    ]
}

thread_local! {
    /// recoverable errors recovered from (scroll/nonstop/batch modes) in the current case
    static RECOVERED: std::cell::Cell<u64> = const { std::cell::Cell::new(0) };
}

#[derive(Debug)]
enum RunResult {
    Ok,
    Err { title: String },
    Budget,
}

fn run_once(source: &str, obs: &mut Obs, what: &str) -> Option<RunResult> {
    let opts = VmOptions {
        budget: 200_000,
        files: files(),
        terminal_lines: vec!["T1".into(), "{T2".into(), "}".into()],
        ..Default::default()
    };
    let src = source.to_string();
    let r = vcore::catch(move || {
        let mut vm = vstate::new_vm(&opts);
        vm.state.mon.call_tracing_hook = false;
        if vm.push_source("c09.tex".to_string(), src).is_err() {
            return (None, None, vm.verif_snapshot());
        }
        let r = vm.run::<vstate::VHandlers>();
        let snap = vm.verif_snapshot();
        RECOVERED.with(|c| c.set(c.get() + vm.state.mon.recovered.get()));
        match r {
            Ok(()) => (Some(Ok(())), None, snap),
            Err(e) => {
                let kind = e.error.kind();
                let has_trace = match &kind {
                    Kind::Token(t) => e.token_traces.contains_key(t),
                    Kind::EndOfInput => e.end_of_input_trace.is_some(),
                    Kind::FailedPrecondition => true,
                };
                let kind_name = match &kind {
                    Kind::Token(_) => "token",
                    Kind::EndOfInput => "end-of-input",
                    Kind::FailedPrecondition => "failed-precondition",
                };
                let stack_empty = e.stack_trace.is_empty();
                let title = e.error.title();
                // rendering must itself return
                let rendered = format!("{e}");
                // the rendered text names a source position: " >>> file:line:col"
                let located = rendered.contains(" >>> ") && rendered.contains(".tex:")
                    || rendered.contains("<input from terminal>");
                let has_trace = has_trace && located;
                (
                    Some(Err((title, kind_name, has_trace, stack_empty, rendered.len()))),
                    None::<()>,
                    snap,
                )
            }
        }
    });
    obs.count("runs");
    let rec = RECOVERED.with(|c| c.replace(0));
    if rec > 0 {
        obs.add("recovered_errors", rec);
        obs.count("runs_with_error_recovery");
    }
    match r {
        Err(p) => {
            if p.budget {
                obs.count("budget_exceeded");
                return Some(RunResult::Budget);
            }
            obs.count("panics_observed");
            obs.repo_panic(&p, json!({"source": source, "what": what}));
            None
        }
        Ok((None, _, _)) => {
            obs.inconclusive("push_source failed");
            None
        }
        Ok((Some(res), _, snap)) => {
            if snap.shutdown_pending {
                obs.violation(
                    "shutdown-pending-after-run",
                    json!({"source": source, "snapshot": format!("{snap:?}")}),
                );
            }
            match res {
                Ok(()) => {
                    obs.count("outcome_ok");
                    if snap.exec_stack_len != 0 {
                        obs.violation(
                            "execution-stack-unbalanced-after-ok",
                            json!({"source": source, "snapshot": format!("{snap:?}")}),
                        );
                    }
                    Some(RunResult::Ok)
                }
                Err((title, kind_name, has_trace, stack_empty, rendered_len)) => {
                    obs.count("outcome_err");
                    obs.count(&format!("err_kind:{kind_name}"));
                    if !has_trace {
                        obs.violation(
                            format!("error-without-source-location:{kind_name}"),
                            json!({"source": source, "title": title}),
                        );
                    }
                    if kind_name == "failed-precondition" && stack_empty {
                        obs.count("err_failed_precondition_with_empty_stack_trace");
                        let t: String = title
                            .chars()
                            .take_while(|c| !c.is_ascii_digit() && *c != '`')
                            .take(48)
                            .collect();
                        obs.count(&format!("unlocated_failed_precondition:{t}"));
                    }
                    if rendered_len == 0 {
                        obs.violation(
                            "error-renders-to-nothing",
                            json!({"source": source, "title": title}),
                        );
                    }
                    Some(RunResult::Err { title })
                }
            }
        }
    }
}

/// Entry point of the libFuzzer target `c09_tex_source` (harness/vfuzz): one fuzzer-chosen source text through
/// `run_once` - the same totality oracle (no panic, Ok or a located, renderable Err, balanced execution stack, no
/// pending shutdown) as the generated programs. The first byte selects the interaction mode; the run happens on a
/// thread with a 512 MiB stack like the monitor's own cases (deep but finite recursion is not a crash here).
pub fn fuzz_one(data: &[u8], obs: &mut Obs) {
    let Some((mode, rest)) = data.split_first() else {
        return;
    };
    let Ok(text) = std::str::from_utf8(rest) else {
        return;
    };
    let mut s = String::from(MODES[(*mode % 4) as usize]);
    s.push_str(text);
    std::thread::scope(|sc| {
        let h = std::thread::Builder::new()
            .stack_size(512 << 20)
            .spawn_scoped(sc, || {
                run_once(&s, obs, "fuzz");
            });
        match h {
            Ok(h) => {
                let _ = h.join();
            }
            Err(_) => {}
        }
    });
}

/// Seed corpus (the repository's error cases, generated programs; first byte = interaction mode) and dictionary (every
/// installed primitive and the rest of the generator's vocabulary) for the libFuzzer target.
pub fn fuzz_seeds() -> vcore::fuzzglue::Seeds {
    let mut inputs: Vec<Vec<u8>> = vec![];
    for (i, s) in error_case_seeds().iter().enumerate() {
        let mut v = vec![(i % 4) as u8];
        v.extend_from_slice(s.as_bytes());
        inputs.push(v);
    }
    for k in 0..400u64 {
        let mut rng = Rng::new(0xC09 + k);
        let n = rng.range_usize(1, 10);
        let mut v = vec![(k % 4) as u8];
        for _ in 0..n {
            v.extend_from_slice(gen_fragment(&mut rng).as_bytes());
        }
        if v.len() <= 2048 {
            inputs.push(v);
        }
    }
    let mut dictionary: Vec<String> = vocabulary().clone();
    for w in NUMBERS.iter().chain(UNITS.iter()).chain(FILES.iter()) {
        dictionary.push(w.to_string());
    }
    vcore::fuzzglue::Seeds { inputs, dictionary }
}

fn error_case_seeds() -> Vec<String> {
    vstate::texlang_stdlib::ErrorCase::all_error_cases()
        .into_iter()
        .map(|c| c.source_code.to_string())
        .collect()
}

impl Monitor for M {
    fn id(&self) -> &'static str {
        "C09"
    }
    fn rule(&self) -> String {
        "programs of 1-14 fragments drawn from: every installed primitive, user macros, braces and special characters, \
         non-ASCII characters, numbers at and beyond every limit, units/keywords, file names, and structured fragments \
         (register/arith/conditional/catcode/chardef/font/input/openin/read/def/let/mode/alloc statements with hostile \
         operands); each program is run truncated at every fragment boundary, under each of the four interaction modes \
         (mode set by the first fragment). seeds: the repo's 50 all_error_cases with hostile suffixes. A case is \
         non-trivial if at least one of its runs ended in Ok or a rendered Err (not only budget cut-offs); distinct = \
         distinct program text."
            .into()
    }
    fn assumptions(&self) -> Vec<String> {
        vec![
            "a run cut off by the logical step budget (2e5 hook steps) is not counted either way".into(),
            "cases run on a 1 GiB stack: deep but finite recursion is not a crash here; the default-stack probe is a separate phase run in a subprocess".into(),
            "terminal input comes from a 3-line MockTerminalIn; files from an in-memory file system".into(),
            "an Err must carry the trace for its kind (token trace / end-of-input trace); FailedPrecondition errors are only counted".into(),
        ]
    }
    fn phases(&self, tier: Tier) -> Vec<Phase> {
        vec![
            Phase::new("known", 24).batch(1),
            Phase::new("stack", 30).batch(1),
            Phase::new("seeds", 50 * tier.pick(4, 40)).batch(8),
            Phase::new("random", tier.pick(30_000, 3_000_000)).batch(16),
        ]
    }
    fn floors(&self, _tier: Tier) -> Vec<(&'static str, u64)> {
        vec![
            ("runs", 100_000),
            ("outcome_ok", 5_000),
            ("outcome_err", 50_000),
            ("err_kind:token", 10_000),
            ("err_kind:end-of-input", 2_000),
            ("err_kind:failed-precondition", 1_000),
            ("runs_with_error_recovery", 5_000),
            ("mode:0", 500),
            ("mode:1", 500),
            ("mode:2", 500),
            ("mode:3", 500),
        ]
    }
    fn run_case(&self, phase: &str, idx: u64, rng: &mut Rng, obs: &mut Obs) {
        match phase {
            "known" => {
                // fixed reproducers: each listed panic finding is exercised on every run so that
                // its KNOWN-FINDING line appears while it is present
                const R: &[&str] = &[
                    "\\catcode 55296=3",
                    "\\count1=-2147483647 \\advance\\count1 by -1 \\dimen0=\\count1 sp",
                    "\\the\\relax",
                    "é\\undefinedcs",
                    "\\input >x",
                    "\\batchmode\\read16 to\\a",
                ];
                if let Some(s) = R.get(idx as usize) {
                    run_once(s, obs, "fixed reproducer");
                }
            }
            "stack" => {
                // Default-stack probe: long runs of tokens that expand to nothing (TeX handles
                // them in constant stack). Run on a thread with the platform's default 8 MiB
                // main-thread stack; an overflow kills this worker and the runner's journal
                // names this case (signature process-death:SIGSEGV@stack).
                const SIZES: [usize; 3] = [1_000, 100_000, 1_000_000];
                let n = SIZES[idx as usize % 3];
                let kind = idx as usize / 3;
                let rep = |x: &str, n: usize| x.repeat(n);
                let s = match kind {
                    0 => format!("\\def\\a{{}}{} done", rep("\\a", n)),
                    1 => format!("\\def\\a{{\\iftrue\\fi}}{} done", rep("\\a", n)),
                    2 => format!("{}{} done", rep("{", n), rep("}", n)),
                    3 => format!("{}{} done", rep("\\iftrue", n), rep("\\fi", n)),
                    4 => format!("\\iffalse{}\\fi done", rep("\\iftrue\\else\\fi", n)),
                    5 => format!("\\def\\a{{\\b}}\\def\\b{{}}{} done", rep("\\a", n)),
                    6 => format!("\\def\\a#1{{}}\\a{{{}}} done", rep("x{y}", n / 4)),
                    7 => format!("\\count1={}1 \\relax done", rep("0", n)),
                    8 => format!("\\iffalse{}{}\\fi done", rep("\\iftrue", n), rep("\\fi", n)),
                    _ => format!("{} done", rep("\\relax", n)),
                };
                obs.count(&format!("stack_probe_kind_{kind}"));
                let h = std::thread::Builder::new()
                    .stack_size(8 << 20)
                    .spawn(move || {
                        let opts = VmOptions {
                            budget: 50_000_000,
                            ..Default::default()
                        };
                        vcore::catch(move || {
                            let (o, out, _vm) = vstate::run_program(&opts, &s);
                            (o.is_ok(), out)
                        })
                    })
                    .expect("spawn");
                match h.join() {
                    Ok(Ok((true, out))) if out.trim() == "done" => {
                        obs.count("stack_probe_ok");
                        obs.add("stack_probe_empty_expansions", n as u64);
                    }
                    Ok(Ok((ok, out))) => obs.violation(
                        "stack-probe-wrong-result",
                        json!({"n": n, "kind": kind, "ok": ok, "out_tail": out.chars().rev().take(20).collect::<String>()}),
                    ),
                    Ok(Err(p)) => obs.repo_panic(&p, json!({"n": n, "what": "stack probe"})),
                    Err(_) => obs.inconclusive("stack probe thread died"),
                }
            }
            "seeds" => {
                let seeds = error_case_seeds();
                let base = &seeds[(idx as usize) % seeds.len()];
                let mode = MODES[rng.usize_below(4)];
                let mut s = String::from(mode);
                s.push_str(base);
                for _ in 0..rng.range_usize(0, 3) {
                    s.push(' ');
                    s.push_str(&gen_fragment(rng));
                }
                let mut any = false;
                if let Some(r) = run_once(&s, obs, "seed") {
                    any |= !matches!(r, RunResult::Budget);
                }
                if any {
                    obs.nontrivial(&s);
                }
            }
            _ => {
                let n = rng.range_usize(1, 14);
                let frags: Vec<String> = (0..n).map(|_| gen_fragment(rng)).collect();
                let mode_i = rng.usize_below(4);
                obs.count(&format!("mode:{mode_i}"));
                let mut any = false;
                let mut outcomes = vec![];
                // every truncation point (prefixes of the fragment list)
                for cut in 1..=n {
                    let mut s = String::from(MODES[mode_i]);
                    for f in &frags[..cut] {
                        s.push_str(f);
                    }
                    if let Some(r) = run_once(&s, obs, "random") {
                        any |= !matches!(r, RunResult::Budget);
                        if cut == n {
                            outcomes.push(format!("{r:?}"));
                        }
                    }
                }
                if any {
                    let full: String = frags.concat();
                    obs.nontrivial(&(mode_i, &full));
                    if obs.wants_sample() {
                        obs.sample(json!({"mode": MODES[mode_i], "program": full, "truncations": n, "final_outcome": outcomes}));
                    }
                }
            }
        }
    }
}
