fn main() {
    vcore::run_main(&c09::MONITOR)
}
