//! Text generators for the VM-level phases: TeX source for <number>, <dimen>, <glue> and the
//! register commands, inside the property's quantifier (no `true`, standard category codes,
//! printable ASCII). The *model* decides what a text means; nothing here needs to be exact - a
//! text the model rejects is counted as skipped.

use vcore::Rng;
use vmodels::texarith as m;

pub const MAX_DIMEN: i64 = m::MAX_DIMEN;

/// Operand boundary set of DESIGN §6 C06 (magnitudes; -2^31 is added separately).
pub const BOUNDARY_MAGS: [i64; 14] = [
    1,
    2,
    3,
    (1 << 15) - 1,
    1 << 15,
    (1 << 15) + 1,
    (1 << 16) - 1,
    1 << 16,
    (1 << 16) + 1,
    (1 << 30) - 1,
    1 << 30,
    (1 << 30) + 1,
    (1 << 31) - 2,
    (1 << 31) - 1,
];

/// {0} ∪ ±BOUNDARY_MAGS ∪ {-2^31}: 30 values.
pub fn boundary_set() -> Vec<i64> {
    let mut v = vec![0];
    for b in BOUNDARY_MAGS {
        v.push(b);
        v.push(-b);
    }
    v.push(m::MIN32);
    v
}

/// Registers used by generated statements (the model has NREGS = 8; 0 stays untouched).
pub const GEN_REGS: [usize; 5] = [1, 2, 3, 4, 5];

pub struct Gen<'a> {
    pub rng: &'a mut Rng,
}

const ALPHA_CHARS: &[u8] = b"abcxyzABCXYZ0123456789!\"'()*+,-./:;<=>?@[]`|";
const ALPHA_CS_SYMBOLS: &[u8] = b"%{}#&$_~!\"'()*+,-./:;<=>?@[]`|\\0123456789";

impl<'a> Gen<'a> {
    pub fn new(rng: &'a mut Rng) -> Gen<'a> {
        Gen { rng }
    }

    fn opt_space(&mut self, num: u64, den: u64) -> &'static str {
        if self.rng.chance(num, den) {
            " "
        } else {
            ""
        }
    }

    /// A sign string: `+-+ -` etc. (spaces allowed between signs).
    pub fn signs(&mut self) -> String {
        match self.rng.below(20) {
            0..=9 => String::new(),
            10..=13 => "-".into(),
            14 => "+".into(),
            15 => "--".into(),
            16 => "- -".into(),
            _ => {
                let n = self.rng.range_usize(2, 5);
                let mut s = String::new();
                for _ in 0..n {
                    s.push(*self.rng.pick(&['+', '-', '-', ' ']));
                }
                s
            }
        }
    }

    /// A magnitude for an integer constant, biased to the boundaries (may exceed 2^31-1:
    /// "Number too big").
    pub fn int_magnitude(&mut self) -> u128 {
        match self.rng.below(20) {
            0..=6 => {
                let b = *self.rng.pick(&BOUNDARY_MAGS) as i128;
                let d = self.rng.range_i64(-1, 1) as i128;
                (b + d).max(0) as u128
            }
            7 => 0,
            8..=10 => self.rng.below(300) as u128,
            11..=12 => self.rng.below(70000) as u128,
            13..=15 => self.rng.below(1 << 31) as u128,
            16 => (1u128 << 31) + self.rng.below(20) as u128,
            17 => 214748364 * 10 + self.rng.below(10) as u128, // last-digit boundary of §445
            18 => (self.rng.next_u64() as u128) * (self.rng.below(1000) as u128 + 1),
            _ => self.rng.below(20000) as u128,
        }
    }

    /// Render `mag` as a TeX constant in a random radix, followed by an optional space.
    pub fn int_const_of(&mut self, mag: u128) -> String {
        let mut s = String::new();
        let zeros = if self.rng.chance(1, 6) {
            "0".repeat(self.rng.range_usize(1, 4))
        } else {
            String::new()
        };
        match self.rng.below(20) {
            0..=2 => {
                s.push('\'');
                s.push_str(&zeros);
                s.push_str(&format!("{mag:o}"));
                // `8` and `9` are not octal digits: TeX §445 ends the constant in front of them (`'78` is 7 and an 8 left
                // in the input; a bare `'8` is a missing number)
                match self.rng.below(24) {
                    0 => s.push(*self.rng.pick(&['8', '9'])),
                    1 => s.push_str(&format!("{}{}", self.rng.pick(&['8', '9']), self.rng.below(100))),
                    2 => {
                        s.truncate(1);
                        s.push(*self.rng.pick(&['8', '9']));
                    }
                    _ => {}
                }
            }
            3..=5 => {
                s.push('"');
                s.push_str(&zeros);
                s.push_str(&format!("{mag:X}"));
            }
            6..=9 if mag < 127 && mag > 32 => {
                let c = mag as u8;
                let as_cs = self.rng.coin();
                if as_cs && c.is_ascii_alphabetic() {
                    // control word: the following space is skipped by TeX's lexer
                    s.push('`');
                    s.push('\\');
                    s.push(c as char);
                    s.push(' ');
                    return s;
                } else if as_cs && ALPHA_CS_SYMBOLS.contains(&c) {
                    s.push('`');
                    s.push('\\');
                    s.push(c as char);
                } else if ALPHA_CHARS.contains(&c) {
                    s.push('`');
                    s.push(c as char);
                } else {
                    s.push_str(&format!("{mag}"));
                }
            }
            _ => {
                s.push_str(&zeros);
                s.push_str(&format!("{mag}"));
            }
        }
        // digits that arrive by expansion in the middle of a constant (TeX §366: expand backs up cur_val, radix and
        // cur_order, so the constant goes on in its own radix): `"7\the\count2`
        if self.rng.chance(1, 40) {
            let r = self.reg("count");
            s.push_str(&format!("\\the{r}"));
        }
        s.push_str(self.opt_space(1, 3));
        s
    }

    /// An alphabetic constant: `c, `\c (control symbol) or `\c followed by a space (control word).
    pub fn alpha_const(&mut self) -> String {
        match self.rng.below(3) {
            0 => {
                let c = *self.rng.pick(ALPHA_CHARS);
                format!("`{}{}", c as char, self.opt_space(1, 3))
            }
            1 => {
                let c = *self.rng.pick(ALPHA_CS_SYMBOLS);
                format!("`\\{}{}", c as char, self.opt_space(1, 3))
            }
            _ => {
                let c = *self.rng.pick(b"abcdefghijklmnopqrstuvwxyzABCDEFGHIJKLMNOPQRSTUVWXYZ");
                format!("`\\{} ", c as char)
            }
        }
    }

    pub fn reg_number(&mut self, r: usize) -> String {
        match self.rng.below(12) {
            0 => format!("{r} "),
            1 => format!(" {r}"),
            2 => format!("'{r:o}"),
            3 => format!("\"{r:X}"),
            4 => format!("0{r}"),
            _ => format!("{r}"),
        }
    }

    pub fn reg(&mut self, kind: &str) -> String {
        let r = *self.rng.pick(&GEN_REGS);
        let n = self.reg_number(r);
        format!("\\{kind}{n}")
    }

    /// <number>
    pub fn number(&mut self) -> String {
        let signs = self.signs();
        let body = match self.rng.below(20) {
            0..=1 => self.reg("count"),
            2 => self.reg("dimen"),
            3 => self.reg("skip"),
            4 => {
                // round trip through the printed form
                let r = self.reg("count");
                format!("\\the{r}")
            }
            5 => self.alpha_const(),
            _ => {
                let mag = self.int_magnitude();
                self.int_const_of(mag)
            }
        };
        format!("{signs}{body}")
    }

    fn mixed_case(&mut self, kw: &str) -> String {
        if self.rng.chance(1, 6) {
            kw.chars()
                .map(|c| {
                    if self.rng.coin() {
                        c.to_ascii_uppercase()
                    } else {
                        c
                    }
                })
                .collect()
        } else {
            kw.to_string()
        }
    }

    /// 0..=20 fraction digits with boundary patterns (17-digit rule, exact midpoints).
    pub fn fraction_digits(&mut self) -> String {
        let pow5_17: u128 = 762_939_453_125; // 5^17
        match self.rng.below(16) {
            0 => String::new(),
            1 => "9".repeat(self.rng.range_usize(1, 20)),
            2 => {
                let mut s = "0".repeat(self.rng.range_usize(0, 19));
                s.push((b'1' + self.rng.below(9) as u8) as char);
                s
            }
            3..=5 => {
                // exact midpoint (2k+1)/2^17 = 17 digits, optionally +-1 in the last place and
                // followed by digits TeX must ignore
                let k = match self.rng.below(4) {
                    0 => 0,
                    1 => 65535,
                    _ => self.rng.below(65536),
                } as u128;
                let mut v = (2 * k + 1) * pow5_17;
                match self.rng.below(4) {
                    0 => v -= 1,
                    1 => v += 1,
                    _ => {}
                }
                let mut s = format!("{v:017}");
                let extra = self.rng.range_usize(0, 3);
                for _ in 0..extra {
                    s.push((b'0' + self.rng.below(10) as u8) as char);
                }
                s
            }
            6 => {
                // exact k/2^16 (16 digits)
                let k = self.rng.below(65536) as u128;
                format!("{:016}", k * 152587890625u128) // 5^16
            }
            _ => {
                let n = match self.rng.below(10) {
                    0..=5 => self.rng.range_usize(1, 6),
                    6..=7 => self.rng.range_usize(15, 18),
                    _ => self.rng.range_usize(1, 20),
                };
                (0..n)
                    .map(|_| (b'0' + self.rng.below(10) as u8) as char)
                    .collect()
            }
        }
    }

    /// An integer part suited to the unit: around its overflow threshold, small, or wild.
    fn int_part_for(&mut self, sp_per_unit_times_1000: u128) -> u128 {
        // threshold t: first integer i with i units >= 2^30 sp
        let t = ((1u128 << 30) * 1000) / sp_per_unit_times_1000.max(1);
        match self.rng.below(16) {
            0..=3 => {
                let d = self.rng.range_i64(-2, 2) as i128;
                (t as i128 + d).max(0) as u128
            }
            4 => 0,
            5..=8 => self.rng.below(30) as u128,
            9..=10 => self.rng.below(2000) as u128,
            11 => self.rng.below(20000) as u128,
            12 => self.rng.below(t as u64 + 1) as u128,
            13 => t * (self.rng.below(5) as u128 + 1) + self.rng.below(100) as u128,
            14 => self.int_magnitude(),
            _ => self.rng.below(400) as u128,
        }
    }

    /// <dimen>; `inf` allows fil/fill/filll.
    pub fn dimen(&mut self, inf: bool) -> String {
        let signs = self.signs();
        // complete internal forms
        match self.rng.below(24) {
            0 => return format!("{signs}{}", self.reg("dimen")),
            1 => return format!("{signs}{}", self.reg("skip")),
            2 => return format!("{signs}\\the{}", self.reg("dimen")),
            _ => {}
        }
        // unit
        #[derive(Clone, Copy, PartialEq)]
        enum U {
            Kw(&'static str, u128), // keyword, sp per unit * 1000
            Fil(usize),
            Internal,
        }
        let unit = match self.rng.below(24) {
            0..=3 => U::Kw("pt", 65_536_000),
            4 => U::Kw("pc", 786_432_000),
            5 => U::Kw("in", 4_736_286_720),
            6 => U::Kw("bp", 65_781_760),
            7 => U::Kw("cm", 1_864_679_811),
            8 => U::Kw("mm", 186_467_981),
            9 => U::Kw("dd", 70_124_086),
            10 => U::Kw("cc", 841_489_037),
            11..=12 => U::Kw("sp", 1000),
            13 => U::Kw("em", 786_432_000),
            14 => U::Kw("ex", 786_432_000),
            15..=17 => U::Internal,
            // four l's: 'Illegal unit of measure (replaced by filll)'
            _ if inf => U::Fil(1 + self.rng.weighted(&[7, 6, 6, 1])),
            _ => U::Kw("pt", 65_536_000),
        };
        let per = match unit {
            U::Kw(_, p) => p,
            U::Fil(_) => 65_536_000,
            U::Internal => 65_536_000,
        };
        // factor
        let factor = match self.rng.below(20) {
            0..=1 => self.reg("count"),
            2 => {
                // non-decimal radix: no fraction allowed
                let mag = self.int_part_for(per);
                let mut s;
                loop {
                    s = self.int_const_of(mag);
                    if !s.as_bytes()[0].is_ascii_digit() {
                        break;
                    }
                }
                // nearly valid: a point/comma and digits directly after an octal/hex constant.
                // TeX (§448: a fraction is scanned only `if (radix=10) and (cur_tok=point_token)`)
                // stops the number there, reports the missing unit and leaves `.5pt` in the input.
                if self.rng.chance(1, 4) {
                    let sep = if self.rng.chance(1, 4) { ',' } else { '.' };
                    let frac = self.fraction_digits();
                    s = format!("{}{sep}{frac}", s.trim_end());
                }
                s
            }
            3 => format!("\\the{}", self.reg("count")),
            4 => self.alpha_const(),
            5..=8 => {
                // integer only
                let mag = self.int_part_for(per);
                let zeros = if self.rng.chance(1, 8) { "00" } else { "" };
                format!("{zeros}{mag}{}", self.opt_space(1, 4))
            }
            _ => {
                let sep = if self.rng.chance(1, 6) { ',' } else { '.' };
                let int = if self.rng.chance(1, 6) {
                    String::new()
                } else {
                    let mag = self.int_part_for(per);
                    let zeros = if self.rng.chance(1, 8) { "0" } else { "" };
                    format!("{zeros}{mag}")
                };
                let frac = self.fraction_digits();
                format!("{int}{sep}{frac}{}", self.opt_space(1, 4))
            }
        };
        let unit_text = match unit {
            U::Kw(k, _) => {
                let k = self.mixed_case(k);
                format!("{k}{}", self.opt_space(1, 3))
            }
            U::Fil(n) => {
                let mut k = self.mixed_case(&format!("fi{}", "l".repeat(n)));
                // TeX §454 scans every l after `fil` with scan_keyword("l"): blanks before it are skipped (`fil l` = fill)
                if n >= 2 && self.rng.chance(1, 25) {
                    let at = k.len() - self.rng.range_usize(1, n - 1);
                    k.insert(at, ' ');
                }
                format!("{k}{}", self.opt_space(1, 3))
            }
            U::Internal => match self.rng.below(4) {
                0 => self.reg("count"),
                1 => self.reg("skip"),
                _ => self.reg("dimen"),
            },
        };
        format!("{signs}{factor}{unit_text}")
    }

    /// <glue>
    pub fn glue(&mut self) -> String {
        match self.rng.below(16) {
            0..=1 => {
                let s = self.signs();
                return format!("{s}{}", self.reg("skip"));
            }
            2 => {
                let s = self.signs();
                return format!("{s}\\the{}", self.reg("skip"));
            }
            _ => {}
        }
        let mut s = self.dimen(false);
        if self.rng.chance(3, 5) {
            let kw = self.mixed_case("plus");
            s.push_str(self.opt_space(1, 2));
            s.push_str(&kw);
            s.push_str(self.opt_space(1, 2));
            s.push_str(&self.dimen(true));
        }
        if self.rng.chance(3, 5) {
            let kw = self.mixed_case("minus");
            s.push_str(self.opt_space(1, 2));
            s.push_str(&kw);
            s.push_str(self.opt_space(1, 2));
            s.push_str(&self.dimen(true));
        }
        s
    }

    fn equals(&mut self) -> &'static str {
        match self.rng.below(8) {
            0 => " =",
            1 => "= ",
            2 => " = ",
            3 => " ",
            _ => "=",
        }
    }

    fn by(&mut self) -> &'static str {
        match self.rng.below(10) {
            0 => " by ",
            1 => "by ",
            2 => " ",
            3 => "By",
            4 => " BY ",
            5 => " bY",
            _ => "by",
        }
    }

    /// One register command (without the terminating `\relax`).
    pub fn statement(&mut self) -> String {
        let kind = *self.rng.pick(&["count", "dimen", "skip"]);
        let target = self.reg(kind);
        match self.rng.below(20) {
            0..=8 => {
                let eq = self.equals();
                let v = self.value(kind);
                format!("{target}{eq}{v}")
            }
            9..=13 => {
                let by = self.by();
                let v = if self.rng.chance(1, 12) {
                    // doubling: the road to values beyond TeX's limits
                    target.clone()
                } else {
                    self.value(kind)
                };
                format!("\\advance{target}{by}{v}")
            }
            14..=16 => {
                let by = self.by();
                let v = self.number();
                format!("\\multiply{target}{by}{v}")
            }
            _ => {
                let by = self.by();
                let v = self.number();
                format!("\\divide{target}{by}{v}")
            }
        }
    }

    fn value(&mut self, kind: &str) -> String {
        match kind {
            "count" => self.number(),
            "dimen" => self.dimen(false),
            _ => self.glue(),
        }
    }
}

// ------------------------------------------------------------------------------------------
// Setters: statement sequences that bring a register to a given 32-bit value
// ------------------------------------------------------------------------------------------

pub fn set_count(r: usize, v: i64) -> Vec<String> {
    if v == m::MIN32 {
        vec![
            format!("\\count{r}=-2147483647"),
            format!("\\advance\\count{r} by -1"),
        ]
    } else {
        vec![format!("\\count{r}={v}")]
    }
}

fn sp_chunks(v: i64) -> Vec<i64> {
    let mut out = vec![];
    let mut rest = v;
    loop {
        let c = rest.clamp(-MAX_DIMEN, MAX_DIMEN);
        out.push(c);
        rest -= c;
        if rest == 0 {
            break;
        }
    }
    out
}

pub fn set_dimen(r: usize, v: i64) -> Vec<String> {
    let mut out = vec![];
    for (i, c) in sp_chunks(v).into_iter().enumerate() {
        if i == 0 {
            out.push(format!("\\dimen{r}={c}sp"));
        } else {
            out.push(format!("\\advance\\dimen{r} by {c}sp"));
        }
    }
    out
}

fn order_unit(o: m::Order) -> &'static str {
    match o {
        m::Order::Normal => "pt",
        m::Order::Fil => "fil",
        m::Order::Fill => "fill",
        m::Order::Filll => "filll",
    }
}

/// `plus`/`minus` amounts cannot be written in sp when the order is infinite; the printed
/// decimal scans back to the same value (that is the round-trip property, checked elsewhere; the
/// monitor reads the register it actually got).
pub fn set_skip(r: usize, g: &m::Glue) -> Vec<String> {
    let w = sp_chunks(g.width);
    let s = sp_chunks(g.stretch);
    let h = sp_chunks(g.shrink);
    let n = w.len().max(s.len()).max(h.len());
    let mut out = vec![];
    for i in 0..n {
        let wi = w.get(i).copied().unwrap_or(0);
        let si = s.get(i).copied().unwrap_or(0);
        let hi = h.get(i).copied().unwrap_or(0);
        let mut t = if i == 0 {
            format!("\\skip{r}={wi}sp")
        } else {
            format!("\\advance\\skip{r} by {wi}sp")
        };
        if i == 0 || si != 0 {
            t.push_str(&format!(
                " plus {}{}",
                m::print_scaled(si),
                order_unit(g.stretch_order)
            ));
        }
        if i == 0 || hi != 0 {
            t.push_str(&format!(
                " minus {}{}",
                m::print_scaled(hi),
                order_unit(g.shrink_order)
            ));
        }
        out.push(t);
    }
    out
}
