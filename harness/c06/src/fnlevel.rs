//! Function-level layer: `common::Scaled` / `common::Glue` called directly.

use std::cell::Cell;
use std::fmt::Write;

use common::{Glue, GlueOrder, Scaled, ScaledUnit};
use vcore::{json, Obs, Rng, Tier};
use vmodels::texarith as m;

use crate::vmlevel::{glue_of, report_panic, ID_GLUE_ADD};

pub const ID_PARSE_NEG: &str = "C06-parse-from-string-negative";

pub const CHUNK: i64 = 1 << 20;
pub const N_CHUNKS: u64 = 2048; // 2048 * 2^20 >= 2^31 - 1
pub const QUICK_STRIDE: i64 = 257;

/// Everything checked for one scaled value. Returns false after reporting a violation.
struct RoundTrip {
    text: String,
    model: String,
    values: u64,
    by_digits: [u64; 6],
    negatives: u64,
    parse_neg_known: u64,
}

impl RoundTrip {
    fn check(&mut self, s: i32, obs: &mut Obs) {
        self.values += 1;
        self.text.clear();
        write!(self.text, "{}", Scaled(s)).expect("writing to a String");
        self.model.clear();
        m::print_scaled_into(s as i64, &mut self.model);
        // model self-check (Knuth's guarantee, §103): the printed decimal scans back to s
        let (ip, frac) = self.model.trim_start_matches('-').split_once('.').expect("a point");
        let digits: Vec<u8> = frac.bytes().map(|b| b - b'0').collect();
        let back = ip.parse::<i64>().expect("digits") * m::UNITY + m::round_decimals(&digits);
        if back != (s as i64).abs() {
            obs.inconclusive(format!("model: print_scaled({s}) does not scan back"));
            return;
        }
        self.by_digits[digits.len().min(5)] += 1;
        if s < 0 {
            self.negatives += 1;
        }
        self.model.push_str("pt");
        if self.text != self.model {
            obs.violation(
                "fn:display-differs-from-print_scaled",
                json!({"s": s, "display": self.text, "print_scaled": self.model}),
            );
            return;
        }
        let no_units = &self.text[..self.text.len() - 2];
        match Scaled::parse_no_units(no_units) {
            Ok(Scaled(v)) if v == s => {}
            other => {
                obs.violation(
                    "fn:parse_no_units-round-trip",
                    json!({"s": s, "printed": no_units, "parsed": format!("{other:?}")}),
                );
                return;
            }
        }
        match Scaled::parse_from_string(&self.text) {
            Ok(Scaled(v)) if v == s => {}
            other => {
                // deviation model: the sign is applied to the integer part only
                let f = (s as i64).abs() % m::UNITY;
                let ipv = (s as i64).abs() / m::UNITY;
                let today = -ipv * m::UNITY + f;
                if s < 0 && f != 0 && other == Ok(Scaled(today as i32)) {
                    self.parse_neg_known += 1;
                    if self.parse_neg_known == 1 {
                        obs.known(
                            ID_PARSE_NEG,
                            json!({"s": s, "printed": self.text, "parsed": format!("{other:?}"),
                                   "expected": s}),
                        );
                    }
                } else {
                    obs.violation(
                        "fn:parse_from_string-round-trip",
                        json!({"s": s, "printed": self.text, "parsed": format!("{other:?}")}),
                    );
                }
            }
        }
    }
}

/// Values of one chunk that the quick tier always visits.
fn chunk_boundaries(lo: i64, hi: i64) -> Vec<i64> {
    let mut v = vec![lo, lo + 1, hi - 1, hi];
    // around every multiple of 2^16 and every half
    let mut k = lo.div_euclid(1 << 15) * (1 << 15);
    while k <= hi + (1 << 15) {
        for d in -2..=2 {
            v.push(k + d);
        }
        k += 1 << 15;
    }
    // powers of two and of ten (and their negatives) +-1
    for e in 0..31 {
        for sgn in [-1i64, 1] {
            for d in -1..=1 {
                v.push(sgn * (1i64 << e) + d);
            }
        }
    }
    let mut p = 1i64;
    while p < (1 << 31) {
        for sgn in [-1i64, 1] {
            for d in -1..=1 {
                v.push(sgn * p + d);
            }
        }
        p *= 10;
    }
    v.retain(|x| *x >= lo && *x <= hi);
    v.sort();
    v.dedup();
    v
}

pub fn roundtrip_chunk(idx: u64, obs: &mut Obs) {
    let lo = -m::MAX_DIMEN + idx as i64 * CHUNK;
    let hi = (lo + CHUNK - 1).min(m::MAX_DIMEN);
    if lo > hi {
        return;
    }
    let thorough = obs.tier == Tier::Thorough;
    let stride = if thorough { 1 } else { QUICK_STRIDE };
    let offset = if thorough {
        0
    } else {
        (obs.seed % QUICK_STRIDE as u64) as i64
    };
    let mut rt = RoundTrip {
        text: String::with_capacity(32),
        model: String::with_capacity(32),
        values: 0,
        by_digits: [0; 6],
        negatives: 0,
        parse_neg_known: 0,
    };
    // strided (or complete) sweep; a panic names the value it happened on and the sweep goes on
    let mut next = lo + (offset - lo).rem_euclid(stride);
    while next <= hi {
        let cur = Cell::new(next);
        let r = vcore::catch(|| {
            let mut s = next;
            while s <= hi {
                cur.set(s);
                rt.check(s as i32, obs);
                s += stride;
            }
        });
        match r {
            Ok(()) => break,
            Err(p) => {
                report_panic(obs, &p, json!({"s": cur.get(), "while": "print/parse round trip"}));
                next = cur.get() + stride;
            }
        }
    }
    let swept = rt.values;
    if !thorough {
        for b in chunk_boundaries(lo, hi) {
            let r = vcore::catch(|| rt.check(b as i32, obs));
            if let Err(p) = r {
                report_panic(obs, &p, json!({"s": b, "while": "print/parse round trip"}));
            }
            obs.count("roundtrip:boundary_values");
        }
    }
    obs.add("roundtrip:values", rt.values);
    obs.add("roundtrip:negative_values", rt.negatives);
    for (k, n) in rt.by_digits.iter().enumerate() {
        if *n > 0 {
            obs.add(&format!("roundtrip:fraction_digits={k}"), *n);
        }
    }
    if rt.parse_neg_known > 0 {
        obs.add("roundtrip:known_parse_from_string_negative", rt.parse_neg_known);
    }
    obs.nontrivial_by_construction(swept);
    if obs.wants_sample() {
        let s = (lo + (hi - lo) / 3) as i32;
        obs.sample(json!({
            "chunk": [lo, hi], "values_checked": rt.values,
            "example": {"s": s, "display": format!("{}", Scaled(s)),
                        "parse_no_units": format!("{:?}", Scaled::parse_no_units(&format!("{}", Scaled(s).display_no_units())))},
        }));
    }
}

// ------------------------------------------------------------------------------------------

fn hostile_n(rng: &mut Rng) -> i64 {
    match rng.below(4) {
        0 => *rng.pick(&[0i64, 1, 2, 12, 1238, 7227, 14856, 32767, 32768, 65535, 65536]),
        _ => rng.below(65537) as i64,
    }
}

fn hostile_d(rng: &mut Rng) -> i64 {
    match rng.below(4) {
        0 => *rng.pick(&[1i64, 2, 100, 254, 1157, 2540, 7200, 32767, 32768, 65535, 65536]),
        _ => rng.below(65536) as i64 + 1,
    }
}

fn order(rng: &mut Rng) -> GlueOrder {
    *rng.pick(&[
        GlueOrder::Normal,
        GlueOrder::Normal,
        GlueOrder::Fil,
        GlueOrder::Fill,
        GlueOrder::Filll,
    ])
}

fn hostile_glue(rng: &mut Rng) -> Glue {
    let amt = |rng: &mut Rng| -> i32 {
        if rng.chance(1, 4) {
            0
        } else {
            rng.i32_hostile()
        }
    };
    Glue {
        width: Scaled(amt(rng)),
        stretch: Scaled(amt(rng)),
        stretch_order: order(rng),
        shrink: Scaled(amt(rng)),
        shrink_order: order(rng),
    }
}

fn unit_of(i: usize) -> (ScaledUnit, &'static str, i64, i64) {
    match i {
        0 => (ScaledUnit::Point, "pt", 1, 1),
        1 => (ScaledUnit::Inch, "in", 7227, 100),
        2 => (ScaledUnit::Pica, "pc", 12, 1),
        3 => (ScaledUnit::Centimeter, "cm", 7227, 254),
        4 => (ScaledUnit::Millimeter, "mm", 7227, 2540),
        5 => (ScaledUnit::BigPoint, "bp", 7227, 7200),
        6 => (ScaledUnit::DidotPoint, "dd", 1238, 1157),
        7 => (ScaledUnit::Cicero, "cc", 14856, 1157),
        _ => (ScaledUnit::ScaledPoint, "sp", 0, 0),
    }
}

/// `Scaled::new(int, f, unit)` against §458.
fn check_new(obs: &mut Obs, int: i64, f: i64, unit: usize) {
    let (u, name, num, denom) = unit_of(unit);
    let expect = if name == "sp" {
        if int >= 1 << 30 {
            None
        } else {
            Some(int)
        }
    } else {
        debug_assert_eq!(m::PHYSICAL_UNITS.iter().find(|x| x.0 == name).map(|x| (x.1, x.2)), Some((num, denom)));
        m::physical_unit_to_sp(int, f, num, denom)
    };
    let got = vcore::catch(|| Scaled::new(int as i32, Scaled(f as i32), u));
    obs.count("fn:Scaled::new");
    match got {
        Err(p) => report_panic(obs, &p, json!({"fn": "Scaled::new", "int": int, "f": f, "unit": name})),
        Ok(r) => {
            let r = r.ok().map(|s| s.0 as i64);
            if expect.is_none() {
                obs.count("fn:Scaled::new:overflow");
            }
            if r != expect {
                obs.violation(
                    format!("fn:Scaled::new:{name}"),
                    json!({"int": int, "f": f, "unit": name, "got": r, "tex": expect}),
                );
            }
        }
    }
}

pub fn arith_case(rng: &mut Rng, obs: &mut Obs) {
    let iters = 1500;
    obs.nontrivial(&rng.clone().next_u64());
    // ---- xn_over_d §107
    for _ in 0..iters {
        let x = rng.i32_hostile() as i64;
        let n = hostile_n(rng);
        let d = hostile_d(rng);
        let mut a = m::Arith::default();
        let q = m::xn_over_d(&mut a, x, n, d);
        let (q2, r2, e2) = m::xn_over_d_exact(x, n, d);
        if a.arith_error != e2 || (!e2 && (q != q2 || a.remainder != r2)) {
            obs.inconclusive(format!("model: two formulations of xn_over_d({x},{n},{d}) disagree"));
            continue;
        }
        obs.count("fn:xn_over_d");
        if e2 {
            obs.count("fn:xn_over_d:overflow");
        }
        let got = vcore::catch(|| Scaled(x as i32).xn_over_d(n as i32, d as i32));
        match got {
            Err(p) => report_panic(obs, &p, json!({"fn": "xn_over_d", "x": x, "n": n, "d": d})),
            Ok(r) => {
                if a.ambiguous {
                    obs.count("fn:ambiguous_min_int(no-crash-only)");
                    continue;
                }
                let ok = match r {
                    Err(_) => e2,
                    Ok((Scaled(gq), Scaled(gr))) => !e2 && gq as i64 == q && gr as i64 == r2,
                };
                if !ok {
                    obs.violation(
                        "fn:xn_over_d",
                        json!({"x": x, "n": n, "d": d, "got": format!("{r:?}"),
                               "tex": {"quotient": q, "remainder": r2, "arith_error": e2}}),
                    );
                }
            }
        }
    }
    // ---- nx_plus_y §105
    for _ in 0..iters {
        let x = rng.i32_hostile() as i64;
        let n = match rng.below(3) {
            0 => rng.range_i64(-20, 20),
            _ => rng.i32_hostile() as i64,
        };
        let y = (rng.i32_hostile() as i64).clamp(-m::MAX_DIMEN, m::MAX_DIMEN);
        let y = if rng.coin() { 0 } else { y };
        let mut a = m::Arith::default();
        let v = m::nx_plus_y(&mut a, n, x, y);
        obs.count("fn:nx_plus_y");
        if a.arith_error {
            obs.count("fn:nx_plus_y:overflow");
        }
        let got = vcore::catch(|| Scaled(x as i32).nx_plus_y(n as i32, Scaled(y as i32)));
        match got {
            Err(p) => report_panic(obs, &p, json!({"fn": "nx_plus_y", "x": x, "n": n, "y": y})),
            Ok(r) => {
                if a.ambiguous {
                    obs.count("fn:ambiguous_min_int(no-crash-only)");
                    continue;
                }
                let ok = match r {
                    Err(_) => a.arith_error,
                    Ok(Scaled(g)) => !a.arith_error && g as i64 == v,
                };
                if !ok {
                    obs.violation(
                        "fn:nx_plus_y",
                        json!({"x": x, "n": n, "y": y, "got": format!("{r:?}"),
                               "tex": {"value": v, "arith_error": a.arith_error}}),
                    );
                }
            }
        }
    }
    // ---- from_decimal_digits §102
    for _ in 0..iters {
        let len = rng.range_usize(0, 17);
        let digits: Vec<u8> = match rng.below(6) {
            0 => vec![9; len],
            1 => {
                let mut v = vec![0; len];
                if len > 0 {
                    v[len - 1] = 1 + rng.below(9) as u8;
                }
                v
            }
            2 => {
                // exact midpoint (2k+1)/2^17 +- 1 ulp of the 17th digit
                let k = rng.below(65536) as u128;
                let mut v = (2 * k + 1) * 762_939_453_125u128;
                match rng.below(3) {
                    0 => v -= 1,
                    1 => v += 1,
                    _ => {}
                }
                format!("{v:017}").bytes().map(|b| b - b'0').collect()
            }
            _ => (0..len).map(|_| rng.below(10) as u8).collect(),
        };
        let tex = m::round_decimals(&digits);
        obs.count("fn:from_decimal_digits");
        let got = vcore::catch(|| Scaled::from_decimal_digits(&digits));
        match got {
            Err(p) => report_panic(obs, &p, json!({"fn": "from_decimal_digits", "digits": digits})),
            Ok(Scaled(g)) => {
                if g as i64 != tex {
                    obs.violation(
                        "fn:from_decimal_digits",
                        json!({"digits": digits, "got": g, "tex": tex}),
                    );
                }
            }
        }
    }
    // ---- Scaled::new §458
    for _ in 0..iters {
        let unit = rng.usize_below(9);
        let (_, name, num, denom) = unit_of(unit);
        let int = if name == "sp" {
            match rng.below(3) {
                0 => (1i64 << 30) + rng.range_i64(-3, 3),
                _ => rng.below(1 << 31) as i64,
            }
        } else {
            // threshold: first integer whose conversion reaches 2^14 pt
            let t = (16384 * denom + num - 1) / num;
            match rng.below(4) {
                0 => (t + rng.range_i64(-3, 3)).max(0),
                1 => rng.below(t as u64 + 1) as i64,
                2 => rng.below(1 << 31) as i64,
                _ => rng.below(100) as i64,
            }
        };
        let f = match rng.below(4) {
            0 => *rng.pick(&[0i64, 1, 32767, 32768, 65534, 65535, 65536]),
            _ => rng.below(65537) as i64,
        };
        check_new(obs, int, f, unit);
    }
    // ---- Glue: Display = print_spec §178; wrapping_add = §1239; checked_mul/div = §1240
    for _ in 0..iters / 3 {
        let r = hostile_glue(rng);
        let q = hostile_glue(rng);
        let (mr, mq) = (glue_of(&r), glue_of(&q));
        obs.count("fn:Glue::display");
        match vcore::catch(|| format!("{r}")) {
            Err(p) => report_panic(obs, &p, json!({"fn": "Glue::fmt", "glue": format!("{r:?}")})),
            Ok(text) => {
                let tex = m::print_spec(&mr);
                if text != tex {
                    obs.violation(
                        "fn:Glue::display",
                        json!({"glue": format!("{r:?}"), "display": text, "print_spec": tex}),
                    );
                }
            }
        }
        obs.count("fn:Glue::wrapping_add");
        match vcore::catch(|| r.wrapping_add(q)) {
            Err(p) => report_panic(obs, &p, json!({"fn": "Glue::wrapping_add"})),
            Ok(sum) => {
                let got = glue_of(&sum).canonical();
                let tex = m::add_glue_tex(mq, mr).canonical();
                let today = m::add_glue_today(mq, mr).canonical();
                if got == tex {
                } else if tex != today && got == today {
                    obs.count("fn:known:glue_add");
                    obs.known(
                        ID_GLUE_ADD,
                        json!({"register": format!("{r:?}"), "operand": format!("{q:?}"),
                               "got": format!("{sum:?}"), "tex": format!("{tex:?}")}),
                    );
                } else {
                    obs.violation(
                        "fn:Glue::wrapping_add",
                        json!({"register": format!("{r:?}"), "operand": format!("{q:?}"),
                               "got": format!("{sum:?}"), "tex": format!("{tex:?}")}),
                    );
                }
            }
        }
        let n = match rng.below(3) {
            0 => rng.range_i64(-5, 5),
            _ => rng.i32_hostile() as i64,
        };
        // multiply
        {
            let mut a = m::Arith::default();
            let tex = m::Glue {
                width: m::nx_plus_y(&mut a, mr.width, n, 0),
                stretch: m::nx_plus_y(&mut a, mr.stretch, n, 0),
                shrink: m::nx_plus_y(&mut a, mr.shrink, n, 0),
                ..mr
            };
            obs.count("fn:Glue::checked_mul");
            match vcore::catch(|| r.checked_mul(n as i32)) {
                Err(p) => report_panic(obs, &p, json!({"fn": "Glue::checked_mul", "glue": format!("{r:?}"), "n": n}),
                ),
                Ok(got) => {
                    if a.ambiguous {
                        obs.count("fn:ambiguous_min_int(no-crash-only)");
                    } else {
                        let ok = match got {
                            None => a.arith_error,
                            Some(g) => !a.arith_error && glue_of(&g).canonical() == tex.canonical(),
                        };
                        if !ok {
                            obs.violation(
                                "fn:Glue::checked_mul",
                                json!({"glue": format!("{r:?}"), "n": n, "got": format!("{got:?}"),
                                       "tex": format!("{tex:?}"), "arith_error": a.arith_error}),
                            );
                        }
                    }
                }
            }
        }
        // divide
        {
            let mut a = m::Arith::default();
            let tex = m::Glue {
                width: m::x_over_n(&mut a, mr.width, n),
                stretch: m::x_over_n(&mut a, mr.stretch, n),
                shrink: m::x_over_n(&mut a, mr.shrink, n),
                ..mr
            };
            obs.count("fn:Glue::checked_div");
            match vcore::catch(|| r.checked_div(n as i32)) {
                Err(p) => report_panic(obs, &p, json!({"fn": "Glue::checked_div", "glue": format!("{r:?}"), "n": n}),
                ),
                Ok(got) => {
                    if a.ambiguous {
                        obs.count("fn:ambiguous_min_int(no-crash-only)");
                    } else {
                        let ok = match got {
                            None => a.arith_error,
                            Some(g) => !a.arith_error && glue_of(&g).canonical() == tex.canonical(),
                        };
                        if !ok {
                            obs.violation(
                                "fn:Glue::checked_div",
                                json!({"glue": format!("{r:?}"), "n": n, "got": format!("{got:?}"),
                                       "tex": format!("{tex:?}"), "arith_error": a.arith_error}),
                            );
                        }
                    }
                }
            }
        }
    }
    if obs.wants_sample() {
        let x = rng.i32_hostile();
        obs.sample(json!({
            "xn_over_d": {"x": x, "n": 7227, "d": 100,
                          "got": format!("{:?}", vcore::catch(|| Scaled(x).xn_over_d(7227, 100)).ok())},
        }));
    }
}

/// fn_units: 8 physical units x 8 slices. Integer parts 0..7400 (every remainder of i*num mod
/// denom occurs) and +-60 around the unit's overflow threshold, x boundary fractions.
pub const UNIT_SLICES: u64 = 8;
pub const UNIT_INT_RANGE: i64 = 7400;

pub fn units_case(idx: u64, rng: &mut Rng, obs: &mut Obs) {
    let unit = (idx / UNIT_SLICES) as usize;
    let slice = (idx % UNIT_SLICES) as i64;
    let (_, _, num, denom) = unit_of(unit);
    let fracs: [i64; 10] = [0, 1, 2, 3277, 32767, 32768, 32769, 65534, 65535, 65536];
    let t = (16384 * denom + num - 1) / num;
    let mut ints: Vec<i64> = (0..UNIT_INT_RANGE).filter(|i| i % UNIT_SLICES as i64 == slice).collect();
    ints.extend((t - 60..=t + 60).filter(|i| *i >= UNIT_INT_RANGE && i % UNIT_SLICES as i64 == slice));
    let mut n = 0;
    for int in ints {
        for f in fracs {
            check_new(obs, int, f, unit);
            n += 1;
        }
        for _ in 0..4 {
            check_new(obs, int, rng.below(65536) as i64, unit);
        }
    }
    obs.nontrivial_by_construction(n);
}
