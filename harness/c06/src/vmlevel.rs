//! VM-level layer: statements are executed one at a time by a real texlang VM (harness state
//! `VState`, `\nonstopmode`); before each statement the registers are read directly from the VM
//! state and handed to the model, after it the registers, the text of `\the<register>` and the
//! recovered errors are compared with the model's prediction.

use vcore::{json, Obs, Value};
use vmodels::texarith as m;
use vstate::texlang::vm;
use vstate::{Event, VState, VmOptions};

pub const ID_MULT: &str = "C06-multiply-accepts-min-int";
pub const ID_GLUE_ADD: &str = "C06-glue-advance-zero-stretch-order";
pub const ID_INTERNAL_DIMEN: &str = "C06-internal-dimen-not-range-checked";
pub const ID_CLAMP_SIGN: &str = "C06-internal-unit-overflow-clamp-sign";
pub const ID_FIL_CARRY: &str = "C06-fil-fraction-carry-unchecked";
pub const ID_FIL_L_SPACE: &str = "C06-fil-l-space";
pub const DEVIATION_IDS: [&str; 6] = [ID_MULT, ID_GLUE_ADD, ID_INTERNAL_DIMEN, ID_CLAMP_SIGN, ID_FIL_CARRY, ID_FIL_L_SPACE];

/// Panic signatures for this property: `panic@<repo file>::* [message]`.
///
/// vcore attributes a panic to the innermost backtrace frame located in /repo and caches that per
/// panic site. Here the same sites are reached both through the VM and through direct calls that
/// get inlined into the harness (no repo frame at all), and the overflow panics of `abs`/`neg`
/// share one library location between several repo callers - the attribution would depend on
/// which came first in a worker. The file of the panic location itself (when it is a repo file,
/// else the file vcore found) plus the message is stable; the function is dropped.
pub fn report_panic(obs: &mut Obs, p: &vcore::PanicInfo, detail: Value) {
    let mut q = p.clone();
    if !p.budget {
        if let Some(pos) = p.file.find("/repo/crates/") {
            q.repo_file = p.file[pos + 6..].to_string();
            q.in_harness = false;
        }
        if !q.repo_file.is_empty() {
            q.repo_function = "*".to_string();
        }
    }
    obs.repo_panic(&q, detail);
}

pub struct Runner {
    vm: Option<Box<vm::VM<VState>>>,
    pub vms_built: u64,
}

#[derive(Clone, Copy, Debug, PartialEq, Eq, Hash, PartialOrd, Ord)]
pub enum ErrClass {
    NumberTooBig,
    DimensionTooLarge,
    OverflowMultiply,
    OverflowDivide,
    IllegalFilll,
    Unrecognised,
}

/// Titles of the implementation's recoverable errors, by class. A title that matches none is
/// `Unrecognised` (never a violation by itself: rewording a message is not a defect).
pub fn classify_title(title: &str) -> ErrClass {
    if title.contains("a number in the range") {
        ErrClass::NumberTooBig
    } else if title.contains("a dimension in the range") {
        ErrClass::DimensionTooLarge
    } else if title.contains("overflow in checked multiplication") {
        ErrClass::OverflowMultiply
    } else if title.contains("division by zero") {
        ErrClass::OverflowDivide
    } else if title.contains("too many l characters") {
        ErrClass::IllegalFilll
    } else {
        ErrClass::Unrecognised
    }
}

fn class_of(e: m::ErrKind) -> ErrClass {
    match e {
        m::ErrKind::NumberTooBig => ErrClass::NumberTooBig,
        m::ErrKind::DimensionTooLarge => ErrClass::DimensionTooLarge,
        m::ErrKind::OverflowMultiply => ErrClass::OverflowMultiply,
        m::ErrKind::OverflowDivide => ErrClass::OverflowDivide,
        m::ErrKind::IllegalFilll => ErrClass::IllegalFilll,
    }
}

fn order_of(o: common::GlueOrder) -> m::Order {
    match o {
        common::GlueOrder::Normal => m::Order::Normal,
        common::GlueOrder::Fil => m::Order::Fil,
        common::GlueOrder::Fill => m::Order::Fill,
        common::GlueOrder::Filll => m::Order::Filll,
    }
}

pub fn glue_of(g: &common::Glue) -> m::Glue {
    m::Glue {
        width: g.width.0 as i64,
        stretch: g.stretch.0 as i64,
        stretch_order: order_of(g.stretch_order),
        shrink: g.shrink.0 as i64,
        shrink_order: order_of(g.shrink_order),
    }
}

pub fn read_regs(vm: &vm::VM<VState>) -> m::Regs {
    let mut r = m::Regs::default();
    let c = vm.state.registers_i32.values();
    let d = vm.state.registers_scaled.values();
    let s = vm.state.registers_glue.values();
    for i in 0..m::NREGS {
        r.count[i] = c[i] as i64;
        r.dimen[i] = d[i].0 as i64;
        r.skip[i] = glue_of(&s[i]);
    }
    r
}

pub fn canonical_regs(r: &m::Regs) -> m::Regs {
    canonical(r)
}

fn canonical(r: &m::Regs) -> m::Regs {
    let mut r = r.clone();
    for g in r.skip.iter_mut() {
        *g = g.canonical();
    }
    r
}

fn regs_json(r: &m::Regs) -> Value {
    json!({
        "count": r.count.to_vec(),
        "dimen": r.dimen.to_vec(),
        "skip": r.skip.iter().map(|g| format!("{g:?}")).collect::<Vec<_>>(),
    })
}

/// What the real VM did with one statement.
#[derive(Debug, Clone)]
pub struct Observed {
    pub regs: m::Regs,
    pub out: String,
    pub errors: Vec<String>,
    pub fatal: Option<String>,
}

/// Which register a statement's `\the` should print: found by a light scan of the text for the
/// first `\count|\dimen|\skip` after an optional `\advance|\multiply|\divide`; the register
/// number itself comes from the model (it scanned the number properly).
#[derive(Clone, Copy, Debug)]
pub struct Target {
    pub kind: m::Kind,
    pub reg: usize,
}

pub fn kind_name(k: m::Kind) -> &'static str {
    match k {
        m::Kind::Count => "count",
        m::Kind::Dimen => "dimen",
        m::Kind::Skip => "skip",
    }
}

/// Statement classes for signatures and counters.
pub fn statement_class(text: &str) -> (&'static str, &'static str) {
    let (op, rest) = if let Some(r) = text.strip_prefix("\\advance") {
        ("advance", r)
    } else if let Some(r) = text.strip_prefix("\\multiply") {
        ("multiply", r)
    } else if let Some(r) = text.strip_prefix("\\divide") {
        ("divide", r)
    } else {
        ("assign", text)
    };
    let kind = if rest.starts_with("\\count") {
        "count"
    } else if rest.starts_with("\\dimen") {
        "dimen"
    } else if rest.starts_with("\\skip") {
        "skip"
    } else {
        "other"
    };
    (op, kind)
}

impl Runner {
    pub fn new() -> Runner {
        Runner {
            vm: None,
            vms_built: 0,
        }
    }

    fn ensure_vm(&mut self, obs: &mut Obs) -> bool {
        if self.vm.is_some() {
            return true;
        }
        let built = vcore::catch(|| {
            let opts = VmOptions {
                budget: 50_000_000,
                ..Default::default()
            };
            let mut vm = vstate::new_vm(&opts);
            let o = vstate::run(&mut vm, "init.tex", "\\nonstopmode\\relax");
            (vm, o)
        });
        match built {
            Ok((vm, o)) if o.is_ok() => {
                self.vm = Some(vm);
                self.vms_built += 1;
                obs.count("vm:built");
                true
            }
            Ok((_, o)) => {
                obs.inconclusive(format!("could not initialise the VM: {o:?}"));
                false
            }
            Err(p) => {
                report_panic(obs, &p, json!({"while": "building the VM"}));
                false
            }
        }
    }

    pub fn discard_vm(&mut self) {
        self.vm = None;
    }

    /// Run raw source without any check (set-up of the fixed reproducers: `\def`).
    pub fn run_unchecked(&mut self, obs: &mut Obs, source: &str) -> bool {
        if !self.ensure_vm(obs) {
            return false;
        }
        let vm = self.vm.as_mut().unwrap();
        let r = vcore::catch(|| vstate::run(vm, "setup.tex", source));
        vstate::take_out(vm);
        vstate::take_events(vm);
        match r {
            Ok(o) if o.is_ok() => true,
            Ok(o) => {
                obs.inconclusive(format!("set-up source failed: {o:?}"));
                self.vm = None;
                false
            }
            Err(p) => {
                report_panic(obs, &p, json!({"source": source}));
                self.vm = None;
                false
            }
        }
    }

    pub fn regs(&mut self, obs: &mut Obs) -> Option<m::Regs> {
        if !self.ensure_vm(obs) {
            return None;
        }
        Some(read_regs(self.vm.as_ref().unwrap()))
    }

    /// Execute `text\relax\the\<kind><reg>` on the VM. `Err` = the VM panicked (reported; the VM
    /// is discarded).
    fn execute(
        &mut self,
        obs: &mut Obs,
        text: &str,
        target: Target,
        detail: &Value,
    ) -> Result<Observed, ()> {
        let vm = self.vm.as_mut().unwrap();
        let source = format!("{text}\\relax\\the\\{}{}", kind_name(target.kind), target.reg);
        let rec0 = vm.state.mon.recovered.get();
        let r = vcore::catch(|| vstate::run(vm, "s.tex", &source));
        match r {
            Err(p) => {
                let mut d = detail.clone();
                if let Value::Object(mm) = &mut d {
                    mm.insert("source".into(), json!(source));
                }
                if p.budget {
                    obs.inconclusive("step budget exceeded while running a statement");
                } else {
                    obs.count("vm:panics");
                    report_panic(obs, &p, d);
                }
                self.vm = None;
                Err(())
            }
            Ok(outcome) => {
                let out = vstate::take_out(vm);
                let events = vstate::take_events(vm);
                let errors: Vec<String> = events
                    .into_iter()
                    .filter_map(|e| match e {
                        Event::Recovered(t) => Some(t),
                        _ => None,
                    })
                    .collect();
                let n = vm.state.mon.recovered.get() - rec0;
                debug_assert_eq!(n as usize, errors.len());
                let regs = read_regs(vm);
                let fatal = outcome.err_title().map(|s| s.to_string());
                if fatal.is_some() {
                    // the source stack may still hold the rest of the line
                    self.vm = None;
                }
                Ok(Observed {
                    regs,
                    out,
                    errors,
                    fatal,
                })
            }
        }
    }

    /// Fixed reproducers without a deviation model: execute and hand back the observation.
    pub fn run_special(&mut self, obs: &mut Obs, text: &str, target: Target) -> Option<Observed> {
        if !self.ensure_vm(obs) {
            return None;
        }
        self.execute(obs, text, target, &json!({"statement": text})).ok()
    }

    /// Check one statement (text without the final `\relax`). Returns false if the VM had to be
    /// discarded (panic / fatal error), so that callers may re-establish their set-up.
    pub fn check_statement(&mut self, obs: &mut Obs, text: &str, phase_tag: &str) -> bool {
        self.check_tokens(obs, text, None, phase_tag)
    }

    /// As `check_statement`; `model_tokens` overrides the token list handed to the model (used by
    /// fixed reproducers whose VM text involves macros).
    pub fn check_tokens(
        &mut self,
        obs: &mut Obs,
        text: &str,
        model_tokens: Option<Vec<m::Tok>>,
        phase_tag: &str,
    ) -> bool {
        if !self.ensure_vm(obs) {
            return false;
        }
        let pre = read_regs(self.vm.as_ref().unwrap());
        let (op, kind_s) = statement_class(text);
        let class = format!("{op}:{kind_s}");
        // ---- the model, all deviation switches off = TeX
        let run_model = |dev: m::Deviations| -> Result<m::StatementResult, m::Ood> {
            let toks = match &model_tokens {
                Some(t) => t.clone(),
                None => m::lex(&format!("{text}\\relax"))?,
            };
            let mut mach = m::Machine::new(toks, pre.clone(), dev);
            mach.do_register_command()?;
            let rest = mach.remaining();
            let mut leftover = String::new();
            if rest != [m::Tok::Cs("relax".into())] {
                // Something of the statement stays behind (TeX ended a constant at `8` after `'7`, a keyword was not
                // one, or - under the deviation that ends a fil unit at a blank - the rest of the unit): when that is
                // nothing but characters, the engine typesets them before the read-back and the prediction is complete.
                let chars_only = rest.last() == Some(&m::Tok::Cs("relax".into()))
                    && rest[..rest.len() - 1].iter().all(|t| matches!(t, m::Tok::Letter(_) | m::Tok::Other(_) | m::Tok::Space));
                if !chars_only {
                    return Err(m::Ood("tokens left over after the statement".into()));
                }
                for t in &rest[..rest.len() - 1] {
                    match t {
                        m::Tok::Letter(c) | m::Tok::Other(c) => leftover.push(*c as char),
                        _ => leftover.push(' '),
                    }
                }
            }
            Ok(m::StatementResult {
                regs: mach.regs.clone(),
                errors: mach.errors.clone(),
                ambiguous: mach.arith.ambiguous,
                fired: mach.fired,
                seen: mach.seen.clone(),
                leftover,
            })
        };
        let tex = match run_model(m::Deviations::default()) {
            Ok(r) => r,
            Err(m::Ood(reason)) => {
                obs.count("vm:skipped_out_of_domain");
                let short: String = reason.chars().take(40).collect();
                obs.skip(&format!("model:{short}"));
                return true;
            }
        };
        let Some(target) = target_of(text) else {
            obs.inconclusive(format!("cannot find the target register of {text:?}"));
            return true;
        };
        let detail = json!({
            "statement": text,
            "registers_before": regs_json(&pre),
        });
        obs.count("vm:statements");
        obs.count(&format!("vm:{phase_tag}:{class}"));
        let observed = match self.execute(obs, text, target, &detail) {
            Ok(o) => o,
            Err(()) => return false,
        };
        record_seen(obs, &tex.seen);
        if tex.ambiguous {
            // TeX itself is implementation-defined here (negation of -2^31): only "no crash"
            obs.count("vm:ambiguous_min_int(no-crash-only)");
            return observed.fatal.is_none();
        }
        obs.nontrivial(&(text, &pre.count, &pre.dimen, format!("{:?}", pre.skip)));
        for e in &tex.errors {
            obs.count(&format!("vm:expected_error:{e:?}"));
        }
        if tex.errors.is_empty() {
            obs.count("vm:statements_without_error");
        }
        let verdict = compare(&tex, &observed, target);
        if verdict.is_empty() {
            obs.count("vm:agree");
            if obs.wants_sample() {
                obs.sample(json!({
                    "statement": text,
                    "registers_before": regs_json(&pre),
                    "the": observed.out,
                    "recovered_errors": observed.errors,
                    "model_errors": format!("{:?}", tex.errors),
                }));
            }
            return observed.fatal.is_none();
        }
        // ---- C06-fil-l-space with consequences outside the model: the engine ended a fil unit at a blank and what is left
        // of the statement is more than characters (a `minus` part, a register, ...), which it then *executes*. The
        // deviation model cannot predict that; while the finding is listed the case is skipped and counted. (Cases
        // whose left-over is characters only are predicted exactly and attributed below.)
        if tex.fired & 32 != 0 {
            let dev = m::Deviations::from_mask(32);
            if matches!(run_model(dev), Err(m::Ood(ref why)) if why.starts_with("tokens left over")) {
                obs.skip("hits-C06-fil-l-space(rest-of-statement-executed,not-modelled)");
                return observed.fatal.is_none();
            }
        }
        // ---- deviation models: smallest set of switched rules that explains the observation
        let mut masks: Vec<u32> = (1..(1 << m::N_DEVIATIONS)).collect();
        masks.sort_by_key(|m| m.count_ones());
        for mask in masks {
            let Ok(dev) = run_model(m::Deviations::from_mask(mask)) else {
                continue;
            };
            if dev.fired & mask != mask {
                continue; // a switched rule was not reached: a smaller mask covers this
            }
            if dev.ambiguous {
                continue;
            }
            if compare(&dev, &observed, target).is_empty() {
                for (i, id) in DEVIATION_IDS.iter().enumerate() {
                    if mask & (1 << i) != 0 {
                        obs.known(
                            id,
                            json!({
                                "statement": text,
                                "registers_before": regs_json(&pre),
                                "observed": {"the": observed.out, "errors": observed.errors,
                                             "registers_after": regs_json(&observed.regs)},
                                "tex": {"the": m::the_register(&tex.regs, target.kind, target.reg),
                                        "errors": format!("{:?}", tex.errors),
                                        "registers_after": regs_json(&tex.regs)},
                            }),
                        );
                        obs.count(&format!("vm:known:{id}"));
                    }
                }
                return observed.fatal.is_none();
            }
        }
        obs.violation(
            format!("vm:{class}:{}", verdict.join("+")),
            json!({
                "statement": text,
                "registers_before": regs_json(&pre),
                "observed": {"the": observed.out, "errors": observed.errors, "fatal": observed.fatal,
                             "registers_after": regs_json(&observed.regs)},
                "tex": {"the": m::the_register(&tex.regs, target.kind, target.reg),
                        "errors": format!("{:?}", tex.errors),
                        "registers_after": regs_json(&tex.regs)},
                "deviation_rules_reached": tex.fired,
            }),
        );
        observed.fatal.is_none()
    }
}

/// The aspects in which the observation differs from a model prediction (empty = agreement).
fn compare(model: &m::StatementResult, obs: &Observed, target: Target) -> Vec<&'static str> {
    let mut v = vec![];
    if let Some(_f) = &obs.fatal {
        v.push("fatal-error");
    }
    if canonical(&model.regs) != canonical(&obs.regs) {
        v.push("register-value");
    }
    let the = m::the_register(&model.regs, target.kind, target.reg);
    if model.leftover.is_empty() {
        if the != obs.out {
            v.push("the-text");
        }
    } else {
        // left-over characters are typeset before the read-back; inter-word spacing is not part of the prediction
        let squeeze = |s: &str| s.chars().filter(|c| *c != ' ').collect::<String>();
        if squeeze(&format!("{}{the}", model.leftover)) != squeeze(&obs.out) {
            v.push("the-text");
        }
    }
    if model.errors.len() != obs.errors.len() {
        v.push("error-count");
    } else {
        for (e, t) in model.errors.iter().zip(obs.errors.iter()) {
            let c = classify_title(t);
            if c != ErrClass::Unrecognised && c != class_of(*e) {
                v.push("error-class");
                break;
            }
        }
    }
    v
}

/// Textual target: `[\advance|\multiply|\divide]\<kind><number>`; the number forms the
/// generators use are decimal, 'octal, "hex with optional spaces/zeros.
pub fn target_of(text: &str) -> Option<Target> {
    let (_, kind_s) = statement_class(text);
    let kind = match kind_s {
        "count" => m::Kind::Count,
        "dimen" => m::Kind::Dimen,
        "skip" => m::Kind::Skip,
        _ => return None,
    };
    let pos = text.find(kind_s)? + kind_s.len();
    // scan the register number with the model's own scanner
    let rest = &text[pos..];
    let toks = m::lex(&format!("{rest}\\relax")).ok()?;
    let mut mach = m::Machine::new(toks, m::Regs::default(), m::Deviations::default());
    let n = mach.scan_int().ok()?;
    if n < 0 || n >= m::NREGS as i64 {
        return None;
    }
    Some(Target {
        kind,
        reg: n as usize,
    })
}

fn record_seen(obs: &mut Obs, s: &m::Seen) {
    let mut add = |name: &str, n: u32| {
        if n > 0 {
            obs.add(name, n as u64);
        }
    };
    add("seen:radix8", s.radix8);
    add("seen:radix10", s.radix10);
    add("seen:radix16", s.radix16);
    add("seen:alphabetic_char", s.alpha_char);
    add("seen:alphabetic_cs", s.alpha_cs);
    add("seen:negative_sign_strings", s.negative_signs);
    add("seen:multi_sign_strings", s.multi_signs);
    add("seen:fractions", s.fractions);
    add("seen:fractions_over_17_digits", s.fraction_over_17);
    add("seen:comma_as_point", s.comma_point);
    add("seen:internal_int", s.internal_int);
    add("seen:internal_dimen", s.internal_dimen);
    add("seen:internal_glue", s.internal_glue);
    add("seen:coerce_glue_to_dimen", s.coerce_glue_to_dimen);
    add("seen:coerce_dimen_to_int", s.coerce_dimen_to_int);
    add("seen:coerce_glue_to_int", s.coerce_glue_to_int);
    add("seen:int_as_dimen_factor", s.int_as_dimen_factor);
    add("seen:internal_unit", s.internal_unit);
    add("seen:the_expansions_inside_values", s.the_expansions);
    add("seen:wrapped_advance", s.wrapped_advance);
    if s.fraction_digits_max >= 20 {
        obs.count("seen:fraction_with_20_digits");
    }
    for u in &s.units {
        obs.count(&format!("seen:unit:{u}"));
    }
    for o in &s.fil_orders {
        obs.count(&format!("seen:fil_order:{o}"));
    }
}
