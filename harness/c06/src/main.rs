fn main() {
    vcore::run_main(&c06::MONITOR)
}
