//! Monitor for property C06 (see /verif/DESIGN.md §6): integers, dimensions and glue scan, print
//! and compute exactly as TeX does.
//!
//! Two layers. Function level: `common::Scaled`/`common::Glue` called directly (print/parse round
//! trip over every |s| <= 2^30-1, arithmetic helpers on boundary + random operands). VM level:
//! generated register commands executed one by one on a real texlang VM in `\nonstopmode`; the
//! registers are read from the VM state before and after each statement and the model
//! (`vmodels::texarith`, a transcription of the relevant sections of tex.web working on tokens)
//! predicts register values, the text of `\the`, and the recovered errors.

mod fnlevel;
mod gen;
mod vmlevel;

use vcore::*;
use vmodels::texarith as m;

pub struct M;
pub static MONITOR: M = M;

const STATEMENTS_PER_VM: u64 = 200;

impl Monitor for M {
    fn id(&self) -> &'static str {
        "C06"
    }

    fn rule(&self) -> String {
        "fn_roundtrip: idx = chunk of 2^20 consecutive scaled values s in [-(2^30-1), 2^30-1]; thorough visits every \
         value (the whole quantifier, exhaustive), quick every 257th (offset = seed mod 257) plus the values next to \
         multiples of 2^15, powers of 2 and 10 and the chunk ends; for each s: Display == print_scaled(§103) digit for \
         digit, parse_no_units and parse_from_string of the printed text return s; every value is distinct by \
         construction. fn_arith: idx seeds 1500 boundary-biased operand tuples for each of xn_over_d, nx_plus_y, \
         from_decimal_digits, Scaled::new and 500 glue pairs (Display, wrapping_add, checked_mul, checked_div). \
         fn_units: Scaled::new for each physical unit on integer parts 0..7399 and +-60 around the overflow threshold x \
         10 boundary fractions + 4 random ones. vm_pairs: idx = (operation, register kind, left operand a from the \
         30-value boundary set [, glue shape]); the register is set to a (through \\advance where a is beyond TeX's \
         limits) and the operation applied with every right operand b of the boundary set, as a constant and through \
         a register. vm_random: idx seeds 200 random register commands (constants in 4 radices with sign strings, \
         all units, 0-20 fraction digits incl. exact 17-digit midpoints, coercions, internal quantities as units, \
         round trips through \\the) run on one VM, state carried over. A VM statement is non-trivial if the model \
         accepts it as inside the quantifier and TeX's result is implementation independent; distinct = distinct \
         (statement text, registers before)."
            .into()
    }

    fn assumptions(&self) -> Vec<String> {
        vec![
            "The reference model (vmodels/src/texarith.rs) is our own transcription of tex.web §65, §102-107, §177-178, §407, §413, §429-431, §440-462, §1236-1240; no TeX binary exists in the sandbox. It is calibrated against the unit-test tables of crates/texlang/src/parse/{integer,dimen,glue}.rs, crates/texlang-stdlib/src/math.rs, TeXbook facts (1in=72.26999pt ...) and the decimals real TeX printed into crates/boxworks-knuthplass/testdata (each must be a fixed point of scan o print).".into(),
            "\\advance wraps modulo 2^32 (property statement). Where TeX's own algorithm would negate -2^31 (sign strings applied to, products and quotients of -2^31) TeX82 is implementation-defined: such cases are executed and only required not to crash.".into(),
            "em = ex = 12pt (TexlangState defaults; VState does not override them). `true` units, mu units and non-standard category codes are outside the quantifier and not generated.".into(),
            "The order of infinity of a zero stretch/shrink cannot be observed in TeX (\\the omits it, §1239 normalises it, trap_zero_glue); register values are compared after setting it to normal.".into(),
            "Recovered errors are counted through VState's recoverable_error_hook; their class is taken from the error title (unrecognised titles never raise a violation by themselves).".into(),
        ]
    }

    fn phases(&self, tier: Tier) -> Vec<Phase> {
        let rt = Phase::new("fn_roundtrip", fnlevel::N_CHUNKS).batch(8);
        let rt = if tier == Tier::Thorough {
            rt.exhaustive("all 2^31-1 scaled values s with |s| <= 2^30-1: Display = print_scaled, parse_no_units(Display(s)) = s, parse_from_string(Display(s)) = s")
        } else {
            rt
        };
        vec![
            Phase::new("known", known_cases().len() as u64).batch(1),
            rt,
            Phase::new("fn_units", 8 * fnlevel::UNIT_SLICES)
                .batch(4)
                .exhaustive("Scaled::new for 8 physical units x integer parts 0..7399 and +-60 around the overflow threshold x 10 boundary fractions"),
            Phase::new("fn_arith", tier.pick(400, 8000)).batch(8),
            Phase::new("vm_pairs", pairs_cases())
                .batch(4)
                .exhaustive("\\advance/\\multiply/\\divide on count, dimen, skip for all 30x30 operand pairs of the boundary set {0, +-1, +-2, +-3, +-(2^15-1..2^15+1), +-(2^16-1..2^16+1), +-(2^30-1..2^30+1), +-(2^31-2), +-(2^31-1), -2^31}"),
            Phase::new("vm_random", tier.pick(15_000, 400_000)).batch(16),
            // nearly valid constants that the big model declares out of its domain
            Phase::new("radix_fraction", tier.pick(4_000, 100_000)).batch(32),
            // hex digits A-F of category 12 (TeX §445 other_A_token): a separate path in the code under test
            Phase::new("hex_other", tier.pick(300, 6_000)).batch(8),
        ]
    }

    fn floors(&self, tier: Tier) -> Vec<(&'static str, u64)> {
        let q = tier == Tier::Quick;
        let f = |a: u64, b: u64| if q { a } else { b };
        vec![
            ("roundtrip:values", f(8_000_000, (1u64 << 31) - 1)),
            ("roundtrip:fraction_digits=1", f(50, 10_000)),
            ("roundtrip:fraction_digits=5", f(4_000_000, 1 << 30)),
            ("roundtrip:negative_values", f(4_000_000, (1 << 30) - 1)),
            ("fn:xn_over_d", f(100_000, 2_000_000)),
            ("fn:xn_over_d:overflow", f(1000, 20_000)),
            ("fn:nx_plus_y", f(100_000, 2_000_000)),
            ("fn:nx_plus_y:overflow", f(1000, 20_000)),
            ("fn:from_decimal_digits", f(100_000, 2_000_000)),
            ("fn:Scaled::new", f(1_000_000, 1_000_000)),
            ("fn:Scaled::new:overflow", f(10_000, 10_000)),
            ("fn:Glue::wrapping_add", f(50_000, 1_000_000)),
            ("hex_other:digits_of_category_other", f(10_000, 200_000)),
            ("vm:statements", f(2_500_000, 70_000_000)),
            ("vm:agree", f(2_300_000, 65_000_000)),
            ("vm:vm_pairs:advance:count", 1500),
            ("vm:vm_pairs:multiply:count", 1500),
            ("vm:vm_pairs:divide:count", 1500),
            ("vm:vm_pairs:advance:dimen", 1500),
            ("vm:vm_pairs:multiply:dimen", 1500),
            ("vm:vm_pairs:divide:dimen", 1500),
            ("vm:vm_pairs:advance:skip", 1500),
            ("vm:vm_pairs:multiply:skip", 1500),
            ("vm:vm_pairs:divide:skip", 1500),
            ("pairs:operand_pairs_realised", 7000),
            ("vm:expected_error:NumberTooBig", f(2000, 100_000)),
            ("vm:expected_error:DimensionTooLarge", f(5000, 250_000)),
            ("vm:expected_error:OverflowMultiply", f(2000, 50_000)),
            ("vm:expected_error:OverflowDivide", f(500, 10_000)),
            ("vm:expected_error:IllegalFilll", f(500, 10_000)),
            ("vm:statements_without_error", f(1_500_000, 40_000_000)),
            ("seen:radix8", f(5000, 250_000)),
            ("seen:radix16", f(5000, 250_000)),
            ("seen:alphabetic_char", f(500, 25_000)),
            ("seen:alphabetic_cs", f(500, 25_000)),
            ("seen:multi_sign_strings", f(5000, 250_000)),
            ("seen:fractions", f(30_000, 1_500_000)),
            ("seen:fractions_over_17_digits", f(1000, 50_000)),
            ("seen:fraction_with_20_digits", f(50, 2500)),
            ("seen:comma_as_point", f(2000, 100_000)),
            ("seen:unit:pt", f(5000, 250_000)),
            ("seen:unit:pc", f(1000, 50_000)),
            ("seen:unit:in", f(1000, 50_000)),
            ("seen:unit:bp", f(1000, 50_000)),
            ("seen:unit:cm", f(1000, 50_000)),
            ("seen:unit:mm", f(1000, 50_000)),
            ("seen:unit:dd", f(1000, 50_000)),
            ("seen:unit:cc", f(1000, 50_000)),
            ("seen:unit:sp", f(5000, 250_000)),
            ("seen:unit:em", f(1000, 50_000)),
            ("seen:unit:ex", f(1000, 50_000)),
            ("seen:fil_order:1", f(1000, 50_000)),
            ("seen:fil_order:2", f(1000, 50_000)),
            ("seen:fil_order:3", f(1000, 50_000)),
            ("seen:coerce_dimen_to_int", f(1000, 50_000)),
            ("seen:coerce_glue_to_int", f(1000, 50_000)),
            ("seen:coerce_glue_to_dimen", f(1000, 50_000)),
            ("seen:int_as_dimen_factor", f(1000, 50_000)),
            ("seen:internal_unit", f(3000, 150_000)),
            ("seen:the_expansions_inside_values", f(3000, 150_000)),
            ("seen:wrapped_advance", f(500, 10_000)),
        ]
    }

    fn calibrate(&self, obs: &mut Obs) {
        calibrate(obs);
    }

    fn run_case(&self, phase: &str, idx: u64, rng: &mut Rng, obs: &mut Obs) {
        match phase {
            "fn_roundtrip" => fnlevel::roundtrip_chunk(idx, obs),
            "fn_arith" => fnlevel::arith_case(rng, obs),
            "fn_units" => fnlevel::units_case(idx, rng, obs),
            "vm_pairs" => pairs_case(idx, rng, obs),
            "vm_random" => random_case(rng, obs),
            "known" => known_case(idx, obs),
            "radix_fraction" => radix_fraction_case(rng, obs),
            "hex_other" => hex_other_case(rng, obs),
            _ => obs.inconclusive(format!("unknown phase {phase}")),
        }
    }
}

// ------------------------------------------------------------------------------------------
// coverage-guided stage
// ------------------------------------------------------------------------------------------

/// Entry point of the libFuzzer target `c06_statements` (harness/vfuzz): the fuzzer's text, split into at most 8 lines,
/// each line one register statement checked by `Runner::check_statement` on a fresh VM - the same oracle as `vm_random`
/// (the transcription of TeX's scanning and arithmetic predicts registers, `\the` text and error classes; statements the
/// model does not cover are skipped).
pub fn fuzz_one(data: &[u8], obs: &mut Obs) {
    let Ok(text) = std::str::from_utf8(data) else {
        return;
    };
    let mut runner = vmlevel::Runner::new();
    for line in text.split('\n').take(8) {
        if line.is_empty() {
            continue;
        }
        runner.check_statement(obs, line, "fuzz");
    }
}

/// Seed corpus (generated statements, a few per input) and dictionary for the libFuzzer target.
pub fn fuzz_seeds() -> vcore::fuzzglue::Seeds {
    let mut inputs = vec![];
    for k in 0..600u64 {
        let mut rng = Rng::new(0xC06 + k);
        let n = rng.range_usize(1, 4);
        let v: Vec<String> = (0..n).map(|_| gen::Gen::new(&mut rng).statement()).collect();
        inputs.push(v.join("\n").into_bytes());
    }
    let dictionary = [
        "\\count", "\\dimen", "\\skip", "\\advance", "\\multiply", "\\divide", " by ", "=", "plus", "minus", "fil", "fill", "filll",
        "true", "pt", "pc", "in", "bp", "cm", "mm", "dd", "cc", "sp", "em", "ex", "mu", "-", "+", "\"", "'", "`", ".", ",", "16383.99999",
        "2147483647", "1073741823", "\"7FFFFFFF", "'17777777777", "32767", "65536", "\\relax", " ",
    ]
    .iter()
    .map(|s| s.to_string())
    .collect();
    vcore::fuzzglue::Seeds { inputs, dictionary }
}

// ------------------------------------------------------------------------------------------
// vm_random
// ------------------------------------------------------------------------------------------

fn random_case(rng: &mut Rng, obs: &mut Obs) {
    let mut runner = vmlevel::Runner::new();
    let mut texts: Vec<String> = vec![];
    for _ in 0..STATEMENTS_PER_VM {
        let text = gen::Gen::new(rng).statement();
        runner.check_statement(obs, &text, "vm_random");
        if obs.verbose {
            texts.push(text);
        }
    }
    if obs.verbose {
        println!("statements:\n{}", texts.join("\n"));
    }
}

// ------------------------------------------------------------------------------------------
// vm_pairs
// ------------------------------------------------------------------------------------------

const OPS: [&str; 3] = ["advance", "multiply", "divide"];
const SKIP_SHAPES: u64 = 4;

fn pairs_cases() -> u64 {
    let b = gen::boundary_set().len() as u64;
    // count, dimen: 3 ops x b; skip: 3 ops x b x shapes
    3 * b * 2 + 3 * b * SKIP_SHAPES
}

fn order_n(i: u64) -> m::Order {
    match i % 4 {
        0 => m::Order::Normal,
        1 => m::Order::Fil,
        2 => m::Order::Fill,
        _ => m::Order::Filll,
    }
}

/// Glue built around the boundary value `a`: the other components are other boundary values.
fn glue_around(b: &[i64], ai: usize, shape: u64) -> m::Glue {
    let n = b.len();
    match shape {
        0 => m::Glue {
            width: b[ai],
            stretch: 0,
            stretch_order: m::Order::Normal,
            shrink: 0,
            shrink_order: m::Order::Normal,
        },
        1 => m::Glue {
            width: b[(ai + 7) % n],
            stretch: b[ai],
            stretch_order: order_n(ai as u64),
            shrink: b[(ai + 13) % n],
            shrink_order: order_n(ai as u64 / 4),
        },
        2 => m::Glue {
            width: b[(ai + 3) % n],
            stretch: b[(ai + 11) % n],
            stretch_order: order_n(ai as u64 + 1),
            shrink: b[ai],
            shrink_order: order_n(ai as u64 + 2),
        },
        _ => m::Glue {
            width: b[ai],
            stretch: b[ai],
            stretch_order: order_n(ai as u64 / 2),
            shrink: b[ai],
            shrink_order: order_n(ai as u64 / 3 + 1),
        },
    }
}

fn pairs_case(idx: u64, rng: &mut Rng, obs: &mut Obs) {
    let b = gen::boundary_set();
    let nb = b.len() as u64;
    // decode idx
    let (kind, op, ai, shape) = if idx < 3 * nb * 2 {
        let kind = if idx < 3 * nb { m::Kind::Count } else { m::Kind::Dimen };
        let j = idx % (3 * nb);
        (kind, OPS[(j / nb) as usize], (j % nb) as usize, 0)
    } else {
        let j = idx - 3 * nb * 2;
        let shape = j % SKIP_SHAPES;
        let j = j / SKIP_SHAPES;
        (m::Kind::Skip, OPS[(j / nb) as usize], (j % nb) as usize, shape)
    };
    let a = b[ai];
    let mut runner = vmlevel::Runner::new();
    let kn = vmlevel::kind_name(kind);
    // right operands: the boundary set + 4 random values
    let mut rights: Vec<i64> = b.clone();
    for _ in 0..4 {
        rights.push(rng.i32_hostile() as i64);
    }
    for (bi, rb) in rights.iter().copied().enumerate() {
        // forms of the right operand: constant (if it can be written) and register 7
        for form in 0..2 {
            // left operand into register 1
            let a_glue = glue_around(&b, ai, shape);
            let setup: Vec<String> = match kind {
                m::Kind::Count => gen::set_count(1, a),
                m::Kind::Dimen => gen::set_dimen(1, a),
                m::Kind::Skip => gen::set_skip(1, &a_glue),
            };
            for s in &setup {
                runner.check_statement(obs, s, "vm_pairs_setup");
            }
            // right operand
            let b_glue = glue_around(&b, bi % b.len(), (shape + bi as u64) % SKIP_SHAPES);
            let b_glue = m::Glue { width: rb, ..b_glue };
            let operand: String;
            if op == "advance" {
                match kind {
                    m::Kind::Count => {
                        if form == 0 && rb != m::MIN32 {
                            operand = format!("{rb}");
                        } else {
                            for s in gen::set_count(7, rb) {
                                runner.check_statement(obs, &s, "vm_pairs_setup");
                            }
                            operand = "\\count7".into();
                        }
                    }
                    m::Kind::Dimen => {
                        if form == 0 && rb.abs() <= m::MAX_DIMEN {
                            operand = format!("{rb}sp");
                        } else {
                            for s in gen::set_dimen(7, rb) {
                                runner.check_statement(obs, &s, "vm_pairs_setup");
                            }
                            operand = "\\dimen7".into();
                        }
                    }
                    m::Kind::Skip => {
                        for s in gen::set_skip(7, &b_glue) {
                            runner.check_statement(obs, &s, "vm_pairs_setup");
                        }
                        operand = if form == 0 { "\\skip7".into() } else { "-\\skip7".into() };
                    }
                }
            } else if form == 0 && rb != m::MIN32 {
                operand = format!("{rb}");
            } else {
                for s in gen::set_count(7, rb) {
                    runner.check_statement(obs, &s, "vm_pairs_setup");
                }
                operand = "\\count7".into();
            }
            // did the set-up reach the intended operands?
            if let Some(regs) = runner.regs(obs) {
                let left_ok = match kind {
                    m::Kind::Count => regs.count[1] == a,
                    m::Kind::Dimen => regs.dimen[1] == a,
                    m::Kind::Skip => regs.skip[1].canonical() == a_glue.canonical(),
                };
                if left_ok {
                    obs.count("pairs:operand_pairs_realised");
                } else {
                    obs.count("pairs:left_operand_not_reached");
                }
            }
            let text = format!("\\{op}\\{kn}1 by {operand}");
            runner.check_statement(obs, &text, "vm_pairs");
        }
    }
}

// ------------------------------------------------------------------------------------------
// known: fixed reproducers
// ------------------------------------------------------------------------------------------

struct KnownCase {
    id: &'static str,
    /// run unchecked before the statements (macro definitions)
    setup: &'static str,
    /// statements checked through the ordinary pipeline (deviation models attribute them)
    statements: &'static [&'static str],
    /// for defects without a deviation model: (VM text, model text, output today)
    special: Option<(&'static str, &'static str, &'static str)>,
}

fn known_cases() -> Vec<KnownCase> {
    vec![
        KnownCase {
            id: vmlevel::ID_MULT,
            setup: "",
            statements: &["\\count1=-1073741824", "\\multiply\\count1 by 2"],
            special: None,
        },
        KnownCase {
            id: vmlevel::ID_GLUE_ADD,
            setup: "",
            statements: &["\\skip1=1pt plus 0fil", "\\advance\\skip1 by 0pt plus 1pt"],
            special: None,
        },
        KnownCase {
            id: vmlevel::ID_INTERNAL_DIMEN,
            setup: "",
            statements: &[
                "\\dimen2=16383.99998pt",
                "\\advance\\dimen2 by \\dimen2",
                "\\dimen1=\\dimen2",
            ],
            special: None,
        },
        KnownCase {
            id: vmlevel::ID_CLAMP_SIGN,
            setup: "",
            statements: &["\\dimen2=-1pt", "\\dimen1=20000\\dimen2"],
            special: None,
        },
        KnownCase {
            id: vmlevel::ID_FIL_CARRY,
            setup: "",
            statements: &["\\skip1=0pt plus 16383.99999999fil"],
            special: None,
        },
        KnownCase {
            id: "no-crash: internal integer -2^31 as the factor of a dimension (fixed in /repo f60ce3e)",
            setup: "",
            statements: &["\\count1=-2147483647", "\\advance\\count1 by -1", "\\dimen1=\\count1 sp"],
            special: None,
        },
        KnownCase {
            id: "no-crash: internal integer -2^31 as the factor of a glue width (fixed in /repo f60ce3e)",
            setup: "",
            statements: &["\\count1=-2147483647", "\\advance\\count1 by -1", "\\skip1=\\count1 sp"],
            special: None,
        },
        KnownCase {
            id: "C06-panic-negate-min-scaled",
            setup: "",
            statements: &["\\count2=-2147483647", "\\advance\\count2 by -1", "\\dimen1=1pt", "\\multiply\\dimen1 by \\count2"],
            special: None,
        },
        KnownCase {
            id: "C06-panic-multiply-sign-min-scaled",
            setup: "",
            statements: &[
                "\\dimen2=-16383.99998pt",
                "\\advance\\dimen2 by \\dimen2",
                "\\advance\\dimen2 by -2sp",
                "\\dimen1=-\\dimen2",
            ],
            special: None,
        },
        KnownCase {
            id: "C06-panic-internal-unit-fraction",
            setup: "",
            statements: &["\\dimen1=16383.99998pt", "\\advance\\dimen1 by \\dimen1", "\\dimen3=0.99999\\dimen1"],
            special: None,
        },
        KnownCase {
            id: "C06-fil-l-space",
            setup: "",
            statements: &[],
            // TeX §454: `while scan_keyword("l")` skips blanks before each l
            special: Some(("\\skip1=0pt plus 1fil l", "\\skip1=0pt plus 1fil l", "l0.0pt plus 1.0fil")),
        },
        KnownCase {
            id: "C06-keyword-after-several-spaces",
            setup: "\\def\\s{ }",
            statements: &[],
            // §407 scan_keyword skips any number of blanks before the keyword
            special: Some(("\\dimen1=1\\s\\s pt", "\\dimen1=1\\s\\s pt", "pt1.0pt")),
        },
        KnownCase {
            id: "C06-alphabetic-constant-expands",
            setup: "\\def\\a{xyz}",
            statements: &[],
            // §442 get_token: the token after ` is not expanded
            special: Some(("\\count1=`\\a ", "\\count1=`\\a ", "yz120")),
        },
    ]
}

fn known_case(idx: u64, obs: &mut Obs) {
    let cases = known_cases();
    let Some(c) = cases.get(idx as usize) else {
        return;
    };
    let mut runner = vmlevel::Runner::new();
    if !c.setup.is_empty() && !runner.run_unchecked(obs, c.setup) {
        return;
    }
    for s in c.statements {
        runner.check_statement(obs, s, "known");
    }
    if let Some((vm_text, model_text, today)) = c.special {
        // model tokens: `\s` stands for one space token (it is `\def\s{ }` in the VM)
        let toks = match m::lex(&format!("{model_text}\\relax")) {
            Ok(t) => t,
            Err(e) => {
                obs.inconclusive(format!("known case does not lex: {e:?}"));
                return;
            }
        };
        let toks: Vec<m::Tok> = toks
            .into_iter()
            .map(|t| if t == m::Tok::Cs("s".into()) { m::Tok::Space } else { t })
            .collect();
        let Some(pre) = runner.regs(obs) else { return };
        let mut mach = m::Machine::new(toks, pre.clone(), m::Deviations::default());
        if let Err(e) = mach.do_register_command() {
            obs.inconclusive(format!("known case rejected by the model: {e:?}"));
            return;
        }
        let Some(target) = vmlevel::target_of(model_text) else {
            obs.inconclusive("known case without target");
            return;
        };
        let tex_text = m::the_register(&mach.regs, target.kind, target.reg);
        let Some(observed) = runner.run_special(obs, vm_text, target) else {
            return;
        };
        obs.count("vm:statements");
        obs.nontrivial(&(vm_text, "known"));
        let tex_agrees = observed.out == tex_text
            && observed.errors.len() == mach.errors.len()
            && vmlevel::canonical_regs(&observed.regs) == vmlevel::canonical_regs(&mach.regs);
        if tex_agrees {
            obs.count("vm:agree");
        } else if observed.out == today {
            obs.known(
                c.id,
                json!({"setup": c.setup, "statement": vm_text, "observed": observed.out,
                       "observed_errors": observed.errors, "tex": tex_text}),
            );
        } else {
            obs.violation(
                format!("known:{}", c.id),
                json!({"setup": c.setup, "statement": vm_text, "observed": observed.out,
                       "observed_errors": observed.errors, "tex": tex_text,
                       "recorded_deviation": today}),
            );
        }
    }
}

// ------------------------------------------------------------------------------------------
// calibration
// ------------------------------------------------------------------------------------------

fn calibrate(obs: &mut Obs) {
    use m::ErrKind::*;
    // crates/texlang/src/parse/integer.rs (parse_success_tests / parse_failure_tests)
    let ints: &[(&str, i64, usize)] = &[
        ("'0", 0, 0),
        ("'17", 15, 0),
        ("'201", 129, 0),
        ("'17777777777", 2147483647, 0),
        ("-'17777777777", -2147483647, 0),
        ("00019", 19, 0),
        ("2147483647", 2147483647, 0),
        ("-2147483647", -2147483647, 0),
        ("\"1F", 31, 0),
        ("\"201", 513, 0),
        ("\"7FFFFFFF", 2147483647, 0),
        ("-\"7FFFFFFF", -2147483647, 0),
        ("`A", 65, 0),
        ("`\\A", 65, 0),
        ("+-4", -4, 0),
        ("--4", 4, 0),
        ("  -  - 4", 4, 0),
        ("'177777777770", 2147483647, 1),
        ("2147483648", 2147483647, 1),
        ("500000000000000", 2147483647, 1),
        ("-2147483648", -2147483647, 1),
        ("\"7FFFFFFF0", 2147483647, 1),
    ];
    for (text, want, nerr) in ints {
        match m::scan_int_text(text) {
            Ok((v, e)) if v == *want && e.len() == *nerr && e.iter().all(|k| *k == NumberTooBig) => {}
            other => obs.inconclusive(format!("calibration: scan_int({text:?}) = {other:?}, table says {want} with {nerr} errors")),
        }
    }
    // crates/texlang/src/parse/dimen.rs + TeXbook facts (chapter 10)
    let one = m::UNITY;
    let dimens: &[(&str, i64, usize)] = &[
        ("0pt", 0, 0),
        ("1pt", one, 0),
        ("-1pt", -one, 0),
        (".pt", 0, 0),
        ("0.5pt", 32768, 0),
        ("-1.5pt", -98304, 0),
        ("1in", one * 7227 / 100, 0),
        ("1 in", one * 7227 / 100, 0),
        ("0.075in", 355207, 0),
        ("1pc", one * 12, 0),
        ("1cm", one * 7227 / 254, 0),
        ("1mm", one * 7227 / 2540, 0),
        ("1bp", one * 7227 / 7200, 0),
        ("1dd", one * 1238 / 1157, 0),
        ("1cc", one * 14856 / 1157, 0),
        ("1sp", 1, 0),
        ("1.999999sp", 1, 0),
        ("16383.99998pt", m::MAX_DIMEN, 0),
        ("1073741823sp", m::MAX_DIMEN, 0),
        ("1073741823.99999999sp", m::MAX_DIMEN, 0),
        ("16384pt", m::MAX_DIMEN, 1),
        ("-16384pt", -m::MAX_DIMEN, 1),
        ("300in", m::MAX_DIMEN, 1),
        ("-300in", -m::MAX_DIMEN, 1),
        ("1073741824sp", m::MAX_DIMEN, 1),
        ("-1073741824sp", -m::MAX_DIMEN, 1),
        ("2em", 24 * one, 0),
        ("2.5 EX ", 30 * one, 0),
    ];
    for (text, want, nerr) in dimens {
        match m::scan_dimen_text(text) {
            Ok((v, e)) if v == *want && e.len() == *nerr && e.iter().all(|k| *k == DimensionTooLarge) => {}
            other => obs.inconclusive(format!("calibration: scan_dimen({text:?}) = {other:?}, table says {want} with {nerr} errors")),
        }
    }
    // 300000000in: scan_int is fine, the conversion overflows: exactly one error
    match m::scan_dimen_text("300000000in") {
        Ok((v, e)) if v == m::MAX_DIMEN && e == vec![DimensionTooLarge] => {}
        other => obs.inconclusive(format!("calibration: 300000000in -> {other:?}")),
    }
    // printed forms every TeX user knows (TeXbook ch. 10; \maxdimen; 1sp)
    let printed: &[(&str, &str)] = &[
        ("1in", "72.26999"),
        ("1cm", "28.45274"),
        ("1mm", "2.84526"),
        ("1bp", "1.00374"),
        ("1dd", "1.07"),
        ("1cc", "12.8401"),
        ("1pc", "12.0"),
        ("1sp", "0.00002"),
        ("16383.99999pt", "16383.99998"),
        ("0.1pt", "0.1"),
        ("7.2pt", "7.2"),
        ("-0.3pt", "-0.3"),
    ];
    for (text, want) in printed {
        match m::scan_dimen_text(text) {
            Ok((v, _)) if m::print_scaled(v) == *want => {}
            other => obs.inconclusive(format!("calibration: print_scaled(scan_dimen({text:?})) = {:?}, expected {want}", other.map(|x| m::print_scaled(x.0)))),
        }
    }
    if m::print_scaled(m::MIN32) != "-32768.0" {
        // crates/common/src/lib.rs print_smallest_scaled
        obs.inconclusive("calibration: print_scaled(-2^31)");
    }
    // crates/texlang/src/parse/glue.rs
    let glues: &[(&str, &str, usize)] = &[
        ("0pt", "0.0pt", 0),
        ("-1pt", "-1.0pt", 0),
        ("1pt plus 1pt", "1.0pt plus 1.0pt", 0),
        ("1pt plus 1fil", "1.0pt plus 1.0fil", 0),
        ("1pt plus 1fill", "1.0pt plus 1.0fill", 0),
        ("1pt plus 1filll", "1.0pt plus 1.0filll", 0),
        ("1pt plus 30000000fil", "1.0pt plus 16383.99998fil", 1),
        ("1pt plus -30000000fil", "1.0pt plus -16383.99998fil", 1),
        ("1pt plus 2fillll", "1.0pt plus 2.0filll", 1),
    ];
    for (text, want, nerr) in glues {
        match m::scan_glue_text(text) {
            Ok((g, e)) if m::print_spec(&g) == *want && e.len() == *nerr => {}
            other => obs.inconclusive(format!("calibration: scan_glue({text:?}) = {other:?}, table says {want}")),
        }
    }
    // crates/texlang-stdlib/src/math.rs arithmetic_tests: (register, lhs, op, rhs, \the)
    let arith: &[(&str, &str, &str, &str, &str, usize)] = &[
        ("count", "1", "advance", "2", "3", 0),
        ("count", "1", "advance", "by 2", "3", 0),
        ("count", "2147483647", "advance", "1", "-2147483648", 0),
        ("count", "-5", "multiply", "4", "-20", 0),
        ("count", "-5", "multiply", "-4", "20", 0),
        ("count", "9", "divide", "4", "2", 0),
        ("count", "-9", "divide", "4", "-2", 0),
        ("count", "9", "divide", "-4", "-2", 0),
        ("count", "-9", "divide", "-4", "2", 0),
        ("count", "100000", "multiply", "by 100000", "100000", 1),
        ("count", "20", "divide", "by 0", "20", 1),
        ("dimen", "1pt", "advance", "2pt", "3.0pt", 0),
        ("dimen", "0.025pt", "advance", "0.5pt", "0.525pt", 0),
        ("dimen", "10pt", "multiply", "2", "20.0pt", 0),
        ("dimen", "10pt", "divide", "2", "5.0pt", 0),
        ("skip", "1pt plus 2pt minus 3pt", "advance", "60pt plus 50pt minus 40pt", "61.0pt plus 52.0pt minus 43.0pt", 0),
        ("skip", "1pt plus 2fill minus 3fil", "advance", "60pt plus 50pt minus 40filll", "61.0pt plus 2.0fill minus 40.0filll", 0),
        ("skip", "1pt plus 2pt minus 1.25pt", "multiply", "2", "2.0pt plus 4.0pt minus 2.5pt", 0),
        ("skip", "10pt plus 20pt minus 3pt", "divide", "2", "5.0pt plus 10.0pt minus 1.5pt", 0),
    ];
    for (reg, lhs, op, rhs, want, nerr) in arith {
        let kind = match *reg {
            "count" => m::Kind::Count,
            "dimen" => m::Kind::Dimen,
            _ => m::Kind::Skip,
        };
        let r1 = m::run_statement(&format!("\\{reg} 1 {lhs}\\relax"), &m::Regs::default(), m::Deviations::default());
        let r2 = r1.and_then(|r| {
            m::run_statement(&format!("\\{op}\\{reg} 1 {rhs}\\relax"), &r.regs, m::Deviations::default())
        });
        match r2 {
            Ok(r) if m::the_register(&r.regs, kind, 1) == *want && r.errors.len() == *nerr => {}
            other => obs.inconclusive(format!("calibration: \\{reg}1={lhs} \\{op} {rhs} -> {:?}, table says {want}", other.map(|r| m::the_register(&r.regs, kind, 1)))),
        }
    }
    // decimals printed by real TeX (Knuth-Plass logs): fixed points of scan o print
    let dir = vcore::repo_dir().join("crates/boxworks-knuthplass/testdata");
    let mut seen = std::collections::BTreeSet::new();
    if let Ok(rd) = std::fs::read_dir(&dir) {
        let mut files: Vec<_> = rd.flatten().map(|e| e.path()).collect();
        files.sort();
        for f in files {
            let name = f.file_name().and_then(|n| n.to_str()).unwrap_or("").to_string();
            if !(name.ends_with("_log.txt") || name.ends_with("_want.txt")) {
                continue;
            }
            let Ok(text) = std::fs::read_to_string(&f) else { continue };
            for tok in decimals_in(&text) {
                seen.insert(tok);
            }
        }
    }
    let mut fixed = 0u64;
    for d in &seen {
        match m::scan_dimen_text(&format!("{d}pt")) {
            Ok((v, e)) if e.is_empty() && m::print_scaled(v) == *d => fixed += 1,
            other => obs.inconclusive(format!("calibration: {d} (printed by TeX in the Knuth-Plass goldens) is not a fixed point of the model: {other:?}")),
        }
    }
    obs.add("calibration:tex_printed_decimals_fixed_points", fixed);
    if fixed < 100 {
        obs.inconclusive(format!("calibration: only {fixed} TeX-printed decimals found in {dir:?}"));
    }
    obs.add(
        "calibration:table_entries",
        (ints.len() + dimens.len() + printed.len() + glues.len() + arith.len()) as u64,
    );
}

/// `[-]digits.digits` tokens of a text (as TeX's print_scaled writes them).
fn decimals_in(text: &str) -> Vec<String> {
    let b = text.as_bytes();
    let mut out = vec![];
    let mut i = 0;
    while i < b.len() {
        if b[i].is_ascii_digit() && (i == 0 || !(b[i - 1].is_ascii_digit() || b[i - 1] == b'.')) {
            let start = if i > 0 && b[i - 1] == b'-' { i - 1 } else { i };
            let mut j = i;
            while j < b.len() && b[j].is_ascii_digit() {
                j += 1;
            }
            if j < b.len() && b[j] == b'.' && j + 1 < b.len() && b[j + 1].is_ascii_digit() {
                let mut k = j + 1;
                while k < b.len() && b[k].is_ascii_digit() {
                    k += 1;
                }
                // not part of a longer dotted token (version numbers etc.)
                if !(k < b.len() && b[k] == b'.') {
                    out.push(text[start..k].to_string());
                }
                i = k;
                continue;
            }
            i = j;
            continue;
        }
        i += 1;
    }
    out
}


// ------------------------------------------------------------------------------------------
// radix_fraction: an octal / hexadecimal constant directly followed by a point or comma and digits
// ------------------------------------------------------------------------------------------

/// TeX §448 scans a fraction only `if (radix=10) and (cur_tok=point_token)`. After `"A` or `'17`
/// the number therefore ENDS in front of the point; no unit follows, so §459 reports "Illegal unit
/// of measure (pt inserted)", the value is the integer in pt, and `.5pt` stays in the input and is
/// typeset. Own tiny oracle (the statement is outside the domain of the token-level model).
// ------------------------------------------------------------------------------------------
// hex_other: A-F with category code 12
// ------------------------------------------------------------------------------------------

/// TeX §445 accepts the hex digits A-F both as letters (`A_token`) and as other characters (`other_A_token`), e.g. after
/// `\catcode`\A=12` or when they come out of `\string`/`\the`. One VM with A-F re-categorised runs 30 statements whose
/// constants are hex with at least one A-F digit; the model gets the same tokens with those digits as `Other`.
fn hex_other_case(rng: &mut Rng, obs: &mut Obs) {
    let mut runner = vmlevel::Runner::new();
    let subset: Vec<char> = "ABCDEF".chars().filter(|_| rng.chance(3, 4)).collect();
    let setup: String = subset.iter().map(|c| format!("\\catcode`\\{c}=12 ")).collect();
    if !setup.is_empty() && !runner.run_unchecked(obs, &setup) {
        return;
    }
    for _ in 0..30 {
        let kind = *rng.pick(&["count", "dimen", "skip"]);
        let reg = 1 + rng.below(6);
        let mag: u64 = match rng.below(6) {
            0 => rng.below(256),
            1 => 0x7FFF_FFFF - rng.below(3),
            2 => 0x7FFF_FFFF + 1 + rng.below(0x1000),
            3 => rng.below(1 << 30),
            _ => rng.below(1 << 20),
        };
        let sign = *rng.pick(&["", "", "-", "+-", "- -"]);
        let zeros = if rng.chance(1, 5) { "00" } else { "" };
        let constant = format!("{sign}\"{zeros}{mag:X}");
        let op = rng.below(10);
        let text = match (op, kind) {
            (0..=4, "count") => format!("\\count{reg}={constant} "),
            (0..=4, "dimen") => format!("\\dimen{reg}={constant}sp "),
            (0..=4, _) => format!("\\skip{reg}={constant}sp plus {constant}sp "),
            (5..=6, "count") => format!("\\advance\\count{reg} by {constant} "),
            (5..=6, k) => format!("\\advance\\{k}{reg} by {constant}sp "),
            (7..=8, k) => format!("\\multiply\\{k}{reg} by {constant} "),
            (_, k) => format!("\\divide\\{k}{reg} by {constant} "),
        };
        let Ok(toks) = m::lex(&format!("{text}\\relax")) else {
            obs.inconclusive("hex_other statement does not lex");
            return;
        };
        let mut others = 0u64;
        let toks: Vec<m::Tok> = toks
            .into_iter()
            .map(|t| match t {
                m::Tok::Letter(c) if subset.contains(&(c as char)) => {
                    others += 1;
                    m::Tok::Other(c)
                }
                t => t,
            })
            .collect();
        obs.count("hex_other:statements");
        obs.add("hex_other:digits_of_category_other", others);
        if !runner.check_tokens(obs, &text, Some(toks), "hex_other") {
            // the VM was discarded (fatal error or panic): set the category codes up again
            if !setup.is_empty() && !runner.run_unchecked(obs, &setup) {
                return;
            }
        }
    }
}

fn radix_fraction_case(rng: &mut Rng, obs: &mut Obs) {
    let hex = rng.coin();
    let n: i64 = rng.range_i64(0, 4000);
    let neg = rng.chance(1, 3);
    let sep = if rng.chance(1, 4) { ',' } else { '.' };
    let frac: String = (0..rng.range_usize(1, 6)).map(|_| (b'0' + rng.below(10) as u8) as char).collect();
    let unit = *rng.pick(&["pt", "sp", "in", "fil", "em"]);
    let constant = if hex { format!("\"{n:X}") } else { format!("'{n:o}") };
    let sign = if neg { "-" } else { "" };
    let as_stretch = rng.chance(1, 3);
    let reg = 1 + rng.below(3) as usize;
    let src = if as_stretch {
        format!("\\nonstopmode\\skip{reg}=3pt plus {sign}{constant}{sep}{frac}{unit}\\relax")
    } else {
        format!("\\nonstopmode\\dimen{reg}={sign}{constant}{sep}{frac}{unit}\\relax")
    };
    let expected_sp = (if neg { -n } else { n }) * 65536;
    let leftover = format!("{sep}{frac}{unit}");
    let opts = vstate::VmOptions::default();
    let src2 = src.clone();
    let r = catch(move || {
        let (o, out, vm) = vstate::run_program(&opts, &src2);
        let d = vm.state.registers_scaled.values()[reg].0 as i64;
        let g = vm.state.registers_glue.values()[reg];
        (o, out, d, (g.width.0 as i64, g.stretch.0 as i64, format!("{:?}", g.stretch_order)), vm.state.mon.recovered.get())
    });
    obs.count("radix_fraction:statements");
    obs.count(if hex { "radix_fraction:hex" } else { "radix_fraction:octal" });
    match r {
        Err(p) => obs.repo_panic(&p, json!({"source": src})),
        Ok((o, out, d, g, recovered)) => {
            let value_ok = if as_stretch {
                g.0 == 3 * 65536 && g.1 == expected_sp && g.2 == "Normal"
            } else {
                d == expected_sp
            };
            let out_ok = out.trim_end() == leftover;
            if !o.is_ok() || !value_ok || !out_ok || recovered != 1 {
                obs.violation(
                    "radix-constant-followed-by-fraction",
                    json!({"source": src, "outcome": format!("{o:?}"), "expected_value_sp": expected_sp,
                           "dimen_sp": d, "skip": format!("{g:?}"), "typeset": out, "expected_typeset": leftover,
                           "recovered_errors": recovered,
                           "rule": "TeX §448: a fraction is scanned only after a DECIMAL constant; §459: missing unit => error, pt inserted"}),
                );
            } else {
                obs.nontrivial(&src);
                if obs.wants_sample() {
                    obs.sample(json!({"source": src, "value_sp": expected_sp, "typeset": out, "recovered_errors": recovered}));
                }
            }
        }
    }
}
