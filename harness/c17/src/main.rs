fn main() {
    vcore::run_main(&c17::MONITOR)
}
