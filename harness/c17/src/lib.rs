//! Monitor for property C17 - font-metric arithmetic (see /verif/DESIGN.md §6, NOTES.md here).
//!
//! Real code driven: `impl Display for FixWord`, `pl::File::from_pl_source_code` (which reaches
//! `impl Parse for FixWord`), `FixWord::to_scaled`, `tfm::compress`, `NextLargerProgram::new/get`.
//! Oracles: the transcriptions in `vmodels::fontarith` (TFtoPL §40-43, PLtoTF §62-66, TeX §568 +
//! §571-572, PLtoTF §75-80, TFtoPL §84), a round trip, and brute-force/functional-graph oracles.

use std::collections::{BTreeMap, BTreeSet, HashMap};
use tfm::{Char, FixWord, NextLargerProgram, NextLargerProgramWarning};
use vcore::*;
use vmodels::fontarith as fa;

pub struct M;
pub static MONITOR: M = M;

const STRIDE: u64 = 65_521;
const STRIDE_PER_CASE: u64 = 1024;
const CHUNK_BITS: u32 = 20;
/// KRN entries per generated PL document (the reader keeps at most 32510 instructions)
const DOC_BATCH: usize = 16_384;
const SCALED_CHUNK: u64 = 1 << 16;

impl Monitor for M {
    fn id(&self) -> &'static str {
        "C17"
    }

    fn rule(&self) -> String {
        "roundtrip_*: one case = a block of fix_word bit patterns (quick: 1024 values at stride 65521 with a seed-dependent offset, \
         plus one boundary block; thorough: 2^20 consecutive patterns, 4096 blocks = all 2^32); every pattern is printed by the real \
         Display, compared with the TFtoPL §40-43 transcription, embedded as (KRN C A R <text>) in a PL document of 16384 entries, read \
         by pl::File::from_pl_source_code and compared bit for bit; every pattern is a distinct case by construction. \
         containers: random values through every syntactic place a fix_word can appear (CHARWD/HT/DP/IC, named and numbered FONTDIMEN, \
         KRN, DESIGNUNITS, DESIGNSIZE; R and D prefix). scaled_*: (fix_word, design size) pairs, non-trivial = distinct pair; \
         compress_*: multisets, non-trivial = more distinct values than the class limit (compression really happens), distinct by \
         (sorted distinct values, limit); nextlarger_*: functional graphs, non-trivial = has at least one link, distinct by edge set + \
         existence set + mode."
            .into()
    }

    fn assumptions(&self) -> Vec<String> {
        vec![
            "reference arithmetic = own transcriptions of TFtoPL §40-43, PLtoTF §62-66, TeX §568/§571-572, PLtoTF §75-80, TFtoPL §84 (vmodels::fontarith), calibrated against tftopl-produced .plst files of the corpus and TeX-verified dimensions asserted in boxworks-text / ligkern unit tests".into(),
            "-2048.0 (0x80000000) is outside PLtoTF's legal range (get_fix rejects an integer part >= 2048): counted as skipped, not failed".into(),
            "to_scaled is checked for storable fix_words (first byte 0 or 255, i.e. -16 <= x < 16) and legal design sizes (1pt <= design size < 2048pt); outside that TeX aborts the font".into(),
            "compress: values are legal dimensions (|x| < 16.0); 'within half the tolerance' is read with PLtoTF's integer rounding, (delta+1) div 2; the `excess` rule of PLtoTF §78 (stop merging once exactly m classes remain) is not part of the statement and only counted".into(),
            "next-larger graphs are functional (at most one NEXTLARGER per character), as in a TFM/PL file".into(),
        ]
    }

    fn phases(&self, tier: Tier) -> Vec<Phase> {
        let mut v = vec![];
        match tier {
            Tier::Quick => {
                let n = (1u64 << 32).div_ceil(STRIDE).div_ceil(STRIDE_PER_CASE);
                v.push(Phase::new("roundtrip_stride", n).batch(1));
                v.push(Phase::new("roundtrip_boundary", 1).batch(1));
                v.push(Phase::new("roundtrip_random", 96).batch(1));
            }
            Tier::Thorough => {
                v.push(
                    Phase::new("roundtrip_all", 1 << (32 - CHUNK_BITS))
                        .batch(4)
                        .exhaustive("all 2^32 fix_word bit patterns"),
                );
                v.push(Phase::new("roundtrip_boundary", 1).batch(1));
            }
        }
        v.push(Phase::new("containers", tier.pick(1_500, 60_000)).batch(32));
        v.push(
            Phase::new("scaled_all_10pt", (1 << 25) / SCALED_CHUNK)
                .batch(4)
                .exhaustive("all 2^25 storable fix_words (first byte 0 or 255) at design size 10pt"),
        );
        v.push(Phase::new("scaled_random", tier.pick(400, 20_000)).batch(8));
        v.push(
            Phase::new("compress_small", 4095 * 12)
                .batch(256)
                .exhaustive("all non-empty subsets of the integers -3..=8 with every class limit 1..=12 (full brute-force tolerance scan)"),
        );
        v.push(Phase::new("compress_random", tier.pick(20_000, 2_000_000)).batch(64));
        v.push(
            Phase::new("pl_tables", PL_TABLE_CASES)
                .batch(2)
                .exhaustive("property lists with N distinct non-zero heights / depths (N in 1,14..=18,40), italic corrections (N in 1,62..=66,120) and widths (N in 254,255,256), converted by pl_to_tfm and read back: table sizes within the TFM limits (16/16/64/256 entries) and every character's value = the class representative of compress(values, 15/15/63/255)"),
        );
        v.push(
            Phase::new("nextlarger_enum", NL_ENUM_TOTAL)
                .batch(1024)
                .exhaustive("all functional graphs on 1..=6 labelled characters (labels 0,7,100,128,200,255)"),
        );
        v.push(
            Phase::new("nextlarger_star", NL_STAR_TOTAL)
                .batch(8)
                .exhaustive("star graphs over all 256 characters: 250..=256 characters naming one target t in {0,1,127,128,255}, with t unlinked, t->t, or t->one of its own sources (in-degrees up to 256, one more than a byte holds)"),
        );
        v.push(Phase::new("nextlarger_random", tier.pick(5_000, 200_000)).batch(64));
        v
    }

    fn floors(&self, tier: Tier) -> Vec<(&'static str, u64)> {
        vec![
            ("roundtrip:values_checked", tier.pick(6_000_000, 1 << 32) - 1),
            ("roundtrip:negative_values", tier.pick(2_000_000, 1 << 31) - 1),
            ("roundtrip:texts_with_7_fraction_digits", tier.pick(100_000, 100_000_000)),
            ("roundtrip:abs_ge_16", tier.pick(2_000_000, 1 << 31)),
            ("skipped:-2048.0 is outside PLtoTF's legal range", 1),
            ("containers:values_checked", tier.pick(30_000, 1_000_000)),
            ("scaled:pairs_checked", tier.pick(30_000_000, 30_000_000)),
            ("scaled:negative_values", tier.pick(1_000_000, 1_000_000)),
            ("scaled:design_size_needs_halving(z>=2^23)", tier.pick(10_000, 100_000)),
            ("compress:really_compressed", tier.pick(10_000, 500_000)),
            ("compress:minimality_refuted_smaller_tolerance", tier.pick(10_000, 500_000)),
            ("compress:bruteforce_scans", tier.pick(20_000, 20_000)),
            ("compress:negative_values_in_class", tier.pick(1_000, 50_000)),
            ("nextlarger:graphs_with_cycle", tier.pick(20_000, 50_000)),
            ("nextlarger:cycles_len>=3", tier.pick(5_000, 10_000)),
            ("nextlarger:chains_checked", tier.pick(1_000_000, 10_000_000)),
            ("nextlarger:edges_to_nonexistent", tier.pick(1_000, 50_000)),
            ("nextlarger:star_in_degree_256", 5),
            ("pl_tables:fonts_that_needed_compression", 10),
            ("pl_tables:characters_checked", 1400),
        ]
    }

    fn calibrate(&self, obs: &mut Obs) {
        calibrate(obs)
    }

    fn run_case(&self, phase: &str, idx: u64, rng: &mut Rng, obs: &mut Obs) {
        match phase {
            "roundtrip_stride" => {
                let offset = Rng::for_case(obs.seed, "C17", "stride-offset", 0).below(STRIDE);
                let mut vals = Vec::with_capacity(STRIDE_PER_CASE as usize);
                for j in 0..STRIDE_PER_CASE {
                    let v = offset + (idx * STRIDE_PER_CASE + j) * STRIDE;
                    if v < (1u64 << 32) {
                        vals.push(v as u32 as i32);
                    }
                }
                roundtrip_block(&vals, Distinct::Hashed, obs);
            }
            "roundtrip_boundary" => {
                let d = if obs.tier == Tier::Quick { Distinct::Hashed } else { Distinct::AlreadyCounted };
                roundtrip_block(&boundary_values(), d, obs)
            }
            "roundtrip_random" => {
                // 2^16 values: half uniform over all bit patterns, half biased to legal dimensions and short decimals
                let vals: Vec<i32> = (0..1 << 16)
                    .map(|i| if i & 1 == 0 { rng.next_u32() as i32 } else { hostile_fix(rng) })
                    .collect();
                roundtrip_block(&vals, Distinct::Hashed, obs);
            }
            "roundtrip_all" => {
                let lo = idx << CHUNK_BITS;
                let vals: Vec<i32> = (lo..lo + (1 << CHUNK_BITS)).map(|v| v as u32 as i32).collect();
                roundtrip_block(&vals, Distinct::ByConstruction, obs);
            }
            "containers" => containers_case(rng, obs),
            "scaled_all_10pt" => scaled_all_case(idx, obs),
            "scaled_random" => scaled_random_case(rng, obs),
            "compress_small" => compress_small_case(idx, obs),
            "compress_random" => compress_random_case(rng, obs),
            "pl_tables" => pl_tables_case(idx, obs),
            "nextlarger_enum" => nextlarger_enum_case(idx, obs),
            "nextlarger_star" => nextlarger_star_case(idx, obs),
            "nextlarger_random" => nextlarger_random_case(rng, obs),
            other => obs.inconclusive(format!("unknown phase {other}")),
        }
    }
}

// ------------------------------------------------------------------------------------------
// print -> parse round trip

fn boundary_values() -> Vec<i32> {
    let mut v: Vec<i64> = vec![0, 1, -1, 2, -2, 3, 5, 10, i32::MAX as i64, i32::MIN as i64, i32::MIN as i64 + 1];
    for b in 0..31 {
        for d in -2..=2i64 {
            v.push((1i64 << b) + d);
            v.push(-(1i64 << b) + d);
        }
    }
    // around every integer boundary that matters to PLtoTF / TFtoPL: 1, 16, 2047, 2048
    for int in [1i64, 2, 9, 10, 15, 16, 17, 99, 100, 999, 1000, 2046, 2047] {
        for d in -3..=3i64 {
            v.push(int * (1 << 20) + d);
            v.push(-int * (1 << 20) + d);
        }
    }
    // fractions k/10^j, whose decimal is short, and their neighbours
    for j in 1..=6u32 {
        let p = 10i64.pow(j);
        for k in [1i64, 3, 5, 7, 9, p - 1] {
            let x = (k << 20) / p;
            for d in -2..=2 {
                v.push(x + d);
                v.push(-(x + d));
                v.push(2047 * (1 << 20) + x + d);
            }
        }
    }
    v.into_iter()
        .filter(|x| *x >= i32::MIN as i64 && *x <= i32::MAX as i64)
        .map(|x| x as i32)
        .collect::<BTreeSet<i32>>()
        .into_iter()
        .collect()
}

/// How the values of a block enter the distinct-case count.
#[derive(Clone, Copy)]
enum Distinct {
    /// consecutive patterns of the exhaustive sweep
    ByConstruction,
    /// sampled values: through the hash set (phases may overlap)
    Hashed,
    /// boundary values in the thorough tier: the sweep counts them
    AlreadyCounted,
}

fn roundtrip_block(vals: &[i32], distinct: Distinct, obs: &mut Obs) {
    for chunk in vals.chunks(DOC_BATCH) {
        roundtrip_doc(chunk, distinct, obs);
    }
}

/// One PL document: `(LIGTABLE (KRN C A R v1) (KRN C A R v2) ... )`.
fn roundtrip_doc(vals: &[i32], distinct: Distinct, obs: &mut Obs) {
    use std::fmt::Write;
    let mut doc = String::with_capacity(vals.len() * 28 + 32);
    doc.push_str("(LIGTABLE\n");
    let mut sent: Vec<i32> = Vec::with_capacity(vals.len());
    let mut text = String::with_capacity(24);
    let mut seven = 0u64;
    let mut negative = 0u64;
    let mut big = 0u64;
    for &v in vals {
        text.clear();
        let printed = catch(|| write!(text, "{}", FixWord(v)));
        match printed {
            Ok(Ok(())) => {}
            Ok(Err(_)) => {
                obs.violation("roundtrip:display-returned-error", json!({"bits": v}));
                continue;
            }
            Err(p) => {
                obs.repo_panic(&p, json!({"what": "Display for FixWord", "bits": v}));
                continue;
            }
        }
        // TFtoPL §40-43: the real text must be what TFtoPL prints
        let want = fa::print_fix_word(v);
        if text != want {
            obs.violation(
                "roundtrip:display-differs-from-tftopl-out_fix",
                json!({"bits": v, "hex": format!("{:#010x}", v as u32), "printed": text, "tftopl_40_43": want}),
            );
        }
        // the two model formulations must agree with each other (PLtoTF §62-66 inverts TFtoPL §40-43)
        match fa::parse_fix_word(&want) {
            Ok(back) if back == v => {}
            Err(fa::FixParseError::TooBig) if v == i32::MIN => {}
            other => {
                obs.inconclusive(format!(
                    "model disagreement: parse_fix_word(print_fix_word({v})) = {other:?}"
                ));
                continue;
            }
        }
        if v == i32::MIN {
            // the single pattern PLtoTF cannot read back
            obs.skip("-2048.0 is outside PLtoTF's legal range");
            obs.add("roundtrip:min_value_text_is_-2048.0", (text == "-2048.0") as u64);
            continue;
        }
        if v < 0 {
            negative += 1;
        }
        if !(-(16 << 20)..(16 << 20)).contains(&v) {
            big += 1;
        }
        if text.len() - text.find('.').unwrap_or(0) > 7 {
            seven += 1;
        }
        doc.push_str("(KRN C A R ");
        doc.push_str(&text);
        doc.push_str(")\n");
        sent.push(v);
    }
    doc.push_str(")\n");
    if sent.is_empty() {
        return;
    }
    let parsed = catch(|| tfm::pl::File::from_pl_source_code(&doc));
    let (file, warnings) = match parsed {
        Ok(r) => r,
        Err(p) => {
            obs.repo_panic(
                &p,
                json!({"what": "pl::File::from_pl_source_code", "first_value": sent[0], "n": sent.len()}),
            );
            return;
        }
    };
    let got = &file.lig_kern_program.instructions;
    if got.len() != sent.len() {
        obs.violation(
            "roundtrip:wrong-number-of-values-read-back",
            json!({"sent": sent.len(), "got": got.len(), "first_value": sent[0],
                   "warnings": warnings.len(), "doc_head": doc.chars().take(200).collect::<String>()}),
        );
        return;
    }
    for (v, ins) in sent.iter().zip(got.iter()) {
        let back = match ins.operation {
            tfm::ligkern::lang::Operation::Kern(f) => Some(f.0),
            _ => None,
        };
        if back != Some(*v) {
            obs.violation(
                "roundtrip:parse-of-printed-text-differs",
                json!({"bits": v, "hex": format!("{:#010x}", *v as u32), "printed": format!("{}", FixWord(*v)),
                       "read_back": back, "model_parse": format!("{:?}", fa::parse_fix_word(&fa::print_fix_word(*v)))}),
            );
        }
    }
    if !warnings.is_empty() {
        obs.violation(
            "roundtrip:reader-warned-about-printed-text",
            json!({"n_warnings": warnings.len(), "first_value": sent[0], "first_warning": format!("{:?}", warnings[0])}),
        );
    }
    obs.add("roundtrip:values_checked", sent.len() as u64);
    obs.add("roundtrip:negative_values", negative);
    obs.add("roundtrip:abs_ge_16", big);
    obs.add("roundtrip:texts_with_7_fraction_digits", seven);
    obs.count("roundtrip:documents_read");
    match distinct {
        Distinct::ByConstruction => obs.nontrivial_by_construction(sent.len() as u64),
        Distinct::Hashed => {
            for v in &sent {
                obs.nontrivial(&("rt", *v));
            }
        }
        Distinct::AlreadyCounted => {}
    }
    if obs.wants_sample() {
        let k = sent.len() / 2;
        obs.sample(json!({"document_entries": sent.len(), "example_bits": sent[k],
                          "example_text": format!("{}", FixWord(sent[k])), "read_back": sent[k]}));
    }
}

fn hostile_fix(rng: &mut Rng) -> i32 {
    match rng.below(8) {
        0 => rng.i32_hostile(),
        1 => rng.range_i32(-(16 << 20), (16 << 20) - 1),
        2 => rng.range_i32(-(1 << 20), 1 << 20),
        3 => {
            // k/10^j and neighbours
            let j = rng.range_i64(1, 6) as u32;
            let p = 10i64.pow(j);
            let k = rng.range_i64(0, p * 16 - 1);
            let x = ((k << 20) / p + rng.range_i64(-1, 1)) as i32;
            if rng.coin() {
                x
            } else {
                -x
            }
        }
        _ => rng.next_u32() as i32,
    }
}

/// Every syntactic place where the PL reader parses a fix_word.
fn containers_case(rng: &mut Rng, obs: &mut Obs) {
    use std::fmt::Write;
    let mut doc = String::new();
    let pfx = |rng: &mut Rng| if rng.chance(1, 4) { "D" } else { "R" };
    let val = |rng: &mut Rng| loop {
        let v = hostile_fix(rng);
        if v != i32::MIN {
            return v;
        }
    };
    // DESIGNSIZE must be >= 1.0 to be accepted
    let design = rng.range_i32(1 << 20, i32::MAX);
    let units = val(rng);
    let _ = writeln!(doc, "(DESIGNSIZE {} {})", pfx(rng), FixWord(design));
    let _ = writeln!(doc, "(DESIGNUNITS {} {})", pfx(rng), FixWord(units));
    // FONTDIMEN: named 1..7 (text font names) and numbered 8..=20
    let named = ["SLANT", "SPACE", "STRETCH", "SHRINK", "XHEIGHT", "QUAD", "EXTRASPACE"];
    let mut params: Vec<i32> = vec![];
    doc.push_str("(FONTDIMEN\n");
    for n in named {
        let v = val(rng);
        params.push(v);
        let _ = writeln!(doc, "   ({} {} {})", n, pfx(rng), FixWord(v));
    }
    for n in 8..=20 {
        let v = val(rng);
        params.push(v);
        let _ = writeln!(doc, "   (PARAMETER D {} {} {})", n, pfx(rng), FixWord(v));
    }
    doc.push_str("   )\n");
    let mut kerns: Vec<i32> = vec![];
    doc.push_str("(LIGTABLE\n");
    for _ in 0..6 {
        let v = val(rng);
        kerns.push(v);
        let _ = writeln!(doc, "   (KRN C A {} {})", pfx(rng), FixWord(v));
    }
    doc.push_str("   )\n");
    let mut dims: Vec<(u8, [i32; 4])> = vec![];
    for c in 0..4u8 {
        let code = b'a' + c;
        let d = [val(rng), val(rng), val(rng), val(rng)];
        dims.push((code, d));
        let _ = writeln!(
            doc,
            "(CHARACTER C {}\n   (CHARWD {} {})\n   (CHARHT {} {})\n   (CHARDP {} {})\n   (CHARIC {} {})\n   )",
            code as char,
            pfx(rng), FixWord(d[0]), pfx(rng), FixWord(d[1]), pfx(rng), FixWord(d[2]), pfx(rng), FixWord(d[3])
        );
    }
    let parsed = catch(|| tfm::pl::File::from_pl_source_code(&doc));
    let (file, _warnings) = match parsed {
        Ok(r) => r,
        Err(p) => {
            obs.repo_panic(&p, json!({"what": "pl::File::from_pl_source_code", "doc": doc}));
            return;
        }
    };
    let mut bad: Vec<Value> = vec![];
    let mut n = 0u64;
    let mut check = |what: String, want: i32, got: Option<i32>| {
        n += 1;
        if got != Some(want) {
            bad.push(json!({"where": what, "bits": want, "printed": format!("{}", FixWord(want)), "read_back": got}));
        }
    };
    check("DESIGNSIZE".into(), design, Some(file.header.design_size.0));
    check("DESIGNUNITS".into(), units, Some(file.design_units.0));
    for (i, v) in params.iter().enumerate() {
        check(format!("FONTDIMEN #{}", i + 1), *v, file.params.get(i).map(|f| f.0));
    }
    for (i, v) in kerns.iter().enumerate() {
        let got = file.lig_kern_program.instructions.get(i).and_then(|ins| match ins.operation {
            tfm::ligkern::lang::Operation::Kern(f) => Some(f.0),
            _ => None,
        });
        check(format!("KRN #{i}"), *v, got);
    }
    for (code, d) in &dims {
        let cd = file.char_dimens.get(&Char(*code));
        check(format!("CHARWD {code}"), d[0], cd.and_then(|c| c.width).map(|f| f.0));
        check(format!("CHARHT {code}"), d[1], cd.and_then(|c| c.height).map(|f| f.0));
        check(format!("CHARDP {code}"), d[2], cd.and_then(|c| c.depth).map(|f| f.0));
        check(format!("CHARIC {code}"), d[3], cd.and_then(|c| c.italic_correction).map(|f| f.0));
    }
    obs.add("containers:values_checked", n);
    if !bad.is_empty() {
        obs.violation(
            "containers:parse-of-printed-text-differs",
            json!({"mismatches": bad, "doc": doc}),
        );
    }
    obs.nontrivial(&doc);
    if obs.wants_sample() {
        obs.sample(json!({"doc_head": doc.chars().take(240).collect::<String>(), "values": n}));
    }
}

// ------------------------------------------------------------------------------------------
// to_scaled

fn check_scaled(fix: i32, design: i32, obs: &mut Obs) -> bool {
    let m1 = fa::store_scaled(fix, design);
    let m2 = fa::store_scaled_closed_form(fix, design);
    if m1 != m2 || m1.is_none() {
        obs.inconclusive(format!(
            "model disagreement: store_scaled({fix},{design}) = {m1:?}, closed form = {m2:?}"
        ));
        return false;
    }
    let want = m1.unwrap();
    match catch(|| FixWord(fix).to_scaled(FixWord(design))) {
        Ok(s) => {
            if s.0 != want {
                obs.violation(
                    "scaled:to_scaled-differs-from-store_scaled",
                    json!({"fix_word_bits": fix, "fix_word": fa::print_fix_word(fix),
                           "design_size_bits": design, "design_size": fa::print_fix_word(design),
                           "to_scaled_sp": s.0, "tex_571_572_sp": want,
                           "to_scaled": fa::print_scaled(s.0), "tex": fa::print_scaled(want)}),
                );
                return false;
            }
            true
        }
        Err(p) => {
            obs.repo_panic(&p, json!({"what": "FixWord::to_scaled", "fix_word_bits": fix, "design_size_bits": design}));
            false
        }
    }
}

fn scaled_all_case(idx: u64, obs: &mut Obs) {
    let design = 10 << 20;
    let lo = idx * SCALED_CHUNK;
    let mut neg = 0;
    for k in lo..lo + SCALED_CHUNK {
        // k runs over 0 .. 2^25: first half non-negative, second half the negative values
        let fix = if k < (1 << 24) { k as i32 } else { (k as i64 - (1 << 25)) as i32 };
        if fix < 0 {
            neg += 1;
        }
        if !check_scaled(fix, design, obs) {
            break;
        }
    }
    obs.add("scaled:pairs_checked", SCALED_CHUNK);
    obs.add("scaled:negative_values", neg);
    obs.nontrivial_by_construction(SCALED_CHUNK);
    if obs.wants_sample() {
        let fix = (lo + 12345) as i32;
        obs.sample(json!({"fix_word": fa::print_fix_word(fix), "design_size": "10.0",
                          "to_scaled": fa::print_scaled(FixWord(fix).to_scaled(FixWord(design)).0)}));
    }
}

fn legal_design(rng: &mut Rng) -> i32 {
    match rng.below(10) {
        0..=2 => *rng.pick(&[5, 6, 7, 8, 9, 10, 12, 17, 20, 24, 36, 72, 127, 128, 129, 256, 512, 1024, 2047]) << 20,
        3 => {
            // around the halving thresholds z = 2^23 .. 2^26, i.e. design size 2^27 .. 2^30
            let b = rng.range_i64(27, 30);
            ((1i64 << b) + rng.range_i64(-40, 40)).clamp(1 << 20, i32::MAX as i64) as i32
        }
        4 => rng.range_i32(1 << 20, (1 << 20) + 64),
        5 => i32::MAX - rng.range_i32(0, 64),
        6 => rng.range_i32(1 << 20, 20 << 20),
        _ => rng.range_i32(1 << 20, i32::MAX),
    }
}

fn storable_fix(rng: &mut Rng) -> i32 {
    match rng.below(6) {
        0 => *rng.pick(&[0, 1, -1, (16 << 20) - 1, -(16 << 20), 1 << 20, -(1 << 20), 255, 256, 65535, 65536, -255, -256, -65536]),
        1 => rng.range_i32(-(1 << 20), 1 << 20),
        2 => {
            // bytes at their extremes
            let b = *rng.pick(&[0u32, 1, 127, 128, 255]);
            let c = *rng.pick(&[0u32, 1, 127, 128, 255]);
            let d = *rng.pick(&[0u32, 1, 127, 128, 255]);
            let a = if rng.coin() { 0u32 } else { 255 };
            ((a << 24) | (b << 16) | (c << 8) | d) as i32
        }
        _ => rng.range_i32(-(16 << 20), (16 << 20) - 1),
    }
}

fn scaled_random_case(rng: &mut Rng, obs: &mut Obs) {
    let per_case = 5_000;
    let mut neg = 0;
    let mut halved = 0;
    let mut first: Option<(i32, i32)> = None;
    let mut h: u64 = 0;
    for _ in 0..per_case {
        let design = legal_design(rng);
        let fix = storable_fix(rng);
        if fix < 0 {
            neg += 1;
        }
        if (design >> 4) >= (1 << 23) {
            halved += 1;
        }
        if !check_scaled(fix, design, obs) {
            break;
        }
        h = h.wrapping_mul(0x100000001b3) ^ stable_hash(&(fix, design));
        first.get_or_insert((fix, design));
    }
    obs.add("scaled:pairs_checked", per_case);
    obs.add("scaled:negative_values", neg);
    obs.add("scaled:design_size_needs_halving(z>=2^23)", halved);
    obs.nontrivial_hash(h);
    if obs.wants_sample() {
        if let Some((fix, design)) = first {
            obs.sample(json!({"fix_word": fa::print_fix_word(fix), "design_size": fa::print_fix_word(design),
                              "to_scaled": fa::print_scaled(FixWord(fix).to_scaled(FixWord(design)).0),
                              "pairs_in_case": per_case}));
        }
    }
}

// ------------------------------------------------------------------------------------------
// compress

struct CompressFacts {
    compressed: bool,
    tolerance: i64,
    classes: usize,
}

/// The whole oracle for one call. `bruteforce`: also scan all candidate tolerances with the DP.
fn check_compress(values: &[i32], m: u8, bruteforce: bool, obs: &mut Obs) -> Option<CompressFacts> {
    let input: Vec<FixWord> = values.iter().map(|v| FixWord(*v)).collect();
    let (result, map) = match catch(|| tfm::compress(&input, m)) {
        Ok(r) => r,
        Err(p) => {
            obs.repo_panic(&p, json!({"what": "tfm::compress", "values": values, "max_size": m}));
            return None;
        }
    };
    let sorted: Vec<i64> = values
        .iter()
        .map(|v| *v as i64)
        .collect::<BTreeSet<i64>>()
        .into_iter()
        .collect();
    let n = sorted.len();
    let mm = m as usize;
    let res: Vec<i64> = result.iter().map(|f| f.0 as i64).collect();
    let witness = |what: &str, extra: Value| {
        json!({"what": what, "values_sorted_distinct": sorted, "max_size": m, "result": res,
               "map": sorted.iter().map(|v| map.get(&FixWord(*v as i32)).map(|i| i.get())).collect::<Vec<_>>(),
               "extra": extra})
    };
    // shape
    if res.first() != Some(&0) {
        obs.violation("compress:result[0]-is-not-zero", witness("result must start with the zero entry", json!(null)));
        return None;
    }
    let k = res.len() - 1;
    if k > mm {
        obs.violation("compress:more-classes-than-allowed", witness("more classes than max_size", json!({"classes": k})));
        return None;
    }
    if map.len() != n {
        obs.violation("compress:map-keys-differ-from-input-values", witness("map must have exactly the distinct input values as keys", json!({"map_len": map.len()})));
        return None;
    }
    let mut idx: Vec<usize> = Vec::with_capacity(n);
    for v in &sorted {
        match map.get(&FixWord(*v as i32)) {
            Some(i) if (i.get() as usize) <= k => idx.push(i.get() as usize),
            other => {
                obs.violation(
                    "compress:value-without-valid-class",
                    witness("an input value has no class or a class index outside the result", json!({"value": v, "index": other.map(|i| i.get())})),
                );
                return None;
            }
        }
    }
    // classes are the consecutive runs 1,2,..,k over the sorted values
    let mut partition: Vec<(usize, usize)> = vec![];
    let mut start = 0;
    for i in 1..=n {
        if i == n || idx[i] != idx[start] {
            partition.push((start, i));
            start = i;
        }
    }
    let consecutive = partition.iter().enumerate().all(|(c, (s, _))| idx[*s] == c + 1);
    if !consecutive || partition.len() != k {
        obs.violation(
            "compress:classes-are-not-consecutive-runs",
            witness("class indices must be 1..k in value order, each used", json!({"indices": idx, "classes": k})),
        );
        return None;
    }
    // representatives and tolerance actually used
    let mut d_impl = 0i64;
    for (c, (s, e)) in partition.iter().enumerate() {
        let (first, last) = (sorted[*s], sorted[*e - 1]);
        d_impl = d_impl.max(last - first);
        let rep = res[c + 1];
        if (2 * rep - (first + last)).abs() > 1 {
            obs.violation(
                "compress:representative-is-not-the-class-midpoint",
                witness("representative must be the midpoint of its class (up to integer rounding)", json!({"class": c + 1, "first": first, "last": last, "representative": rep})),
            );
            return None;
        }
        if first < 0 && last != first {
            obs.count("compress:negative_values_in_class");
        }
    }
    if n <= mm {
        // nothing to compress: tolerance 0, every value its own representative
        if d_impl != 0 || k != n {
            obs.violation(
                "compress:lossy-although-values-fit",
                witness("the distinct values fit into max_size classes, tolerance must be 0", json!({"tolerance_used": d_impl})),
            );
            return None;
        }
        return Some(CompressFacts { compressed: false, tolerance: 0, classes: k });
    }
    // every value within half the tolerance (PLtoTF: (delta+1) div 2) of its representative
    for (c, (s, e)) in partition.iter().enumerate() {
        for v in &sorted[*s..*e] {
            if 2 * (v - res[c + 1]).abs() > d_impl + 1 {
                obs.violation("compress:value-further-than-half-tolerance", witness("value further than half the tolerance from its representative", json!({"value": v, "class": c + 1, "tolerance": d_impl})));
                return None;
            }
        }
    }
    // the partition is the greedy cover for the tolerance used
    let greedy = fa::greedy_cover(&sorted, d_impl);
    if greedy != partition {
        obs.violation(
            "compress:not-the-greedy-cover",
            witness("classes are not the left-to-right greedy cover for the tolerance used", json!({"tolerance_used": d_impl, "greedy": greedy, "got": partition})),
        );
        return None;
    }
    // minimality: the next smaller candidate tolerance must be infeasible
    let below = fa::largest_difference_below(&sorted, d_impl);
    let feasible_below = match below {
        Some(c) => fa::min_cover(&sorted, c).0 <= mm,
        None => fa::min_cover(&sorted, 0).0 <= mm && d_impl > 0,
    };
    // second formulation: Knuth's own search (PLtoTF §76)
    let d_knuth = fa::shorten(&sorted, mm);
    let mut d_brute = None;
    if bruteforce {
        d_brute = Some(fa::smallest_tolerance_bruteforce(&sorted, mm));
        obs.count("compress:bruteforce_scans");
    }
    let model_consistent = (d_knuth < d_impl) == feasible_below
        && d_brute.map_or(true, |b| b == d_knuth)
        && d_knuth <= d_impl;
    if !model_consistent {
        obs.inconclusive(format!(
            "model disagreement on the smallest tolerance: shorten={d_knuth} brute={d_brute:?} neighbour-feasible={feasible_below} impl={d_impl} values={sorted:?} m={m}"
        ));
        return None;
    }
    if d_knuth != d_impl {
        obs.violation(
            "compress:tolerance-is-not-the-smallest-possible",
            witness("a smaller tolerance already fits into max_size classes", json!({"tolerance_used": d_impl, "smallest_possible": d_knuth, "bruteforce": d_brute})),
        );
        return None;
    }
    obs.count("compress:minimality_refuted_smaller_tolerance");
    // information only: PLtoTF's `excess` rule would keep exactly m classes
    let (_, reps, _) = fa::pltotf_shorten_and_index(&sorted, mm);
    if reps.len() != k {
        obs.count("compress:info_pltotf_excess_rule_would_keep_more_classes");
    } else if reps != res[1..] {
        obs.count("compress:info_pltotf_rounds_negative_midpoint_differently");
    }
    Some(CompressFacts { compressed: true, tolerance: d_impl, classes: k })
}

fn compress_small_case(idx: u64, obs: &mut Obs) {
    let m = (idx % 12) as u8 + 1;
    let mask = idx / 12 + 1; // 1..=4095
    let values: Vec<i32> = (0..12).filter(|b| mask >> b & 1 == 1).map(|b| b as i32 - 3).collect();
    if let Some(f) = check_compress(&values, m, true, obs) {
        if f.compressed {
            obs.count("compress:really_compressed");
        }
        obs.nontrivial_by_construction(1);
        if obs.wants_sample() && f.compressed {
            obs.sample(json!({"values": values, "max_size": m, "tolerance": f.tolerance, "classes": f.classes}));
        }
    }
}

// ------------------------------------------------------------------------------------------
// coverage-guided stage
// ------------------------------------------------------------------------------------------

/// Entry point of the libFuzzer target `c17_compress_nextlarger` (harness/vfuzz). Byte 0 selects the oracle:
/// even = `check_compress` on the multiset of i32 values read from the following 4-byte groups (at most 300) with the
/// class limit of byte 1 (1..=255; brute-force minimality scan when at most 10 distinct values);
/// odd = `check_next_larger` on the functional graph given by byte pairs (character, next larger), presented in input
/// order, with byte 1 choosing whether non-existent targets are dropped and which characters do not exist.
pub fn fuzz_one(data: &[u8], obs: &mut Obs) {
    if data.len() < 2 {
        return;
    }
    let (sel, arg, rest) = (data[0], data[1], &data[2..]);
    if sel % 2 == 0 {
        let values: Vec<i32> = rest.chunks_exact(4).take(300).map(|c| i32::from_le_bytes([c[0], c[1], c[2], c[3]])).filter(|v| *v != i32::MIN).collect();
        let m = arg.max(1);
        let distinct = values.iter().collect::<BTreeSet<_>>().len();
        check_compress(&values, m, distinct <= 10, obs);
    } else {
        let mut edges: BTreeMap<u8, u8> = BTreeMap::new();
        let mut order: Vec<(u8, u8)> = vec![];
        for p in rest.chunks_exact(2).take(256) {
            // a character has one next-larger link: later pairs for the same character are ignored
            if let std::collections::btree_map::Entry::Vacant(e) = edges.entry(p[0]) {
                e.insert(p[1]);
                order.push((p[0], p[1]));
            }
        }
        let mut missing: BTreeSet<u8> = BTreeSet::new();
        if arg & 2 != 0 {
            for t in edges.values() {
                if t % 7 == arg % 7 {
                    missing.insert(*t);
                }
            }
        }
        check_next_larger(&edges, &order, &missing, arg & 1 != 0, obs);
    }
}

/// Seed corpus for the libFuzzer target: small multisets, arithmetic progressions, extreme values; chains, cycles, fans.
pub fn fuzz_seeds() -> vcore::fuzzglue::Seeds {
    let mut inputs: Vec<Vec<u8>> = vec![];
    let comp = |m: u8, vals: &[i32]| -> Vec<u8> {
        let mut v = vec![0u8, m];
        for x in vals {
            v.extend_from_slice(&x.to_le_bytes());
        }
        v
    };
    inputs.push(comp(1, &[1, 1, 3]));
    inputs.push(comp(2, &[0, 10, 11, 30, 31, 32]));
    inputs.push(comp(3, &[-5, -4, 0, 4, 5, 100, 101]));
    inputs.push(comp(15, &(0..40).map(|i| i * 65536 + (i % 3)).collect::<Vec<_>>()));
    inputs.push(comp(4, &[i32::MAX, i32::MAX - 1, -i32::MAX, 0, 1 << 30, -(1 << 30), 1500 << 20, 1600 << 20]));
    inputs.push(comp(255, &(0..300).map(|i| i * 7919).collect::<Vec<_>>()));
    let nl = |arg: u8, edges: &[(u8, u8)]| -> Vec<u8> {
        let mut v = vec![1u8, arg];
        for (a, b) in edges {
            v.push(*a);
            v.push(*b);
        }
        v
    };
    inputs.push(nl(0, &[(1, 2), (2, 3), (3, 1)]));
    inputs.push(nl(1, &[(1, 2), (2, 3), (3, 4), (9, 9)]));
    inputs.push(nl(3, &[(10, 20), (20, 30), (40, 30), (30, 30)]));
    inputs.push(nl(1, &(0..=255u8).map(|c| (c, 7)).collect::<Vec<_>>()));
    inputs.push(nl(0, &(0..=255u8).map(|c| (c, c.wrapping_add(1))).collect::<Vec<_>>()));
    vcore::fuzzglue::Seeds { inputs, dictionary: vec![] }
}

fn compress_random_case(rng: &mut Rng, obs: &mut Obs) {
    let n = match rng.below(10) {
        0 => rng.range_usize(0, 4),
        1..=3 => rng.range_usize(2, 20),
        4..=6 => rng.range_usize(10, 80),
        _ => rng.range_usize(40, 300),
    };
    let mut values: Vec<i32> = Vec::with_capacity(n);
    // TFM dimensions stay below 16.0, but a property list may hold any fix_word below 2048.0 and compress sees them
    // all: one case in four draws from the whole 32-bit range (sums of two such values do not fit in an i32)
    let lim = if rng.chance(1, 4) { i32::MAX } else { (16 << 20) - 1 };
    let style = rng.below(8);
    let centres: Vec<i32> = (0..rng.range_usize(1, 20)).map(|_| rng.range_i32(-lim, lim)).collect();
    let spread = 1i32 << rng.range_i32(0, 18);
    let step_bits = rng.range_i32(0, 16);
    let step = rng.range_i32(1, 1 << step_bits);
    let base = rng.range_i32(-(1 << 22), 1 << 22);
    for i in 0..n {
        let v = match style {
            0 => rng.range_i32(-lim, lim),
            1 => rng.range_i32(-40, 40),
            2 => base + step * i as i32,
            3 | 4 => (*rng.pick(&centres) as i64 + rng.range_i64(-(spread as i64), spread as i64)).clamp(-(lim as i64), lim as i64) as i32,
            5 => rng.range_i32(0, 1 << 20),
            6 => base.wrapping_add(step.wrapping_mul(rng.range_i32(0, 40))).clamp(-lim, lim),
            _ => {
                if rng.coin() {
                    rng.range_i32(-(1 << 20), 0)
                } else {
                    rng.range_i32(-lim, lim)
                }
            }
        };
        values.push(v.clamp(-lim, lim));
    }
    // duplicates: the input is a multiset
    for _ in 0..rng.range_usize(0, 5) {
        if !values.is_empty() && values.len() < 300 {
            let v = *rng.pick(&values);
            values.push(v);
        }
    }
    rng.shuffle(&mut values);
    let distinct = values.iter().collect::<BTreeSet<_>>().len();
    let m: u8 = match rng.below(6) {
        0 => rng.range_i32(1, 255) as u8,
        1 => *rng.pick(&[1u8, 15, 63, 255]),
        // most interesting: fewer classes than distinct values
        _ => rng.range_i64(1, (distinct.max(2) as i64 - 1).min(255)) as u8,
    };
    let brute = distinct <= 10;
    if let Some(f) = check_compress(&values, m, brute, obs) {
        obs.count("compress:calls_checked");
        if f.compressed {
            obs.count("compress:really_compressed");
            let mut canon: Vec<i32> = values.clone();
            canon.sort_unstable();
            canon.dedup();
            obs.nontrivial(&(canon, m));
            if f.classes < m as usize {
                obs.count("compress:fewer_classes_than_allowed_at_minimum");
            }
        }
        if obs.wants_sample() && f.compressed {
            obs.sample(json!({"n_values": values.len(), "distinct": distinct, "max_size": m,
                              "tolerance": f.tolerance, "tolerance_as_fix_word": fa::print_fix_word(f.tolerance as i32), "classes": f.classes}));
        }
    }
}

// ------------------------------------------------------------------------------------------
// pl_tables: the compression as PLtoTF wires it up (limits 255 / 15 / 15 / 63 + the reserved zero entry)
// ------------------------------------------------------------------------------------------

const PL_TABLE_NS: [[usize; 7]; 4] = [[1, 14, 15, 16, 17, 18, 40], [1, 14, 15, 16, 17, 18, 40], [1, 62, 63, 64, 65, 66, 120], [254, 255, 256, 0, 0, 0, 0]];
const PL_TABLE_CASES: u64 = 7 + 7 + 7 + 3;

fn pl_tables_case(idx: u64, obs: &mut Obs) {
    let (kind, n) = match idx {
        0..=6 => (0usize, PL_TABLE_NS[0][idx as usize]),
        7..=13 => (1, PL_TABLE_NS[1][idx as usize - 7]),
        14..=20 => (2, PL_TABLE_NS[2][idx as usize - 14]),
        _ => (3, PL_TABLE_NS[3][idx as usize - 21]),
    };
    let (name, limit, entries_max) = [("CHARHT", 15u8, 16usize), ("CHARDP", 15, 16), ("CHARIC", 63, 64), ("CHARWD", 255, 256)][kind];
    // distinct non-zero values k/64 with uneven gaps (so that classes are not all alike), all below 16.0
    let values: Vec<i32> = (0..n).map(|i| ((i + 1) * 3 + (i * i) % 3) as i32 * (1 << 14)).collect();
    let mut text = String::from("(DESIGNSIZE R 10.0)\n");
    for (i, v) in values.iter().enumerate() {
        let real = format!("{:.6}", *v as f64 / (1u64 << 20) as f64);
        if kind == 3 {
            text.push_str(&format!("(CHARACTER O {i:o} (CHARWD R {real}))\n"));
        } else {
            text.push_str(&format!("(CHARACTER O {i:o} (CHARWD R 1.0) ({name} R {real}))\n"));
        }
    }
    let witness = |extra: Value| json!({"table": name, "distinct_values": n, "limit": limit, "extra": extra});
    let (bytes, warnings) = match catch(|| tfm::algorithms::pl_to_tfm(&text)) {
        Ok(x) => x,
        Err(p) => {
            obs.repo_panic(&p, witness(json!({"what": "pl_to_tfm"})));
            return;
        }
    };
    if !warnings.is_empty() {
        obs.inconclusive(format!("pl_tables: generated property list has warnings ({} of them)", warnings.len()));
        return;
    }
    let file = match catch(|| tfm::File::deserialize(&bytes)) {
        Ok((Ok(f), _)) => f,
        Ok((Err(e), _)) => {
            obs.violation("pl_tables:output-rejected-by-reader", witness(json!({"error": format!("{e:?}")})));
            return;
        }
        Err(p) => {
            obs.repo_panic(&p, witness(json!({"what": "deserialize"})));
            return;
        }
    };
    obs.count("pl_tables:fonts");
    let table: &Vec<FixWord> = [&file.heights, &file.depths, &file.italic_corrections, &file.widths][kind];
    if table.len() > entries_max {
        obs.violation("pl_tables:table-larger-than-the-format-allows", witness(json!({"entries": table.len(), "max": entries_max})));
        return;
    }
    // what compress says for the limit PLtoTF uses (compress itself is the subject of the other phases)
    let input: Vec<FixWord> = values.iter().map(|v| FixWord(*v)).collect();
    let (reps, map) = match catch(|| tfm::compress(&input, limit)) {
        Ok(x) => x,
        Err(p) => {
            obs.repo_panic(&p, witness(json!({"what": "compress"})));
            return;
        }
    };
    if n > limit as usize {
        obs.count("pl_tables:fonts_that_needed_compression");
    }
    for (i, v) in values.iter().enumerate() {
        let Some(d) = file.char_dimens.get(&Char(i as u8)) else {
            obs.violation("pl_tables:character-lost", witness(json!({"char": i})));
            return;
        };
        let index = match kind {
            0 => d.height_index as usize,
            1 => d.depth_index as usize,
            2 => d.italic_index as usize,
            _ => d.width_index.get() as usize,
        };
        let back = table.get(index).copied();
        let want = map.get(&FixWord(*v)).and_then(|k| reps.get(k.get() as usize)).copied();
        if back != want || back.is_none() {
            obs.violation(
                "pl_tables:character-value-is-not-its-class-representative",
                witness(json!({"char": i, "specified": v, "read_back": back.map(|f| f.0), "index": index,
                               "class_representative_under_the_limit": want.map(|f| f.0), "table_entries": table.len()})),
            );
            return;
        }
        obs.count("pl_tables:characters_checked");
    }
    obs.nontrivial_by_construction(1);
}

// ------------------------------------------------------------------------------------------
// next larger

const NL_LABELS: [u8; 6] = [0, 7, 100, 128, 200, 255];
// sum over n=1..=6 of (n+1)^n
const NL_ENUM_TOTAL: u64 = 2 + 9 + 64 + 625 + 7776 + 117_649;

fn nextlarger_enum_case(idx: u64, obs: &mut Obs) {
    // decode: which n, then a mixed-radix number with n digits in base n+1 (digit n = no link)
    let mut rest = idx;
    let mut n = 1u64;
    loop {
        let size = (n + 1).pow(n as u32);
        if rest < size {
            break;
        }
        rest -= size;
        n += 1;
    }
    let mut edges: BTreeMap<u8, u8> = BTreeMap::new();
    for i in 0..n {
        let d = rest % (n + 1);
        rest /= n + 1;
        if d < n {
            edges.insert(NL_LABELS[i as usize], NL_LABELS[d as usize]);
        }
    }
    let order: Vec<(u8, u8)> = edges.iter().map(|(a, b)| (*a, *b)).collect();
    check_next_larger(&edges, &order, &BTreeSet::new(), true, obs);
    obs.nontrivial_by_construction(1);
}

const NL_STAR_TARGETS: [u8; 5] = [0, 1, 127, 128, 255];
const NL_STAR_TOTAL: u64 = 5 * 7 * 3;

/// Fan-in at the limit of the character range: k of the 256 characters name the same next-larger character t.
/// mode 0: t itself has no link (k <= 255 sources); mode 1: t -> t is one of the k links (in-degree up to 256);
/// mode 2: t -> its smallest source, everybody else -> t (a 2-cycle with a fan).
fn nextlarger_star_case(idx: u64, obs: &mut Obs) {
    let t = NL_STAR_TARGETS[(idx % 5) as usize];
    let k = 250 + ((idx / 5) % 7) as usize;
    let mode = idx / 35;
    let mut edges: BTreeMap<u8, u8> = BTreeMap::new();
    let others: Vec<u8> = (0..=255u8).filter(|c| *c != t).collect();
    match mode {
        0 => {
            for c in others.iter().take(k.min(255)) {
                edges.insert(*c, t);
            }
        }
        1 => {
            edges.insert(t, t);
            for c in others.iter().take(k - 1) {
                edges.insert(*c, t);
            }
        }
        _ => {
            edges.insert(t, others[0]);
            for c in others.iter().take(k.min(255)) {
                edges.insert(*c, t);
            }
        }
    }
    // the order in which the links are presented must not matter: ascending, descending, target's own link last
    for ord in 0..3 {
        let mut order: Vec<(u8, u8)> = edges.iter().map(|(a, b)| (*a, *b)).collect();
        match ord {
            0 => {}
            1 => order.reverse(),
            _ => {
                if let Some(i) = order.iter().position(|(a, _)| *a == t) {
                    let e = order.remove(i);
                    order.push(e);
                }
            }
        }
        check_next_larger(&edges, &order, &BTreeSet::new(), ord != 1, obs);
    }
    let indeg = edges.values().filter(|x| **x == t).count() as u64;
    if indeg >= 256 {
        obs.count("nextlarger:star_in_degree_256");
    }
    obs.nontrivial_by_construction(1);
}

fn nextlarger_random_case(rng: &mut Rng, obs: &mut Obs) {
    let n_nodes = match rng.below(4) {
        0 => rng.range_usize(1, 8),
        1 => rng.range_usize(4, 40),
        2 => 256,
        _ => rng.range_usize(20, 256),
    };
    let mut nodes: Vec<u8> = (0..=255u8).collect();
    rng.shuffle(&mut nodes);
    nodes.truncate(n_nodes);
    let mut edges: BTreeMap<u8, u8> = BTreeMap::new();
    let density = rng.range_i64(1, 10) as u64;
    let style = rng.below(5);
    let hubs: Vec<u8> = (0..rng.range_usize(1, 3)).map(|_| *rng.pick(&nodes)).collect();
    for (i, &c) in nodes.iter().enumerate() {
        if !rng.chance(density, 10) {
            continue;
        }
        let t = match style {
            // long chains and big cycles: link to the next node of the shuffled order
            0 => nodes[(i + 1) % nodes.len()],
            // mostly upwards (like real fonts), sometimes back
            1 => {
                let bigger: Vec<u8> = nodes.iter().copied().filter(|x| *x > c).collect();
                if !bigger.is_empty() && rng.chance(9, 10) {
                    *rng.pick(&bigger)
                } else {
                    *rng.pick(&nodes)
                }
            }
            // fans: nearly everybody names one of a few hubs (large in-degrees)
            4 => {
                if rng.chance(19, 20) {
                    *rng.pick(&hubs)
                } else {
                    *rng.pick(&nodes)
                }
            }
            _ => *rng.pick(&nodes),
        };
        edges.insert(c, t);
    }
    // some target characters do not exist
    let mut missing: BTreeSet<u8> = BTreeSet::new();
    if rng.chance(1, 3) {
        for t in edges.values() {
            if rng.chance(1, 6) {
                missing.insert(*t);
            }
        }
    }
    let drop = rng.coin();
    let mut order: Vec<(u8, u8)> = edges.iter().map(|(a, b)| (*a, *b)).collect();
    rng.shuffle(&mut order);
    check_next_larger(&edges, &order, &missing, drop, obs);
    if !edges.is_empty() {
        obs.nontrivial(&(order.iter().collect::<BTreeSet<_>>(), &missing, drop));
    }
}

fn check_next_larger(
    edges: &BTreeMap<u8, u8>,
    order: &[(u8, u8)],
    missing: &BTreeSet<u8>,
    drop_non_existent: bool,
    obs: &mut Obs,
) {
    let witness = |extra: Value| {
        json!({"edges": order, "non_existent": missing, "drop_non_existent_characters": drop_non_existent, "extra": extra})
    };
    let real = catch(|| {
        let (prog, warnings) = NextLargerProgram::new(
            order.iter().map(|(a, b)| (Char(*a), Char(*b))),
            |c| !missing.contains(&c.0),
            drop_non_existent,
        );
        let chains: Vec<Vec<u8>> = (0..=255u8)
            .map(|c| prog.get(Char(c)).take(300).map(|x| x.0).collect())
            .collect();
        (chains, warnings)
    });
    let (chains, warnings) = match real {
        Ok(r) => r,
        Err(p) => {
            obs.repo_panic(&p, witness(json!({"what": "NextLargerProgram::new/get"})));
            return;
        }
    };
    // the links the model starts from: TFtoPL drops links to non-existent characters, PLtoTF keeps them
    let mut start = edges.clone();
    let mut to_missing = 0u64;
    for (a, b) in edges {
        if missing.contains(b) {
            to_missing += 1;
            if drop_non_existent {
                start.remove(a);
            }
        }
    }
    let (links, cut) = fa::next_larger_links(&start);
    let (links2, cut2) = fa::next_larger_links_by_cycles(&start);
    if links != links2 || cut != cut2 {
        obs.inconclusive(format!("model disagreement on cycle cuts: {cut:?} vs {cut2:?} for {start:?}"));
        return;
    }
    for c in 0..=255u8 {
        let got = &chains[c as usize];
        // finite
        if got.len() >= 300 {
            obs.violation("nextlarger:chain-does-not-end", witness(json!({"from": c, "chain_head": &got[..20]})));
            return;
        }
        // follows the font's links
        let mut prev = c;
        for x in got {
            if start.get(&prev) != Some(x) {
                obs.violation("nextlarger:chain-does-not-follow-the-links", witness(json!({"from": c, "chain": got, "bad_step": [prev, x]})));
                return;
            }
            prev = *x;
        }
        // ends only where the font has no link or at the largest member of a cycle
        let want = fa::next_larger_chain(&links, c).expect("model chains are finite");
        if *got != want {
            obs.violation(
                "nextlarger:chain-cut-at-the-wrong-place",
                witness(json!({"from": c, "chain": got, "expected": want, "cycle_cut_at": cut})),
            );
            return;
        }
    }
    // warnings name exactly the cut characters / the links to non-existent characters
    let mut warned_cut: Vec<u8> = vec![];
    let mut warned_missing: Vec<(u8, u8)> = vec![];
    for w in &warnings {
        match w {
            NextLargerProgramWarning::InfiniteLoop { original, next_larger } => {
                if edges.get(&original.0) != Some(&next_larger.0) {
                    obs.violation("nextlarger:loop-warning-names-a-non-link", witness(json!({"original": original.0, "next_larger": next_larger.0})));
                    return;
                }
                warned_cut.push(original.0)
            }
            NextLargerProgramWarning::NonExistentCharacter { original, next_larger } => {
                warned_missing.push((original.0, next_larger.0))
            }
        }
    }
    warned_cut.sort_unstable();
    warned_missing.sort_unstable();
    if warned_cut != cut {
        obs.violation("nextlarger:loop-warnings-differ-from-cuts", witness(json!({"warned": warned_cut, "expected_cuts": cut})));
        return;
    }
    let want_missing: Vec<(u8, u8)> = edges.iter().filter(|(_, b)| missing.contains(b)).map(|(a, b)| (*a, *b)).collect();
    if warned_missing != want_missing {
        obs.violation("nextlarger:non-existent-warnings-differ", witness(json!({"warned": warned_missing, "expected": want_missing})));
        return;
    }
    obs.add("nextlarger:chains_checked", 256);
    obs.add("nextlarger:edges_to_nonexistent", to_missing);
    if !cut.is_empty() {
        obs.count("nextlarger:graphs_with_cycle");
        // cycle lengths
        for c in &cut {
            let mut len = 1;
            let mut x = start[c];
            while x != *c {
                x = start[&x];
                len += 1;
            }
            if len >= 3 {
                obs.count("nextlarger:cycles_len>=3");
            }
            if len == 1 {
                obs.count("nextlarger:self_loops");
            }
        }
        if cut.len() >= 2 {
            obs.count("nextlarger:graphs_with_several_cycles");
        }
    }
    let longest = chains.iter().map(|c| c.len()).max().unwrap_or(0);
    if longest >= 10 {
        obs.count("nextlarger:graphs_with_chain_len>=10");
    }
    if obs.wants_sample() && !cut.is_empty() {
        obs.sample(json!({"edges": order.iter().take(12).collect::<Vec<_>>(), "n_edges": order.len(),
                          "cycle_cut_at": cut, "longest_chain": longest}));
    }
}

// ------------------------------------------------------------------------------------------
// calibration: the models against ground truth that exists in the repository

fn calibrate(obs: &mut Obs) {
    // (1) TFtoPL out_fix / PLtoTF get_fix against files written by Knuth's tftopl: every "R x.y"
    // in a .plst that has a .tfm of the same name was printed by out_fix, hence
    // print(parse(text)) must reproduce the text exactly.
    let corpus = repo_dir().join("crates/tfm/corpus");
    let mut reals = 0u64;
    let mut files = 0u64;
    for sub in ["computer-modern", "ctan"] {
        let Ok(rd) = std::fs::read_dir(corpus.join(sub)) else {
            continue;
        };
        let mut paths: Vec<_> = rd.filter_map(|e| e.ok().map(|e| e.path())).collect();
        paths.sort();
        for p in paths {
            if p.extension().map_or(true, |e| e != "plst") {
                continue;
            }
            let name = p.file_name().unwrap().to_string_lossy().to_string();
            let Ok(text) = std::fs::read_to_string(&p) else {
                continue;
            };
            // tftopl always writes these two comments; hand-written PL input does not carry them
            if !text.contains("(COMMENT DESIGNSIZE IS IN POINTS)") || !text.contains("(COMMENT OTHER SIZES ARE MULTIPLES OF DESIGNSIZE)") {
                continue;
            }
            files += 1;
            let bytes = text.as_bytes();
            let mut i = 0;
            while i + 3 < bytes.len() {
                if bytes[i] == b' ' && bytes[i + 1] == b'R' && bytes[i + 2] == b' ' {
                    let s = i + 3;
                    let mut e = s;
                    while e < bytes.len() && (bytes[e] == b'-' || bytes[e] == b'.' || bytes[e].is_ascii_digit()) {
                        e += 1;
                    }
                    if e > s && bytes.get(e) == Some(&b')') {
                        let t = &text[s..e];
                        match fa::parse_fix_word(t) {
                            Ok(v) => {
                                reals += 1;
                                let back = fa::print_fix_word(v);
                                if back != t {
                                    obs.inconclusive(format!(
                                        "calibration: tftopl printed '{t}' in {name}, model prints '{back}' for the same fix_word {v}"
                                    ));
                                    return;
                                }
                            }
                            Err(e) => {
                                obs.inconclusive(format!("calibration: model cannot parse tftopl output '{t}' in {name}: {e:?}"));
                                return;
                            }
                        }
                    }
                    i = e;
                } else {
                    i += 1;
                }
            }
        }
    }
    obs.add("calibration:tftopl_reals_reprinted_identically", reals);
    obs.add("calibration:tftopl_files", files);
    if reals < 5_000 {
        obs.inconclusive(format!("calibration: only {reals} tftopl-printed reals found under {}", corpus.display()));
    }

    // (2) store_scaled against dimensions TeX itself produced (asserted in the repository's unit
    // tests, which were verified against a real TeX): boxworks-text/src/lib.rs (cmr10,
    // smfebsl10) and tfm/src/ligkern/mod.rs (ligaroo).
    let golden: [(&str, &str, &str); 11] = [
        ("10.0", "0.333334", "3.33333"),
        ("10.0", "0.166667", "1.66666"),
        ("10.0", "0.111112", "1.11111"),
        ("10.0", "-0.027779", "-0.27779"),
        ("10.0", "-0.111112", "-1.11113"),
        ("7.970093", "0.6", "4.78204"),
        ("7.970093", "0.299999", "2.39102"),
        ("7.970093", "0.15", "1.19551"),
        ("10.0", "0.1", "1.0"),
        ("10.0", "0.3", "3.0"),
        ("10.0", "1.0", "10.0"),
    ];
    for (ds, v, want) in golden {
        let d = fa::parse_fix_word(ds).unwrap();
        let f = fa::parse_fix_word(v).unwrap();
        let got = fa::store_scaled(f, d).map(fa::print_scaled);
        let got2 = fa::store_scaled_closed_form(f, d).map(fa::print_scaled);
        if got.as_deref() != Some(want) || got2.as_deref() != Some(want) {
            obs.inconclusive(format!("calibration: store_scaled({v} at {ds}pt) = {got:?}/{got2:?}, TeX gives {want}pt"));
        } else {
            obs.count("calibration:tex_verified_dimensions_reproduced");
        }
    }

    // (3) compression model against the nine unit-test cases of tfm/src/lib.rs (values, limit,
    // expected result without the leading zero)
    let one = 1i64 << 20;
    let cases: Vec<(Vec<i64>, usize, Vec<i64>)> = vec![
        (vec![], 1, vec![]),
        (vec![2 * one, one], 2, vec![one, 2 * one]),
        (vec![one, one], 1, vec![one]),
        (vec![one, 2 * one], 1, vec![3 * one / 2]),
        (vec![one, 2 * one, 200 * one, 201 * one], 2, vec![3 * one / 2, 401 * one / 2]),
        (vec![1, 3], 1, vec![2]),
        (vec![0, 2], 1, vec![1]),
        (vec![1, 4], 1, vec![2]),
        (vec![1, 2], 1, vec![1]),
    ];
    for (vals, m, want) in cases {
        let sorted: Vec<i64> = vals.iter().copied().collect::<BTreeSet<_>>().into_iter().collect();
        let d = fa::shorten(&sorted, m);
        let reps: Vec<i64> = fa::greedy_cover(&sorted, d)
            .iter()
            .map(|(s, e)| sorted[*s] + (sorted[*e - 1] - sorted[*s]) / 2)
            .collect();
        let brute = if sorted.is_empty() { 0 } else { fa::smallest_tolerance_bruteforce(&sorted, m) };
        if reps != want || brute != d {
            obs.inconclusive(format!("calibration: compression model gives {reps:?} (d={d}, brute={brute}) for {vals:?}/{m}, unit test expects {want:?}"));
        } else {
            obs.count("calibration:compress_unit_cases_reproduced");
        }
    }

    // (4) next-larger model against the unit-test cases of tfm/src/lib.rs
    let (a, b, c, x, y, z) = (b'A', b'B', b'C', b'X', b'Y', b'Z');
    let nl_cases: Vec<(Vec<(u8, u8)>, Vec<(u8, Vec<u8>)>, Vec<u8>)> = vec![
        (vec![(a, a)], vec![(a, vec![])], vec![a]),
        (
            vec![(a, b), (b, c), (c, b), (x, y), (y, z), (z, x)],
            vec![(a, vec![b, c]), (b, vec![c]), (c, vec![]), (x, vec![y, z]), (y, vec![z]), (z, vec![])],
            vec![c, z],
        ),
        (vec![(a, b), (b, c), (c, b)], vec![(a, vec![b, c]), (b, vec![c]), (c, vec![])], vec![c]),
        (
            (0..=255u8).map(|u| (u, u.wrapping_add(1))).collect(),
            (0..=255u8).map(|u| (u, ((u as u16 + 1)..=255).map(|w| w as u8).collect())).collect(),
            vec![255],
        ),
    ];
    for (edges, want_chains, want_cut) in nl_cases {
        let e: BTreeMap<u8, u8> = edges.into_iter().collect();
        let (links, cut) = fa::next_larger_links(&e);
        let ok = cut == want_cut
            && fa::next_larger_links_by_cycles(&e) == (links.clone(), cut.clone())
            && want_chains.iter().all(|(c, ch)| fa::next_larger_chain(&links, *c).as_ref() == Some(ch));
        if !ok {
            obs.inconclusive(format!("calibration: next-larger model disagrees with a unit-test case (cuts {cut:?}, expected {want_cut:?})"));
        } else {
            obs.count("calibration:next_larger_unit_cases_reproduced");
        }
    }
    let _ = HashMap::<u8, u8>::new();
}
