//! Workload generators for C14: paragraphs of text (tokens, spaces, foreign nodes), lig/kern
//! programs for the synthetic fonts, pattern sets and exception lists.

use crate::world::{Extra, Item};
use crate::{FontSpec, PatSpec, Spec};
use vcore::Rng;

fn pick<'a>(rng: &mut Rng, xs: &[&'a str]) -> &'a str {
    xs[rng.usize_below(xs.len())]
}

fn pickc(rng: &mut Rng, xs: &[char]) -> char {
    xs[rng.usize_below(xs.len())]
}

pub fn gen_mins(rng: &mut Rng) -> (i32, i32) {
    let one = |rng: &mut Rng| -> i32 {
        if rng.chance(1, 10) {
            *rng.pick(&[0, -3, 5, 7, 31, 32, 62, 63, 64, 1000])
        } else {
            rng.range_i32(1, 4)
        }
    };
    (one(rng), one(rng))
}

// ------------------------------------------------------------------------------------------
// cmr10 text
// ------------------------------------------------------------------------------------------

const ONSETS: &[&str] = &[
    "b", "c", "d", "f", "g", "h", "j", "k", "l", "m", "n", "p", "qu", "r", "s", "t", "v", "w", "x", "z", "bl",
    "br", "ch", "cl", "cr", "dr", "fl", "fr", "gl", "gr", "ph", "pl", "pr", "sc", "sh", "sl", "sp", "st", "str",
    "th", "tr", "wh", "", "",
];
const NUCLEI: &[&str] = &["a", "e", "i", "o", "u", "y", "ai", "ea", "ee", "ie", "io", "oo", "ou", "ia"];
const CODAS: &[&str] = &[
    "", "", "", "n", "r", "s", "t", "l", "m", "ng", "nt", "st", "ck", "ff", "ff", "ll", "ss", "rd", "x", "c",
    "ble", "tion", "ment", "ness", "ing", "ed", "ly", "ism", "ist", "ic", "al", "f", "ffl", "ffi",
];
/// Fragments that produce cmr10's ligatures and kerns.
const LIGGY: &[&str] = &[
    "ff", "fi", "fl", "ffi", "ffl", "fff", "ffff", "fif", "flf", "AV", "VA", "AW", "Ta", "To", "Ty", "Wa", "Yo",
    "ow", "av", "ky", "xe", "ka", "Fo", "Pa", "LT", "RV", "OA", "DY", "ook", "bo", "po", "va", "we", "ye",
];
const WORDS: &[&str] = &[
    "difficult", "affliction", "waffle", "office", "efficient", "shuffling", "hyphenation", "contents",
    "concatenation", "algorithm", "supercalifragilisticexpialidocious", "bachelor", "campfire", "table",
    "associate", "declination", "obligatory", "philanthropic", "present", "project", "record", "reformation",
    "retribution", "typography", "manuscript", "baffling", "affinity", "stiffly", "fluffiest", "cuffs",
    "Avocado", "WAVE", "Toyota", "fjord", "suffix", "coffee", "raffle", "Waffle", "AFFLICTION", "Office",
];
const PRE_PUNCT: &[&str] = &["(", "``", "`", "[", "\"", "---", "'", "*", "1", "12", "$", "/"];
const POST_PUNCT: &[&str] = &[".", ",", ";", ":", "!", "?", ")", "''", "'", "]", "...", ".)", "?'", "'s", "1", "/", "--"];
const LETTERLESS: &[&str] = &["3.0", "1984", "--", "---", "...", "(1)", "&", "12:30", "$5", "7,", "?!", "''", "``", "-", "1.", "2)"];

fn recase(rng: &mut Rng, w: &str) -> String {
    match rng.below(8) {
        0..=3 => w.to_string(),
        4 => w.to_ascii_uppercase(),
        5 => {
            let mut c = w.chars();
            match c.next() {
                Some(f) => f.to_ascii_uppercase().to_string() + c.as_str(),
                None => String::new(),
            }
        }
        _ => w
            .chars()
            .map(|c| if rng.chance(1, 3) { c.to_ascii_uppercase() } else { c })
            .collect(),
    }
}

fn english_like(rng: &mut Rng) -> String {
    let mut w = String::new();
    match rng.below(10) {
        0..=2 => w.push_str(pick(rng, WORDS)),
        3..=5 => {
            for _ in 0..rng.range_usize(1, 5) {
                w.push_str(pick(rng, ONSETS));
                w.push_str(pick(rng, NUCLEI));
                w.push_str(pick(rng, CODAS));
            }
        }
        6..=8 => {
            for _ in 0..rng.range_usize(1, 4) {
                if rng.coin() {
                    w.push_str(pick(rng, LIGGY));
                } else {
                    w.push_str(pick(rng, ONSETS));
                    w.push_str(pick(rng, NUCLEI));
                }
                if rng.coin() {
                    w.push_str(pick(rng, CODAS));
                }
            }
        }
        _ => {
            // longer than TeX's 63 letter limit
            while w.len() < rng.range_usize(60, 90) {
                w.push_str(pick(rng, ONSETS));
                w.push_str(pick(rng, NUCLEI));
                w.push_str(pick(rng, CODAS));
                if rng.chance(1, 4) {
                    w.push_str(pick(rng, LIGGY));
                }
            }
        }
    }
    if w.is_empty() {
        w.push('a');
    }
    recase(rng, &w)
}

fn extras(rng: &mut Rng, items: &mut Vec<Item>) {
    let e = *rng.pick(&[
        Extra::Penalty,
        Extra::ExplicitKern,
        Extra::HBox,
        Extra::Rule,
        Extra::MathOn,
        Extra::Mark,
        Extra::Glue,
        Extra::EmptyDisc,
    ]);
    items.push(Item::Node(e));
    if e == Extra::MathOn {
        items.push(Item::Node(Extra::MathOff));
    }
}

/// The maximal runs of ASCII letters of a token (what a hyphenator may find as words).
pub fn letter_runs(t: &str) -> Vec<String> {
    let mut out = vec![];
    let mut cur = String::new();
    for c in t.chars() {
        if c.is_ascii_alphabetic() {
            cur.push(c);
        } else if !cur.is_empty() {
            out.push(std::mem::take(&mut cur));
        }
    }
    if !cur.is_empty() {
        out.push(cur);
    }
    out
}

fn cmr10_token(rng: &mut Rng) -> String {
    match rng.below(20) {
        0..=1 => pick(rng, LETTERLESS).to_string(),
        2 => format!("{}-{}", english_like(rng), english_like(rng)),
        3 => {
            let w = english_like(rng);
            match rng.below(4) {
                0 => format!("-{w}"),
                1 => format!("{w}-"),
                2 => format!("{w}--{}", english_like(rng)),
                _ => format!("{}{}{}", english_like(rng), rng.below(100), w),
            }
        }
        4..=9 => {
            let mut t = String::new();
            if rng.chance(1, 3) {
                t.push_str(pick(rng, PRE_PUNCT));
            }
            t.push_str(&english_like(rng));
            if rng.chance(2, 3) {
                t.push_str(pick(rng, POST_PUNCT));
            }
            t
        }
        _ => english_like(rng),
    }
}

pub fn gen_paragraph_cmr10(rng: &mut Rng) -> Vec<Item> {
    let mut items = vec![];
    // TeX never hyphenates the first word (no glue before it): start with one most of the time
    if rng.chance(9, 10) {
        items.push(Item::Text(pick(rng, &["x", "The", "A", "(1)", "3.0", "of"]).to_string(), 0));
        items.push(Item::Space);
    }
    let n = rng.range_usize(1, 9);
    for _ in 0..n {
        let t = cmr10_token(rng);
        let font = if rng.chance(1, 8) { 1 } else { 0 };
        if rng.chance(1, 12) && t.len() >= 4 {
            // font change inside the token
            let cut = rng.range_usize(1, t.len() - 1);
            if t.is_char_boundary(cut) {
                items.push(Item::Text(t[..cut].to_string(), font));
                items.push(Item::Text(t[cut..].to_string(), 1 - font));
            } else {
                items.push(Item::Text(t, font));
            }
        } else {
            items.push(Item::Text(t, font));
        }
        match rng.below(12) {
            0 => {
                // a foreign node directly after the token, then (maybe) a space
                extras(rng, &mut items);
                if rng.coin() {
                    items.push(Item::Space);
                }
            }
            1 => {
                items.push(Item::Space);
                extras(rng, &mut items);
                if rng.coin() {
                    items.push(Item::Space);
                }
            }
            _ => items.push(Item::Space),
        }
    }
    items
}

/// Dense custom patterns (levels 0-5 only: C13's finding about levels 7-9 is kept out of C14) and
/// exceptions built from the letter runs of the paragraph, so that hyphens land inside ligatures.
pub fn gen_custom_patterns(rng: &mut Rng, items: &[Item], density: u64) -> PatSpec {
    let mut runs: Vec<String> = vec![];
    for it in items {
        if let Item::Text(t, _) = it {
            runs.extend(letter_runs(t));
        }
    }
    let mut patterns: Vec<String> = vec![];
    let mut keys = std::collections::HashSet::new();
    let npat = rng.range_usize(0, 10);
    for _ in 0..npat {
        if runs.is_empty() {
            break;
        }
        let w: Vec<char> = rng.pick(&runs).to_ascii_lowercase().chars().collect();
        let len = rng.range_usize(1, 3.min(w.len()));
        let st = rng.usize_below(w.len() - len + 1);
        let letters = &w[st..st + len];
        let start = st == 0 && rng.chance(1, 4);
        let end = st + len == w.len() && rng.chance(1, 4);
        if !keys.insert((start, end, letters.to_vec())) {
            continue;
        }
        let mut s = String::new();
        if start {
            s.push('.');
        }
        let mut any = false;
        for (i, c) in letters.iter().enumerate() {
            if rng.chance(1, 2) && !(i == 0 && start && rng.coin()) {
                s.push((b'0' + rng.range_usize(1, 5) as u8) as char);
                any = true;
            }
            s.push(*c);
        }
        if !any || rng.chance(1, 3) {
            s.push((b'0' + rng.range_usize(1, 5) as u8) as char);
        }
        if end {
            s.push('.');
        }
        patterns.push(s);
    }
    let mut exceptions = vec![];
    for r in &runs {
        if r.len() > 40 || !rng.chance(density, 100) {
            continue;
        }
        let w: Vec<char> = r.to_ascii_lowercase().chars().collect();
        let mut s = String::new();
        for (i, c) in w.iter().enumerate() {
            s.push(*c);
            if i + 1 < w.len() && rng.chance(1, 2) {
                s.push('-');
            }
        }
        exceptions.push(s);
    }
    PatSpec::Custom { patterns, exceptions }
}

pub fn gen_cmr10(rng: &mut Rng) -> Spec {
    let items = gen_paragraph_cmr10(rng);
    let pats = if rng.coin() {
        PatSpec::Plain
    } else {
        gen_custom_patterns(rng, &items, 60)
    };
    let (lmin, rmin) = gen_mins(rng);
    Spec { font: FontSpec::Cmr10, items, pats, lmin, rmin }
}

// ------------------------------------------------------------------------------------------
// synthetic fonts
// ------------------------------------------------------------------------------------------

pub const SYN_LETTERS: &[char] = &['a', 'b', 'c', 'd'];
const SYN_GLYPHS: &[char] = &['x', 'y', 'z', 'w', '0', '1'];

#[derive(Clone, Copy, Debug, PartialEq, Eq, Hash)]
pub enum RuleOp {
    Kern(i32),
    /// one of the eight forms, 0..8, and the inserted character
    Lig(u8, char),
}

#[derive(Clone, Copy, Debug, PartialEq, Eq, Hash)]
pub struct Rule {
    pub left: char, // '|' = left boundary
    pub right: char, // '|' = right boundary
    pub op: RuleOp,
}

impl Rule {
    pub fn text(&self) -> String {
        let (l, r) = (self.left, self.right);
        match self.op {
            RuleOp::Kern(k) => format!("{l}{r} -> {l}[{k}]{r}"),
            RuleOp::Lig(form, i) => {
                let rhs = match form {
                    0 => format!("{l}^{i}{r}"),
                    1 => format!("{l}{i}^{r}"),
                    2 => format!("{l}{i}{r}^"),
                    3 => format!("_{i}^{r}"),
                    4 => format!("_{i}{r}^"),
                    5 => format!("{l}^{i}_"),
                    6 => format!("{l}{i}^_"),
                    _ => format!("_{i}^_"),
                };
                format!("{l}{r} -> {rhs}")
            }
        }
    }
}

pub fn program_text(rules: &[Rule]) -> String {
    rules.iter().map(|r| r.text()).collect::<Vec<_>>().join("\n")
}

pub fn gen_rule(rng: &mut Rng) -> Rule {
    let left = match rng.below(20) {
        0..=9 => pickc(rng, SYN_LETTERS),
        10..=13 => pickc(rng, SYN_GLYPHS),
        14..=16 => '|',
        17..=18 => '-',
        _ => '.',
    };
    let right = match rng.below(40) {
        0..=19 => pickc(rng, SYN_LETTERS),
        20..=23 => pickc(rng, SYN_GLYPHS),
        24..=29 => '-',
        30..=34 => '|',
        35..=37 => '.',
        _ => ',',
    };
    let op = if rng.chance(3, 10) {
        RuleOp::Kern(*rng.pick(&[100, -50, 200, 7]))
    } else {
        let ins = match rng.below(10) {
            0..=6 => pickc(rng, SYN_GLYPHS),
            7 => pickc(rng, SYN_LETTERS),
            8 => '.',
            _ => ',',
        };
        // the plain LIG form is what real fonts use: make it the most frequent
        let form = if rng.chance(1, 3) { 7 } else { rng.below(8) as u8 };
        RuleOp::Lig(form, ins)
    };
    Rule { left, right, op }
}

pub fn gen_program(rng: &mut Rng) -> Vec<Rule> {
    let n = match rng.below(10) {
        0 => 0,
        1..=3 => rng.range_usize(1, 2),
        4..=7 => rng.range_usize(3, 5),
        _ => rng.range_usize(6, 10),
    };
    let mut rules: Vec<Rule> = vec![];
    // Chained rules: independent random rules almost never feed each other, so one program in four starts with a
    // chain in which the result of one rule is the left side of the next: (l,r) -> a ligature form that keeps l and
    // leaves the cursor on it (forms `l^ir`, `l^i_`), (l,i) -> a kern or another ligature, and a rule for what
    // follows the inserted glyph (the hyphen, a pending kern with the next letter, a ligature with it). That is the
    // shape in which one inseparable group holds a kern that is NOT its last node, a ligature built on a ligature,
    // or a group whose last character has a rule with the hyphen.
    if rng.chance(1, 4) {
        let l = pickc(rng, SYN_LETTERS);
        let r = pickc(rng, SYN_LETTERS);
        let g = pickc(rng, SYN_GLYPHS);
        rules.push(Rule { left: l, right: r, op: RuleOp::Lig(*rng.pick(&[0u8, 5, 5]), g) });
        let second = if rng.chance(2, 3) {
            RuleOp::Kern(*rng.pick(&[100, -50, 200, 7]))
        } else {
            RuleOp::Lig(*rng.pick(&[0u8, 1, 5, 6]), pickc(rng, SYN_GLYPHS))
        };
        if l != g {
            rules.push(Rule { left: l, right: g, op: second });
        }
        let next = match rng.below(4) {
            0 | 1 => '-',
            2 => pickc(rng, SYN_LETTERS),
            _ => '|',
        };
        let third = if rng.coin() {
            RuleOp::Kern(*rng.pick(&[100, -50, 200, 7]))
        } else {
            RuleOp::Lig(rng.below(8) as u8, pickc(rng, SYN_GLYPHS))
        };
        if !rules.iter().any(|q| q.left == g && q.right == next) {
            rules.push(Rule { left: g, right: next, op: third });
        }
    }
    for _ in 0..n {
        let r = gen_rule(rng);
        if !rules.iter().any(|q| q.left == r.left && q.right == r.right) {
            rules.push(r);
        }
    }
    rules
}

fn syn_word(rng: &mut Rng) -> String {
    let len = match rng.below(10) {
        0 => 1,
        1..=6 => rng.range_usize(2, 5),
        _ => rng.range_usize(6, 9),
    };
    let mut w = String::new();
    for _ in 0..len {
        let c = match rng.below(12) {
            0 => pickc(rng, &['x', 'y']),
            1 if rng.chance(1, 3) => pickc(rng, &['A', 'B']),
            _ => pickc(rng, SYN_LETTERS),
        };
        w.push(c);
    }
    w
}

fn syn_token(rng: &mut Rng) -> String {
    match rng.below(25) {
        0..=1 => pick(rng, &["0.1", "..", "-", "|", "1", ",", "0-1"]).to_string(),
        2 => format!("{}-{}", syn_word(rng), syn_word(rng)),
        3 => format!("{}{}{}", syn_word(rng), pickc(rng, &['0', '1', '.', '|']), syn_word(rng)),
        4 => {
            // longer than 63 letters
            let mut w = String::new();
            while w.len() < rng.range_usize(62, 70) {
                w.push_str(&syn_word(rng));
            }
            w
        }
        _ => {
            let mut t = String::new();
            if rng.chance(3, 20) {
                t.push(pickc(rng, &['(', '.', '-', '|', '0', ',']));
            }
            t.push_str(&syn_word(rng));
            if rng.chance(1, 4) {
                t.push(pickc(rng, &['.', ',', '-', '|', '1', ')', '.']));
            }
            t
        }
    }
}

pub fn gen_synthetic(rng: &mut Rng) -> Spec {
    let rules = gen_program(rng);
    let mut items = vec![];
    if rng.chance(9, 10) {
        items.push(Item::Text(pick(rng, &["x", "a", "0", "ab"]).to_string(), 0));
        items.push(Item::Space);
    }
    for _ in 0..rng.range_usize(1, 6) {
        let font = if rng.chance(1, 10) { 1 } else { 0 };
        items.push(Item::Text(syn_token(rng), font));
        match rng.below(16) {
            0 => {
                extras(rng, &mut items);
                if rng.coin() {
                    items.push(Item::Space);
                }
            }
            1 => {
                items.push(Item::Space);
                extras(rng, &mut items);
                if rng.coin() {
                    items.push(Item::Space);
                }
            }
            _ => items.push(Item::Space),
        }
    }
    let pats = gen_custom_patterns(rng, &items, 85);
    let (lmin, rmin) = if rng.chance(2, 3) { (1, 1) } else { gen_mins(rng) };
    Spec { font: FontSpec::Synthetic(program_text(&rules)), items, pats, lmin, rmin }
}

// ------------------------------------------------------------------------------------------
// the exhaustively enumerated sub-space
// ------------------------------------------------------------------------------------------

const ENUM_LEFT: &[char] = &['|', 'a', 'b', 'x', '-'];
const ENUM_RIGHT: &[char] = &['a', 'b', '-', '|'];

/// All single rules of the enumerated family: 5 left x 4 right x (1 kern + 8 ligature forms
/// inserting `x`) = 180; index 180 = "no rule".
pub fn enum_rule(i: u64) -> Option<Rule> {
    if i >= 180 {
        return None;
    }
    let op = i % 9;
    let r = (i / 9) % 4;
    let l = i / 36;
    Some(Rule {
        left: ENUM_LEFT[l as usize],
        right: ENUM_RIGHT[r as usize],
        op: if op == 8 { RuleOp::Kern(100) } else { RuleOp::Lig(op as u8, 'x') },
    })
}

/// Programs of the family: unordered pairs {i, j} with i < j <= 180 (j = 180: the single rule i),
/// plus the empty program: 180*181/2 + 1 cases.
pub fn enum_total() -> u64 {
    180 * 181 / 2 + 1
}

pub fn enum_program(idx: u64) -> Vec<Rule> {
    if idx == 180 * 181 / 2 {
        return vec![];
    }
    // idx -> (i, j), i < j
    let mut i = 0u64;
    let mut rest = idx;
    loop {
        let row = 180 - i; // number of j in i+1..=180
        if rest < row {
            break;
        }
        rest -= row;
        i += 1;
    }
    let j = i + 1 + rest;
    let mut rules = vec![];
    if let Some(r) = enum_rule(i) {
        rules.push(r);
    }
    if let Some(r) = enum_rule(j) {
        if !rules.iter().any(|q| q.left == r.left && q.right == r.right) {
            rules.push(r);
        }
    }
    rules
}
