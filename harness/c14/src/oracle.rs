//! The C14 oracle: an offline pass over (list before, list after `Hyphenator::hyphenate`).
//!
//! (1) deleting the inserted discretionaries gives back the original list node for node;
//! (2) at each inserted discretionary: originals(pre-break) = X + "-", X + originals(post-break)
//!     = originals(replaced nodes), and X is the stretch of the word between the start of the
//!     replaced nodes and the hyphen position;
//!     (2b, differential against the lig/kern runner which built the input list): the pre-break
//!     list is the font's translation of X+"-" started *without* the left boundary (TeX §915), the
//!     post-break list is a prefix of the translation of the rest of the word started *with* the
//!     left boundary (TeX §916);
//! (3) inserted positions ⊆ Liang positions within the minimums (vmodels::liang), for exactly the
//!     words TeX tries (vmodels::liang::find_words, §894-§899), and every permitted position is
//!     either taken or lies strictly inside the letters replaced by a taken one (§913-§916 pass
//!     over hyphens while the two branches re-synchronise).
//!
//! Deviations are classified against the listed findings by trigger predicate + deviation model.

use crate::world::{show_list, N};
use vcore::{json, Value};
use vmodels::liang::{find_words, FoundWord, Liang, Scan};

pub const K_LETTERLESS: &str = "C14-word-after-letterless-token-not-tried";
pub const K_RIGHT_FLAG: &str = "C14-sync-copy-loses-right-boundary-flag";
pub const K_LEFT_RERUN: &str = "C14-left-boundary-applied-again";
pub const K_PREV_CONTEXT: &str = "C14-preceding-character-context-ignored";
pub const K_PRE_BOUNDARY: &str = "C14-pre-break-at-word-start-without-left-boundary";

/// The trusted lig/kern translation of a string in the case's font (the same compiled program and
/// runner that built the input list): `(text, left_boundary_enabled, right_boundary_override)`.
pub type Runner<'a> = dyn Fn(&str, bool, Option<char>) -> Vec<N> + 'a;

pub struct Ctx<'a> {
    pub liang: &'a Liang,
    pub left_min: i32,
    pub right_min: i32,
    pub runner: &'a Runner<'a>,
    /// `(left, right)` has a rule in the font's lig/kern program; `None` = boundary.
    pub has_rule: &'a dyn Fn(Option<char>, Option<char>) -> bool,
    /// there is a *ligature* rule whose right character is `c`
    pub has_lig_rule_with_right: &'a dyn Fn(char) -> bool,
}

#[derive(Default, Debug)]
pub struct Report {
    pub violations: Vec<(String, Value)>,
    pub known: Vec<(&'static str, Value)>,
    pub counters: Vec<(&'static str, u64)>,
    /// canonical facts for the non-triviality rule
    pub words_tried: u64,
    pub discs_inserted: u64,
    pub discs_replacing_nodes: u64,
}

impl Report {
    fn count(&mut self, name: &'static str) {
        self.add(name, 1)
    }
    fn add(&mut self, name: &'static str, n: u64) {
        if let Some(e) = self.counters.iter_mut().find(|(k, _)| *k == name) {
            e.1 += n;
        } else {
            self.counters.push((name, n));
        }
    }
    fn violation(&mut self, sig: impl Into<String>, detail: Value) {
        self.violations.push((sig.into(), detail));
    }
}

pub fn is_letter(c: char) -> bool {
    // the implementation's documented assumption: \lccode has its plain TeX values
    c.is_ascii_alphabetic()
}

fn originals(nodes: &[N]) -> String {
    let mut s = String::new();
    for n in nodes {
        n.push_originals(&mut s);
    }
    s
}

fn letters_of(n: &N) -> usize {
    match n {
        N::Char { .. } => 1,
        N::Lig { orig, .. } => orig.chars().count(),
        _ => 0,
    }
}

/// A discretionary found inside a word's region of the output list.
struct Taken {
    /// letters of the word before the discretionary (= start of the replaced stretch)
    a: usize,
    /// hyphen position
    p: usize,
    /// end of the replaced stretch
    b: usize,
}

pub fn check(before: &[N], after: &[N], ctx: &Ctx) -> Report {
    let mut rep = Report::default();
    let model_nodes: Vec<_> = before.iter().map(|n| n.to_model()).collect();
    let words = find_words(&model_nodes, &is_letter, ctx.left_min, ctx.right_min, Scan::Tex);
    let words_dev = find_words(&model_nodes, &is_letter, ctx.left_min, ctx.right_min, Scan::AbortConsumes);
    rep.add("glue_nodes", before.iter().filter(|n| **n == N::Glue).count() as u64);
    rep.add("words_found_after_glue", words.len() as u64);

    let whole = |rep: &mut Report, sig: &str, extra: Value| {
        rep.violation(
            sig,
            json!({"before": show_list(before), "after": show_list(after), "what": extra}),
        );
    };

    let mut i = 0usize; // cursor in `before`
    let mut k = 0usize; // cursor in `after`
    for w in &words {
        // TeX leaves a rejected word alone (label done1). The implementation also leaves it alone
        // when the follower forbids hyphenation; a word that is merely too short for the minimums
        // it does translate again, which must then reproduce the original nodes with no
        // discretionary (the set of permitted positions is empty) - so those go through the same
        // checks as the words TeX tries.
        if w.letters.is_empty() {
            // a ligature that starts with a letter but also contains a non-letter: hn=0 (§898)
            rep.count("words_not_tried:no_letters_collected");
            continue;
        }
        match w.rejected {
            Some(vmodels::liang::NoWord::BadFollower) => {
                rep.count("words_not_tried:followed_by_box_rule_disc_math");
                continue;
            }
            Some(vmodels::liang::NoWord::TooShort) => rep.count("words_not_tried:too_short"),
            Some(vmodels::liang::NoWord::MinimumsTooLarge) => rep.count("words_not_tried:minimums_exceed_63"),
            Some(vmodels::liang::NoWord::PrefixAborted) => continue,
            None => {
                rep.words_tried += 1;
                rep.count("words_tried");
            }
        }
        // nodes before the word are copied verbatim
        let rs = region_start(before, w);
        while i < rs {
            if after.get(k) != Some(&before[i]) {
                let sig = if matches!(after.get(k), Some(N::Disc { .. })) {
                    "disc-outside-a-word-TeX-tries"
                } else {
                    "node-outside-word-changed"
                };
                whole(&mut rep, sig, json!({"before_index": i, "after_index": k}));
                return rep;
            }
            i += 1;
            k += 1;
        }
        if w.truncated {
            rep.count("words_tried:longer_than_63_letters");
        }
        if !check_word(before, after, &mut k, w, &words_dev, ctx, &mut rep) {
            return rep;
        }
        i = w.last + 1;
    }
    while i < before.len() {
        if after.get(k) != Some(&before[i]) {
            let sig = if matches!(after.get(k), Some(N::Disc { .. })) {
                "disc-outside-a-word-TeX-tries"
            } else {
                "node-outside-word-changed"
            };
            whole(&mut rep, sig, json!({"before_index": i, "after_index": k}));
            return rep;
        }
        i += 1;
        k += 1;
    }
    if k != after.len() {
        whole(&mut rep, "extra-nodes-at-end", json!({"after_index": k}));
    }
    rep
}

/// Returns false if the lists can no longer be aligned (a violation has been recorded).
fn check_word(
    before: &[N],
    after: &[N],
    k: &mut usize,
    w: &FoundWord,
    words_dev: &[FoundWord],
    ctx: &Ctx,
    rep: &mut Report,
) -> bool {
    let hf = w.font;
    // TeX §903: if the node before the word (`ha`) is a ligature that consists of the left boundary
    // alone, it is freed and reconstructed from scratch together with the word (hu[0]:=256).
    let rs = region_start(before, w);
    let expected = &before[rs..=w.last];
    // the reconstitution (re)starts at the left boundary
    let restarts_at_boundary = rs < w.first || matches!(before[w.first], N::Lig { left: true, .. });
    let word: String = w.letters.iter().collect();
    let needed = w.letters.len();
    // ---- the word's region in the output list
    let k0 = *k;
    let mut acc = 0usize;
    while let Some(n) = after.get(*k) {
        let take = match n {
            N::Disc { .. } => {
                // inside the region every discretionary is an inserted one, except the node that
                // stood right after the word in the input (possible only for a word TeX rejects as
                // too short before it looks at what follows)
                !(acc == needed && before.get(w.last + 1) == Some(n))
            }
            N::Char { c, font } => acc < needed && *font == hf && is_letter(*c),
            N::Lig { orig, font, .. } => {
                let m = orig.chars().count();
                *font == hf && acc + m <= needed && orig.chars().all(is_letter)
            }
            N::Kern { normal: true, .. } => true,
            _ => false,
        };
        if !take {
            break;
        }
        acc += letters_of(n);
        *k += 1;
    }
    let region = &after[k0..*k];
    let stripped: Vec<N> = region.iter().filter(|n| !matches!(n, N::Disc { .. })).cloned().collect();
    let detail = |what: Value| {
        json!({
            "word": word, "before": show_list(before), "after": show_list(after),
            "word_nodes_before": show_list(expected), "word_nodes_after": show_list(region),
            "what": what,
        })
    };

    // the non-letter character that follows the word in the same font (TeX's hyf_bchar)
    let follower: Option<char> = match before.get(w.last + 1) {
        Some(N::Char { c, font }) if *font == hf => Some(*c),
        Some(N::Lig { orig, font, .. }) if *font == hf => orig.chars().next(),
        _ => None,
    };
    // (§897: `hyf_bchar:=character(s)` is executed for every character node of font hf the scan
    // looks at, also right after an implicit kern, so the follower always wins)
    let override_char = follower;

    // ---- (1) node for node
    let mut aligned = true;
    if stripped != expected {
        aligned = false;
        // trigger (a): a rule for (left boundary, first letter) exists, and the word does not start
        // with a ligature that includes the left boundary (the only case in which TeX §903 starts
        // the reconstitution at the boundary)
        let t_left = (ctx.has_rule)(None, Some(w.letters[0]))
            && !matches!(before[w.first], N::Lig { left: true, .. });
        // trigger (b): the node before the word is a character/ligature of the word's font (TeX's
        // `ha` is a char node: hu[0] is that character, §903) and it has a rule with the first letter
        let prev_glyph = match rs.checked_sub(1).map(|i| &before[i]) {
            Some(N::Char { c, font }) if *font == hf => Some(*c),
            Some(N::Lig { c, font, .. }) if *font == hf => Some(*c),
            _ => None,
        };
        let t_prev = prev_glyph.map(|c| (ctx.has_rule)(Some(c), Some(w.letters[0]))).unwrap_or(false);
        // TeX quirk: the word's first node is a ligature that was shaped by a left context TeX can
        // no longer see when it hyphenates. TeX §903 uses at most the glyph of the node directly
        // before the word as hu[0]; if that glyph has no rule with the first letter (otherwise it
        // is trigger (b)) the ligature cannot be formed again and TeX itself re-translates the word
        // on its own. Seen as: an implicit kern in between (`.b -> .^c_` + `.c -> .[7]c`:
        // `. kern lig(c<-b)`), a character-less ligature in between (`0d -> 0^._` + `0. -> 0y^.`:
        // `0 lig(y<-) lig(.<-d)`), or the context character itself rewritten afterwards
        // (`.c -> .^w_` + `.w -> _,w^`: `lig(,<-.) lig(w<-c)`). All need two chained rules.
        let t_context_out_of_sight = !t_prev
            && matches!(before[w.first], N::Lig { left: false, .. })
            && match rs.checked_sub(1).map(|i| &before[i]) {
                Some(N::Char { font, .. }) | Some(N::Lig { font, .. }) => *font == hf,
                Some(N::Kern { normal: true, .. }) => true,
                _ => false,
            };
        let t_follower = override_char.map(|c| (ctx.has_lig_rule_with_right)(c)).unwrap_or(false);
        let regen = |left: bool| -> Vec<N> {
            (ctx.runner)(&word, left, override_char).into_iter().map(|n| with_font(n, hf)).collect()
        };
        let regen_on = regen(true);
        // what the implementation does today: the nodes before the word are copied, then the word
        // is translated from the left boundary
        let copied_then = |tail: Vec<N>| -> Vec<N> {
            let mut v = before[rs..w.first].to_vec();
            v.extend(tail);
            v
        };
        let is_tex_restart = same_modulo_sync_flags(&regen_on, &stripped);
        let is_on = same_modulo_sync_flags(&copied_then(regen_on.clone()), &stripped);
        let is_off = same_modulo_sync_flags(&copied_then(regen(false)), &stripped);
        // a node produced by the boundary program stands before the place where TeX restarts
        let boundary_product_before = matches!(
            rs.checked_sub(1).map(|i| &before[i]),
            Some(N::Kern { normal: true, .. }) | Some(N::Lig { .. })
        );
        if let Some(flips) = only_right_flags_lost(expected, region) {
            // trigger: a right-boundary ligature among the nodes a discretionary replaces;
            // deviation: it lost the flag (copied from includes_left_boundary, which is false there)
            rep.known.push((K_RIGHT_FLAG, detail(json!({"ligatures_that_lost_the_flag": flips}))));
            rep.count("known:right_flag_lost_in_sync_copy");
            aligned = true;
        } else if restarts_at_boundary && boundary_product_before && is_tex_restart {
            // The boundary program had already produced a kern/ligature before the point where
            // TeX §903 (found2 / init_lft) restarts the reconstitution at the boundary: TeX keeps
            // that node and produces it again. TeX's own quirk in exotic fonts; not demanded.
            rep.count("excluded_from_(1):TeX_restarts_at_the_left_boundary_after_a_boundary_kern");
        } else if t_left && is_on {
            rep.known.push((
                K_LEFT_RERUN,
                detail(json!("word nodes = the word translated again WITH the left boundary although the boundary's effect (or punctuation) already precedes the word")),
            ));
            rep.count("known:left_boundary_applied_again");
        } else if t_prev && (is_on || is_off) {
            rep.known.push((
                K_PREV_CONTEXT,
                detail(json!({"preceding_character": prev_glyph.map(|c| c.to_string()),
                    "note": "word nodes = the word translated on its own; TeX translates it with the preceding character as left context (hu[0])"})),
            ));
            rep.count("known:preceding_character_context_ignored");
        } else if t_context_out_of_sight && (is_on || is_off) {
            rep.count("excluded_from_(1):TeX_cannot_see_the_context_that_shaped_the_first_ligature");
        } else if t_follower && (is_on || is_off || is_tex_restart) {
            // TeX itself reconstitutes the word with the following character as right boundary
            // (hyf_bchar, §897/§903) and keeps that character's own node: pinned by the unit tests
            // right_boundary_char_override_3..6. Not demanded, counted.
            rep.count("excluded_from_(1):TeX_reconstitutes_with_following_char_ligature");
        } else {
            let prev_kind = match rs.checked_sub(1).map(|i| &before[i]) {
                Some(N::Char { font, .. }) if *font == hf => "after-char",
                Some(N::Lig { font, orig, .. }) if *font == hf && orig.is_empty() => "after-empty-ligature",
                Some(N::Lig { font, .. }) if *font == hf => "after-ligature",
                Some(N::Kern { normal: true, .. }) => "after-implicit-kern",
                Some(N::Glue) => "after-glue",
                _ => "after-other",
            };
            let shape = if is_on || is_off { "retranslated-alone" } else if is_tex_restart { "retranslated-from-boundary" } else { "other" };
            rep.violation(
                format!("(1)-word-nodes-differ/{prev_kind}/{shape}"),
                detail(json!({"trigger_left_boundary": t_left, "trigger_preceding_character": t_prev,
                    "trigger_follower_ligature": t_follower, "restarts_at_boundary": restarts_at_boundary,
                    "translated_with_left_boundary": show_list(&regen_on),
                    "translated_without_left_boundary": show_list(&regen(false))})),
            );
        }
    } else {
        rep.count("(1)_words_restored_node_for_node");
    }

    // ---- discretionaries: (2) and positions
    let mut taken: Vec<Taken> = vec![];
    let mut letters_before = 0usize;
    let mut idx = 0usize;
    while idx < region.len() {
        let n = &region[idx];
        let N::Disc { pre, post, replace } = n else {
            letters_before += letters_of(n);
            idx += 1;
            continue;
        };
        rep.discs_inserted += 1;
        rep.count("discs_inserted");
        let r = *replace as usize;
        if idx + 1 + r > region.len() || region[idx + 1..idx + 1 + r].iter().any(|n| matches!(n, N::Disc { .. })) {
            rep.violation(
                "(2)-replace-count-leaves-the-word",
                detail(json!({"disc": n.show(), "replace_count": r})),
            );
            return aligned;
        }
        let replaced = &region[idx + 1..idx + 1 + r];
        let a = letters_before;
        let pre_s = originals(pre);
        let post_s = originals(post);
        let repl_s = originals(replaced);
        let Some(x) = pre_s.strip_suffix('-') else {
            rep.violation("(2)-pre-break-does-not-end-with-the-hyphen", detail(json!({"disc": n.show()})));
            idx += 1;
            continue;
        };
        let p = a + x.chars().count();
        let b = a + repl_s.chars().count();
        let mut ok2 = true;
        if format!("{x}{post_s}") != repl_s {
            ok2 = false;
            rep.violation(
                "(2)-letters-not-conserved-at-discretionary",
                detail(json!({"disc": n.show(), "pre_minus_hyphen": x, "post": post_s, "replaced": repl_s})),
            );
        }
        if p > needed || word.chars().skip(a).take(p - a).collect::<String>() != x {
            ok2 = false;
            rep.violation(
                "(2)-pre-break-letters-are-not-the-word's",
                detail(json!({"disc": n.show(), "pre_minus_hyphen": x, "letters_before": a})),
            );
        }
        if pre.iter().chain(post.iter()).any(|n| match n {
            N::Char { font, .. } | N::Lig { font, .. } => *font != hf,
            N::Kern { normal, .. } => !normal,
            _ => true,
        }) {
            ok2 = false;
            rep.violation("(2)-foreign-node-in-discretionary", detail(json!({"disc": n.show()})));
        }
        if ok2 {
            rep.count("(2)_discs_conserving_letters");
            if r > 0 {
                rep.discs_replacing_nodes += 1;
                rep.count("discs_with_replace_count>0");
            }
            if !post.is_empty() {
                rep.count("discs_with_post_break");
            }
            if pre.len() > 1 {
                rep.count("discs_with_pre_break_beyond_the_hyphen");
            }
            if replaced.iter().any(|n| matches!(n, N::Lig { .. })) {
                rep.count("discs_replacing_a_ligature");
            }
            // (2b) differential against the runner
            // TeX §915 translates hu[l..i]+hyphen; l=0 with hu[0]=256 (a word that restarts at the
            // left boundary) means the boundary program takes part, otherwise it does not.
            // (only a discretionary that stands before every node of the region starts at l=0)
            let pre_at_boundary =
                restarts_at_boundary && region[..idx].iter().all(|n| matches!(n, N::Disc { .. }));
            let tr_pre = |left: bool| -> Vec<N> {
                (ctx.runner)(&format!("{x}-"), left, None).into_iter().map(|n| with_font(n, hf)).collect()
            };
            let want_pre = tr_pre(pre_at_boundary);
            if *pre == want_pre {
                rep.count("(2b)_pre_breaks_equal_translation");
                if pre_at_boundary {
                    rep.count("(2b)_pre_breaks_at_the_left_boundary");
                }
            } else if pre_at_boundary && *pre == tr_pre(false) {
                rep.known.push((
                    K_PRE_BOUNDARY,
                    detail(json!({"disc": n.show(), "pre_break_with_left_boundary": show_list(&want_pre)})),
                ));
                rep.count("known:pre_break_at_word_start_without_left_boundary");
            } else {
                rep.violation(
                    "(2b)-pre-break-is-not-the-translation-without-left-boundary",
                    detail(json!({"disc": n.show(), "want_pre_break": show_list(&want_pre)})),
                );
            }
            let rest: String = word.chars().skip(p).collect();
            let full_post: Vec<N> = (ctx.runner)(&rest, true, override_char)
                .into_iter()
                .map(|n| with_font(n, hf))
                .collect();
            if post.len() > full_post.len() || full_post[..post.len()] != post[..] {
                rep.violation(
                    "(2b)-post-break-is-not-a-prefix-of-the-translation-with-left-boundary",
                    detail(json!({"disc": n.show(), "translation_of_rest": show_list(&full_post)})),
                );
            } else {
                rep.count("(2b)_post_breaks_prefix_of_translation");
            }
            // (2c) TeX §916 puts the left boundary at the beginning of the new line: when the font
            // has a rule for (left boundary, first letter after the hyphen) the post-break list
            // cannot be empty (it holds at least the kern or ligature that rule produces)
            if let Some(c) = rest.chars().next() {
                if (ctx.has_rule)(None, Some(c)) {
                    if post.is_empty() {
                        rep.violation(
                            "(2c)-post-break-lacks-the-left-boundary-of-the-new-line",
                            detail(json!({"disc": n.show(), "translation_of_rest": show_list(&full_post)})),
                        );
                    } else {
                        rep.count("(2c)_post_breaks_starting_at_the_left_boundary");
                    }
                }
            }
            taken.push(Taken { a, p, b });
        }
        idx += 1;
    }

    // ---- (3) positions
    if w.truncated {
        rep.count("(3)_not_demanded:word_longer_than_63_letters");
        return aligned;
    }
    let lower: Vec<char> = w.letters.iter().map(|c| c.to_ascii_lowercase()).collect();
    let allowed = ctx.liang.positions_minmax(&lower, ctx.left_min, ctx.right_min);
    if !allowed.is_empty() {
        rep.count("words_tried_with_permitted_positions");
    }
    rep.add("permitted_positions", allowed.len() as u64);
    let l = vmodels::liang::norm_min(ctx.left_min);
    let r = vmodels::liang::norm_min(ctx.right_min);
    let unfiltered = ctx.liang.positions(&lower);
    rep.add("positions_removed_by_minimums", (unfiltered.len() - allowed.len()) as u64);
    let mut prev = 0usize;
    for t in &taken {
        if !allowed.contains(&t.p) {
            let why = if t.p < l {
                "left-of-lefthyphenmin"
            } else if t.p + r > needed {
                "right-of-righthyphenmin"
            } else {
                "not-a-Liang-position"
            };
            rep.violation(
                format!("(3)-disc-at-forbidden-position/{why}"),
                detail(json!({"position": t.p, "permitted": allowed, "left_min": l, "right_min": r})),
            );
        }
        if t.p <= prev && prev != 0 {
            rep.violation("(3)-positions-not-increasing", detail(json!({"position": t.p})));
        }
        prev = t.p;
    }
    let mut missing = vec![];
    for q in &allowed {
        if taken.iter().any(|t| t.p == *q) {
            rep.count("permitted_positions_taken");
            continue;
        }
        // TeX takes the *first* odd position of a stretch (reconstitute sets hyphen_passed once,
        // §909) and passes over later ones until the branches are synchronised: p < q < b.
        if taken.iter().any(|t| t.p < *q && *q < t.b) {
            rep.count("permitted_positions_passed_over_inside_replaced_letters");
            continue;
        }
        missing.push(*q);
    }
    if !missing.is_empty() {
        let in_dev = words_dev.iter().any(|d| d.first == w.first && d.rejected.is_none());
        if taken.is_empty() && !in_dev {
            // trigger: the glue before this word was the node on which the previous glue's prefix
            // scan gave up; deviation model (Scan::AbortConsumes): the word is never looked at
            rep.known.push((
                K_LETTERLESS,
                detail(json!({"permitted": allowed, "glue_index": w.glue})),
            ));
            rep.count("known:word_after_letterless_token_not_tried");
        } else {
            rep.violation(
                "(3)-permitted-position-neither-taken-nor-passed-over",
                detail(json!({"missing": missing, "permitted": allowed,
                    "taken": taken.iter().map(|t| json!([t.a, t.p, t.b])).collect::<Vec<_>>()})),
            );
        }
    } else if !allowed.is_empty() {
        rep.count("(3)_words_with_all_permitted_positions_accounted_for");
    }
    aligned
}

/// Where the nodes TeX replaces begin: at the word's first node, or one node earlier when that
/// node is a ligature of the word's font made of the left boundary alone (§903: `init_list=null`
/// and `init_lft`, the node is freed and rebuilt).
fn region_start(before: &[N], w: &FoundWord) -> usize {
    match w.first.checked_sub(1).map(|i| &before[i]) {
        Some(N::Lig { orig, left: true, font, .. }) if orig.is_empty() && *font == w.font => w.first - 1,
        _ => w.first,
    }
}

fn with_font(n: N, hf: u32) -> N {
    match n {
        N::Char { c, .. } => N::Char { c, font: hf },
        N::Lig { c, orig, left, right, .. } => N::Lig { c, font: hf, orig, left, right },
        other => other,
    }
}

/// Deviation model of the "right boundary flag" finding. `expected` are the word's original nodes,
/// `region` the word's nodes in the output including discretionaries. Returns the number of
/// ligatures that lost the flag if (and only if) the two node sequences are identical except that
/// some ligatures *among the nodes replaced by a discretionary* which include the right boundary
/// and not the left one now have `includes_right_boundary = false`.
fn only_right_flags_lost(expected: &[N], region: &[N]) -> Option<usize> {
    // mark which stripped indices lie inside a replaced stretch
    let mut in_replaced: Vec<bool> = vec![];
    let mut pending = 0usize;
    for n in region {
        match n {
            N::Disc { replace, .. } => pending = pending.max(*replace as usize),
            _ => {
                in_replaced.push(pending > 0);
                pending = pending.saturating_sub(1);
            }
        }
    }
    let stripped: Vec<&N> = region.iter().filter(|n| !matches!(n, N::Disc { .. })).collect();
    if stripped.len() != expected.len() {
        return None;
    }
    let mut flips = 0;
    for (j, (e, o)) in expected.iter().zip(stripped.iter()).enumerate() {
        if e == *o {
            continue;
        }
        match (e, o) {
            (
                N::Lig { c, font, orig, left: false, right: true },
                N::Lig { c: c2, font: f2, orig: o2, left: false, right: false },
            ) if c == c2 && font == f2 && orig == o2 && in_replaced[j] => flips += 1,
            _ => return None,
        }
    }
    if flips > 0 {
        Some(flips)
    } else {
        None
    }
}

/// Equality of two node sequences where a right-boundary flag may additionally have been lost (the
/// two listed findings can occur in the same word).
fn same_modulo_sync_flags(want: &[N], got: &[N]) -> bool {
    want.len() == got.len()
        && want.iter().zip(got.iter()).all(|(a, b)| {
            a == b
                || matches!((a, b), (
                    N::Lig { c, font, orig, left: false, right: true },
                    N::Lig { c: c2, font: f2, orig: o2, left: false, right: false },
                ) if c == c2 && font == f2 && orig == o2)
        })
}
