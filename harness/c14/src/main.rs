fn main() {
    vcore::run_main(&c14::MONITOR)
}
