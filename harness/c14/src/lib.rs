//! Monitor for property C14 - hyphenating a horizontal list (DESIGN.md §6 C14).
//!
//! Observed event: the list before and after `boxworks::Hyphenator::hyphenate` of the real
//! `boxworks_hyphenate::Hyphenator`; lists are built from text by the real `TextPreprocessorImpl`
//! with the *same* compiled lig/kern program the hyphenator is given.
//! Oracle: `oracle.rs` (conservation (1)(2), differential (2b), positions (3) against
//! `vmodels::liang`: Liang positions + the §894-§899 word finder).

pub mod gen;
pub mod oracle;
pub mod unit;
pub mod world;

use boxworks::Hyphenator as _;
use std::cell::RefCell;
use std::sync::OnceLock;
use vcore::*;
use vmodels::liang::Liang;
use world::{build_list, items_json, show_list, FontSetup, Item, N};

pub struct M;
pub static MONITOR: M = M;

#[derive(Clone, Debug, PartialEq, Eq, Hash)]
pub enum FontSpec {
    Cmr10,
    /// cmr10's metrics with this lig/kern program (compact syntax)
    Synthetic(String),
}

#[derive(Clone, Debug, PartialEq, Eq, Hash)]
pub enum PatSpec {
    /// plain TeX's patterns and exceptions (`Hyphenator::plain_tex_en_us`)
    Plain,
    Custom { patterns: Vec<String>, exceptions: Vec<String> },
}

#[derive(Clone, Debug, PartialEq, Eq, Hash)]
pub struct Spec {
    pub font: FontSpec,
    pub items: Vec<Item>,
    pub pats: PatSpec,
    pub lmin: i32,
    pub rmin: i32,
}

impl Spec {
    pub fn json(&self) -> Value {
        json!({
            "font": match &self.font { FontSpec::Cmr10 => json!("cmr10"), FontSpec::Synthetic(s) => json!({"cmr10_metrics_with_ligkern_program": s.lines().collect::<Vec<_>>()}) },
            "text": items_json(&self.items),
            "patterns": match &self.pats { PatSpec::Plain => json!("plain TeX"), PatSpec::Custom{patterns, exceptions} => json!({"patterns": patterns, "exceptions": exceptions}) },
            "left_hyphen_min": self.lmin, "right_hyphen_min": self.rmin,
        })
    }
}

// ------------------------------------------------------------------------------------------
// cached, immutable per-process resources
// ------------------------------------------------------------------------------------------

fn plain_model() -> Result<&'static Liang, String> {
    static P: OnceLock<Result<Liang, String>> = OnceLock::new();
    P.get_or_init(|| {
        let rd = |rel: &str| {
            let p = repo_dir().join(rel);
            std::fs::read_to_string(&p).map_err(|e| format!("{}: {e}", p.display()))
        };
        let pats = rd("crates/hyphenate/src/plain_tex_patterns.txt")?;
        let excs = rd("crates/hyphenate/src/plain_tex_exceptions.txt")?;
        let mut m = Liang::new();
        let bad = m.load_patterns(&pats);
        if bad != 0 {
            return Err(format!("{bad} malformed plain TeX patterns"));
        }
        for l in excs.lines().map(|l| l.trim()).filter(|l| !l.is_empty()) {
            m.add_exception(l);
        }
        Ok(m)
    })
    .as_ref()
    .map_err(|e| e.clone())
}

thread_local! {
    /// cmr10 (parsed + compiled once per process; never mutated)
    static CMR10: RefCell<Option<std::rc::Rc<FontSetup>>> = const { RefCell::new(None) };
    /// the real hyphenator with plain TeX's patterns and cmr10's program; only the two public
    /// minimum fields are set per case
    static PLAIN_H: RefCell<Option<boxworks_hyphenate::Hyphenator>> = const { RefCell::new(None) };
}

fn cmr10_cached() -> Result<std::rc::Rc<FontSetup>, String> {
    CMR10.with(|c| {
        let mut c = c.borrow_mut();
        if c.is_none() {
            *c = Some(std::rc::Rc::new(world::cmr10()?));
        }
        Ok(c.as_ref().expect("just set").clone())
    })
}

// ------------------------------------------------------------------------------------------
// one case through the real code and the oracle
// ------------------------------------------------------------------------------------------

pub struct Outcome {
    pub before: Vec<N>,
    pub after: Vec<N>,
    pub report: oracle::Report,
}

/// Runs the real hyphenation pass on the list built from `spec`; `None` when the case is outside
/// the quantifier (reason counted) or the real code panicked (reported).
pub fn run_spec(spec: &Spec, obs: &mut Obs) -> Option<Outcome> {
    let font: std::rc::Rc<FontSetup> = match &spec.font {
        FontSpec::Cmr10 => match cmr10_cached() {
            Ok(f) => f,
            Err(e) => {
                obs.inconclusive(format!("cannot load cmr10: {e}"));
                return None;
            }
        },
        FontSpec::Synthetic(src) => match catch(|| world::synthetic(src)) {
            Ok(Ok(Some(f))) => std::rc::Rc::new(f),
            Ok(Ok(None)) => {
                obs.skip("lig/kern program has an infinite loop (PLtoTF rejects it)");
                return None;
            }
            Ok(Err(e)) => {
                obs.inconclusive(format!("cannot build synthetic font: {e}"));
                return None;
            }
            Err(p) => {
                // compiling a lig/kern program is C05's subject; here it only means no font
                obs.skip("lig/kern compiler panicked (C05's subject)");
                let _ = p;
                return None;
            }
        },
    };
    let list0 = match catch(|| build_list(&font, &spec.items)) {
        Ok(l) => l,
        Err(p) => {
            obs.skip("text preprocessor panicked (C12's subject)");
            let _ = p;
            return None;
        }
    };
    let before: Vec<N> = list0.iter().map(N::from_h).collect();

    // the model's pattern set
    let custom_model;
    let liang: &Liang = match &spec.pats {
        PatSpec::Plain => match plain_model() {
            Ok(m) => m,
            Err(e) => {
                obs.inconclusive(format!("cannot load plain TeX patterns: {e}"));
                return None;
            }
        },
        PatSpec::Custom { patterns, exceptions } => {
            let mut m = Liang::new();
            for p in patterns {
                match vmodels::liang::Pattern::parse(p) {
                    Ok(p) => {
                        if !m.add_pattern(p) {
                            obs.inconclusive("generator produced a duplicate pattern");
                            return None;
                        }
                    }
                    Err(e) => {
                        obs.inconclusive(format!("generator produced a malformed pattern {p}: {e:?}"));
                        return None;
                    }
                }
            }
            for e in exceptions {
                m.add_exception(e);
            }
            custom_model = m;
            &custom_model
        }
    };

    // the real pass
    let mut list = list0;
    let run = |h: &boxworks_hyphenate::Hyphenator, list: &mut Vec<boxworks::ds::Horizontal>| {
        catch(|| h.hyphenate(list))
    };
    let r = match (&spec.font, &spec.pats) {
        (FontSpec::Cmr10, PatSpec::Plain) => PLAIN_H.with(|c| {
            let mut c = c.borrow_mut();
            if c.is_none() {
                match catch(|| boxworks_hyphenate::Hyphenator::plain_tex_en_us(font.program.clone())) {
                    Ok(h) => *c = Some(h),
                    Err(p) => return Err(p),
                }
            }
            let h = c.as_mut().expect("just set");
            h.left_hyphen_min = spec.lmin;
            h.right_hyphen_min = spec.rmin;
            run(h, &mut list)
        }),
        (_, pats) => {
            let built = catch(|| {
                let hy = match pats {
                    PatSpec::Plain => hyphenate::Hyphenator::plain_tex_en_us(),
                    PatSpec::Custom { patterns, exceptions } => {
                        let mut hy = hyphenate::Hyphenator::default();
                        hy.load_patterns(&patterns.join(" "));
                        for e in exceptions {
                            hy.insert_exception(e);
                        }
                        hy
                    }
                };
                boxworks_hyphenate::Hyphenator {
                    lig_kern_program: font.program.clone(),
                    hyphenator: hy,
                    left_hyphen_min: spec.lmin,
                    right_hyphen_min: spec.rmin,
                }
            });
            match built {
                Ok(h) => run(&h, &mut list),
                Err(p) => Err(p),
            }
        }
    };
    if let Err(p) = r {
        obs.repo_panic(&p, json!({"case": spec.json(), "before": show_list(&before)}));
        return None;
    }
    let after: Vec<N> = list.iter().map(N::from_h).collect();
    if obs.verbose {
        println!("CASE   {}", spec.json());
        println!("BEFORE {}", show_list(&before));
        println!("AFTER  {}", show_list(&after));
    }

    // the oracle
    let prog = &font.program;
    let runner = |text: &str, left: bool, ovr: Option<char>| -> Vec<N> {
        prog.run_with_options(
            text.chars(),
            tfm::ligkern::RunOptions { disable_left_boundary: !left, right_boundary_override: ovr },
        )
        .map(|it| match it {
            tfm::ligkern::RunItem::Char(c) => N::Char { c, font: 0 },
            tfm::ligkern::RunItem::Kern(k) => N::Kern { w: k.0, normal: true },
            tfm::ligkern::RunItem::Ligature(l) => N::Lig {
                c: l.c,
                font: 0,
                orig: l.original.to_string(),
                left: l.includes_left_boundary,
                right: l.includes_right_boundary,
            },
        })
        .collect()
    };
    let has_rule = |l: Option<char>, r: Option<char>| prog.has_replacement(l, r);
    let instrs = &font.tfm.lig_kern_program.instructions;
    let has_lig_rule_with_right = |c: char| {
        instrs.iter().any(|i| {
            char::from(i.right_char) == c
                && matches!(i.operation, tfm::ligkern::lang::Operation::Ligature { .. })
        })
    };
    let ctx = oracle::Ctx {
        liang,
        left_min: spec.lmin,
        right_min: spec.rmin,
        runner: &runner,
        has_rule: &has_rule,
        has_lig_rule_with_right: &has_lig_rule_with_right,
    };
    let report = match catch(|| oracle::check(&before, &after, &ctx)) {
        Ok(r) => r,
        Err(p) => {
            if p.in_repo() {
                // the lig/kern runner (trusted component, C05's subject) panicked inside the oracle
                obs.skip("lig/kern runner panicked inside the oracle (C05's subject)");
            } else {
                obs.inconclusive(format!("oracle panicked at {}:{}: {}", p.file, p.line, p.message));
            }
            return None;
        }
    };
    Some(Outcome { before, after, report })
}

/// Feed an outcome into the observation sink.
fn report(spec: &Spec, out: &Outcome, obs: &mut Obs) {
    for (name, n) in &out.report.counters {
        obs.add(name, *n);
    }
    for (sig, detail) in &out.report.violations {
        obs.violation(sig.clone(), json!({"case": spec.json(), "witness": detail}));
    }
    for (id, detail) in &out.report.known {
        obs.known(id, json!({"case": spec.json(), "witness": detail}));
    }
    obs.count("lists_hyphenated");
    if out.report.discs_inserted > 0 {
        obs.nontrivial(spec);
        obs.count("lists_with_inserted_discretionary");
    }
    if out.before.iter().any(|n| matches!(n, N::Lig { left: true, .. })) {
        obs.count("lists_with_left_boundary_ligature");
    }
    if out.before.iter().any(|n| matches!(n, N::Lig { right: true, .. })) {
        obs.count("lists_with_right_boundary_ligature");
    }
    if out.before.iter().any(|n| matches!(n, N::Lig { .. })) {
        obs.count("lists_with_ligature");
    }
    if out.before.iter().any(|n| matches!(n, N::Kern { normal: true, .. })) {
        obs.count("lists_with_implicit_kern");
    }
    if obs.wants_sample() && out.report.discs_inserted > 0 {
        obs.sample(json!({"case": spec.json(), "before": show_list(&out.before), "after": show_list(&out.after)}));
    }
}

fn run_and_report(spec: &Spec, obs: &mut Obs) -> Option<Outcome> {
    let out = run_spec(spec, obs)?;
    report(spec, &out, obs);
    Some(out)
}

// ------------------------------------------------------------------------------------------
// fixed cases
// ------------------------------------------------------------------------------------------

fn text_items(text: &str) -> Vec<Item> {
    let mut items = vec![];
    for (i, w) in text.split(' ').enumerate() {
        if i > 0 {
            items.push(Item::Space);
        }
        if !w.is_empty() {
            items.push(Item::Text(w.to_string(), 0));
        }
    }
    items
}

/// One fixed reproducer per listed finding (and two neighbours that must stay clean).
fn known_cases() -> Vec<(&'static str, Spec)> {
    let exc = |e: &[&str]| PatSpec::Custom {
        patterns: vec![],
        exceptions: e.iter().map(|s| s.to_string()).collect(),
    };
    vec![
        (
            oracle::K_LETTERLESS,
            Spec { font: FontSpec::Cmr10, items: text_items("x 3.0 Contents"), pats: PatSpec::Plain, lmin: 2, rmin: 3 },
        ),
        (
            oracle::K_RIGHT_FLAG,
            Spec {
                font: FontSpec::Synthetic("ab -> _x^_\nbc -> _z^_\nc| -> c.^|".into()),
                items: text_items("x abc"),
                pats: exc(&["a-bc"]),
                lmin: 1,
                rmin: 1,
            },
        ),
        (
            oracle::K_LEFT_RERUN,
            Spec {
                font: FontSpec::Synthetic("|a -> |[100]a".into()),
                items: text_items("x abab"),
                pats: exc(&["ab-ab"]),
                lmin: 1,
                rmin: 1,
            },
        ),
        (
            oracle::K_LEFT_RERUN,
            Spec {
                font: FontSpec::Synthetic("|a -> |[100]a".into()),
                items: text_items("x (abab"),
                pats: exc(&["ab-ab"]),
                lmin: 1,
                rmin: 1,
            },
        ),
        (
            "",
            Spec { font: FontSpec::Cmr10, items: text_items("x 3.0a Contents"), pats: PatSpec::Plain, lmin: 2, rmin: 3 },
        ),
    ]
}

// ------------------------------------------------------------------------------------------
// the repository's TeX-verified unit tests
// ------------------------------------------------------------------------------------------

fn unit_cases() -> Result<&'static Vec<unit::UnitCase>, String> {
    static U: OnceLock<Result<Vec<unit::UnitCase>, String>> = OnceLock::new();
    U.get_or_init(unit::load).as_ref().map_err(|e| e.clone())
}

fn unit_spec(u: &unit::UnitCase) -> Spec {
    let unhyphenated: String = u.input.chars().filter(|c| *c != '-').collect();
    let exceptions_src = u.hyphenation_patterns.clone().unwrap_or_else(|| u.input.clone());
    // as the test does: plain TeX patterns + the exceptions, left min (default 1), right min 1.
    // Modelled with Custom = no patterns unless the test relies on plain patterns (hyphenation_patterns "")
    let pats = if exceptions_src.trim().is_empty() {
        PatSpec::Plain
    } else {
        PatSpec::Custom {
            patterns: vec![],
            exceptions: exceptions_src.split_whitespace().map(|s| s.to_string()).collect(),
        }
    };
    Spec {
        font: FontSpec::Synthetic(u.lig_kern_program.clone()),
        items: text_items(&format!("x {unhyphenated}")),
        pats,
        lmin: u.left_hyphen_min.unwrap_or(1),
        rmin: 1,
    }
}

/// Calibration: the oracle applied to the list real TeX produced (`want`) must raise nothing.
fn calibrate_on_unit(u: &unit::UnitCase, obs: &mut Obs) {
    let spec = unit_spec(u);
    // the test's own list: "x <word>" without the paragraph tail, then list[2..] is compared
    let font = match &spec.font {
        FontSpec::Synthetic(s) => match world::synthetic(s) {
            Ok(Some(f)) => f,
            other => {
                obs.inconclusive(format!("calibration {}: font: {:?}", u.name, other.err()));
                return;
            }
        },
        FontSpec::Cmr10 => unreachable!(),
    };
    let mut list = build_list(&font, &spec.items);
    list.truncate(list.len() - 2); // no \penalty10000\parfillskip in the unit tests
    let before: Vec<N> = list.iter().map(N::from_h).collect();
    let want = match boxworks::lang::parse_horizontal_list(&u.want) {
        Ok(w) => w,
        Err(_) => {
            obs.inconclusive(format!("calibration {}: cannot parse the want list", u.name));
            return;
        }
    };
    let mut after: Vec<N> = before[..2].to_vec();
    after.extend(want.iter().map(N::from_h));
    // patterns
    let custom;
    let liang: &Liang = match &spec.pats {
        PatSpec::Plain => match plain_model() {
            Ok(m) => m,
            Err(e) => {
                obs.inconclusive(e);
                return;
            }
        },
        PatSpec::Custom { exceptions, .. } => {
            let mut m = Liang::new();
            // the unit tests add the exceptions to plain TeX's patterns; the exception decides for
            // the word of interest, and "x" has no positions
            for e in exceptions {
                m.add_exception(e);
            }
            custom = m;
            &custom
        }
    };
    let prog = &font.program;
    let runner = |text: &str, left: bool, ovr: Option<char>| -> Vec<N> {
        prog.run_with_options(
            text.chars(),
            tfm::ligkern::RunOptions { disable_left_boundary: !left, right_boundary_override: ovr },
        )
        .map(|it| match it {
            tfm::ligkern::RunItem::Char(c) => N::Char { c, font: 0 },
            tfm::ligkern::RunItem::Kern(k) => N::Kern { w: k.0, normal: true },
            tfm::ligkern::RunItem::Ligature(l) => N::Lig {
                c: l.c,
                font: 0,
                orig: l.original.to_string(),
                left: l.includes_left_boundary,
                right: l.includes_right_boundary,
            },
        })
        .collect()
    };
    let has_rule = |l: Option<char>, r: Option<char>| prog.has_replacement(l, r);
    let instrs = &font.tfm.lig_kern_program.instructions;
    let has_lig_rule_with_right = |c: char| {
        instrs.iter().any(|i| {
            char::from(i.right_char) == c
                && matches!(i.operation, tfm::ligkern::lang::Operation::Ligature { .. })
        })
    };
    let ctx = oracle::Ctx {
        liang,
        left_min: spec.lmin,
        right_min: spec.rmin,
        runner: &runner,
        has_rule: &has_rule,
        has_lig_rule_with_right: &has_lig_rule_with_right,
    };
    let rep = oracle::check(&before, &after, &ctx);
    obs.count("calibration_unit_cases");
    if rep.discs_inserted > 0 {
        obs.count("calibration_unit_cases_with_discretionary");
    }
    for (sig, d) in &rep.violations {
        obs.inconclusive(format!(
            "calibration: the oracle rejects the TeX-verified list of unit test {} with {sig}: {}",
            u.name,
            serde_json::to_string(d).unwrap_or_default()
        ));
    }
    for (id, _) in &rep.known {
        // TeX's own output must not look like one of the implementation's defects
        obs.inconclusive(format!(
            "calibration: the oracle attributes the TeX-verified list of unit test {} to finding {id}",
            u.name
        ));
    }
}

// ------------------------------------------------------------------------------------------

const ENUM_WORDS: &[&str] = &[
    "aa", "ab", "ba", "bb", "aaa", "aab", "aba", "abb", "baa", "bab", "bba", "bbb", "aaaa", "aaab", "aaba", "aabb",
    "abaa", "abab", "abba", "abbb", "baaa", "baab", "baba", "babb", "bbaa", "bbab", "bbba", "bbbb",
];

impl Monitor for M {
    fn id(&self) -> &'static str {
        "C14"
    }

    fn rule(&self) -> String {
        "A case is one paragraph: (font, text items, pattern set, left/right minimum). The text goes \
         through the real TextPreprocessorImpl (same compiled lig/kern program as the hyphenator), gets the \
         \\penalty10000\\parfillskip tail, and through the real Hyphenator::hyphenate; the oracle reads the \
         list before and after. Phases: `unit` = the repository's 33 TeX-verified unit cases; `known` = \
         fixed reproducers of the listed findings; `enum` = every lig/kern program of at most two rules \
         from the family {|,a,b,x,-} x {a,b,-,|} x {kern, 8 ligature forms inserting x} on every word of \
         2-4 letters over {a,b} with every set of hyphen positions; `cmr10` = random paragraphs in cmr10 \
         (ff fi fl ffi ffl, kerns, capitals, punctuation before/after words, digits, explicit hyphens, \
         letterless tokens, words >63 letters, a second font, foreign nodes between words) with plain \
         TeX's patterns or dense custom patterns/exceptions; `synthetic` = random lig/kern programs over \
         letters, ligature glyphs, the hyphen and both boundaries with exception lists that put hyphens at \
         random positions; all with minimums mostly in 1..4 and sometimes 0, negative or >=63. A case is \
         non-trivial when at least one discretionary was inserted; distinct = hash of the whole case."
            .into()
    }

    fn assumptions(&self) -> Vec<String> {
        vec![
            "the lig/kern runner (tfm::ligkern::CompiledProgram::run_with_options) and TextPreprocessorImpl are trusted here: they build the input lists, and (2b) uses the runner as the translation of a string; their own correctness is C05/C12".into(),
            "\\uchyph>0, \\hyphenchar='-', \\lccode = plain TeX (letters = ASCII alphabetic): the assumptions the implementation documents".into(),
            "custom pattern sets use levels 0-5 only, so C13's finding about levels 7-9 cannot leak into C14".into(),
            "for words longer than 63 letters only (1) and (2) are demanded (TeX's truncation is an implementation limit)".into(),
            "(3) demands inserted ⊆ permitted and every permitted position taken or strictly inside the letters replaced by a taken discretionary (TeX §913-§916 passes over hyphens while the branches re-synchronise)".into(),
            "where TeX itself reconstitutes a word differently from the original nodes (a ligature rule with the punctuation that follows the word; pinned by the unit tests right_boundary_char_override_3..6) the case is excluded from (1) by predicate and counted".into(),
            "a font change inside a token is generated only in cmr10 (no boundary rules): with boundary kerns TeX itself drops the second font's kern".into(),
        ]
    }

    fn phases(&self, tier: Tier) -> Vec<Phase> {
        vec![
            Phase::new("unit", 33)
                .batch(4)
                .exhaustive("the 33 TeX-verified cases of the hyphenation_tests! table in crates/boxworks-hyphenate/src/lib.rs"),
            Phase::new("known", known_cases().len() as u64)
                .batch(1)
                .exhaustive("the fixed reproducers of the listed findings and their control cases"),
            Phase::new("enum", gen::enum_total())
                .batch(64)
                .exhaustive("every lig/kern program of <=2 rules from {|,a,b,x,-}x{a,b,-,|}x{kern,8 LIG forms inserting x}, every word of 2-4 letters over {a,b}, every set of hyphen positions, minimums (1,1)"),
            Phase::new("cmr10", tier.pick(300_000, 20_000_000)).batch(64),
            Phase::new("synthetic", tier.pick(600_000, 40_000_000)).batch(64),
        ]
    }

    fn floors(&self, tier: Tier) -> Vec<(&'static str, u64)> {
        // about a third of what a quick run observes. The random phases of the thorough tier are 20x
        // larger but the enumerated phase (a large share of the boundary-ligature lists) is not:
        // the smallest thorough/quick-floor ratio measured is 11.
        let m = tier.pick(1, 8);
        let mut v = vec![
            ("unit_cases_run", 33),
            ("unit_cases_equal_to_TeX_golden", 33),
            ("known_reproducers_run", known_cases().len() as u64),
        ];
        for (name, q) in [
            ("lists_hyphenated", 1_000_000u64),
            ("lists_with_inserted_discretionary", 800_000),
            ("lists_with_ligature", 400_000),
            ("lists_with_implicit_kern", 150_000),
            ("lists_with_left_boundary_ligature", 60_000),
            ("lists_with_right_boundary_ligature", 120_000),
            ("words_tried", 1_400_000),
            ("words_tried_with_permitted_positions", 1_000_000),
            ("words_tried:longer_than_63_letters", 50_000),
            ("words_not_tried:followed_by_box_rule_disc_math", 80_000),
            ("words_not_tried:too_short", 150_000),
            ("words_not_tried:minimums_exceed_63", 40_000),
            ("(1)_words_restored_node_for_node", 1_500_000),
            ("discs_inserted", 2_500_000),
            ("(2)_discs_conserving_letters", 2_500_000),
            ("(2b)_pre_breaks_equal_translation", 2_500_000),
            ("(2b)_post_breaks_prefix_of_translation", 2_500_000),
            ("(2c)_post_breaks_starting_at_the_left_boundary", 20_000),
            ("discs_with_replace_count>0", 400_000),
            ("discs_replacing_a_ligature", 130_000),
            ("discs_with_post_break", 190_000),
            ("discs_with_pre_break_beyond_the_hyphen", 400_000),
            ("permitted_positions", 2_000_000),
            ("permitted_positions_taken", 2_000_000),
            ("permitted_positions_passed_over_inside_replaced_letters", 7_000),
            ("positions_removed_by_minimums", 450_000),
            ("(3)_words_with_all_permitted_positions_accounted_for", 1_000_000),
            ("excluded_from_(1):TeX_reconstitutes_with_following_char_ligature", 1_000),
        ] {
            v.push((name, q * m));
        }
        v
    }

    fn calibrate(&self, obs: &mut Obs) {
        match unit_cases() {
            Ok(cases) => {
                if cases.len() < 30 {
                    obs.inconclusive(format!("only {} unit cases found in boxworks-hyphenate", cases.len()));
                }
                for u in cases {
                    calibrate_on_unit(u, obs);
                }
            }
            Err(e) => obs.inconclusive(format!("cannot read the unit test table: {e}")),
        }
    }

    fn run_case(&self, phase: &str, idx: u64, rng: &mut Rng, obs: &mut Obs) {
        match phase {
            "unit" => match unit_cases() {
                Ok(cases) => {
                    if let Some(u) = cases.get(idx as usize) {
                        let spec = unit_spec(u);
                        if let Some(out) = run_and_report(&spec, obs) {
                            obs.count("unit_cases_run");
                            // golden: the list real TeX produced for this case (the test compares
                            // list[2..] of "x <word>" exactly; here the list also has the 2-node tail)
                            match boxworks::lang::parse_horizontal_list(&u.want) {
                                Ok(want) => {
                                    let want: Vec<N> = want.iter().map(N::from_h).collect();
                                    let got = &out.after[2..out.after.len() - 2];
                                    if got == &want[..] {
                                        obs.count("unit_cases_equal_to_TeX_golden");
                                    } else {
                                        obs.violation(
                                            "unit-case-differs-from-TeX-golden",
                                            json!({"unit_test": u.name, "case": spec.json(),
                                                "got": show_list(got), "TeX": show_list(&want)}),
                                        );
                                    }
                                }
                                Err(_) => obs.inconclusive(format!("unit case {}: cannot parse want", u.name)),
                            }
                        }
                    }
                }
                Err(e) => obs.inconclusive(format!("cannot read the unit test table: {e}")),
            },
            "known" => {
                let mut all = known_cases();
                if idx as usize >= all.len() {
                    return;
                }
                let (id, spec) = all.swap_remove(idx as usize);
                if let Some(out) = run_and_report(&spec, obs) {
                    obs.count("known_reproducers_run");
                    if id.is_empty() && (!out.report.known.is_empty() || !out.report.violations.is_empty()) {
                        obs.violation("control-case-next-to-a-finding-fails", json!({"case": spec.json()}));
                    }
                }
            }
            "enum" => {
                let rules = gen::enum_program(idx);
                let prog = gen::program_text(&rules);
                for w in ENUM_WORDS {
                    let gaps = w.len() - 1;
                    for mask in 0..(1u32 << gaps) {
                        let mut exc = String::new();
                        for (i, c) in w.chars().enumerate() {
                            if i > 0 && mask & (1 << (i - 1)) != 0 {
                                exc.push('-');
                            }
                            exc.push(c);
                        }
                        let spec = Spec {
                            font: FontSpec::Synthetic(prog.clone()),
                            items: text_items(&format!("x {w}")),
                            pats: PatSpec::Custom { patterns: vec![], exceptions: vec![exc] },
                            lmin: 1,
                            rmin: 1,
                        };
                        if run_and_report(&spec, obs).is_none() {
                            // infinite loop or the like: the whole program is out
                            return;
                        }
                    }
                }
                obs.nontrivial_by_construction(1);
            }
            "cmr10" => {
                let spec = gen::gen_cmr10(rng);
                run_and_report(&spec, obs);
            }
            "synthetic" => {
                let spec = gen::gen_synthetic(rng);
                run_and_report(&spec, obs);
            }
            _ => obs.inconclusive(format!("unknown phase {phase}")),
        }
    }
}
