//! Monitor for property C14 (see /verif/DESIGN.md §6).
pub mod world;
use vcore::*;

pub struct M;
pub static MONITOR: M = M;

impl Monitor for M {
    fn id(&self) -> &'static str {
        "C14"
    }
    fn rule(&self) -> String {
        "not built yet".into()
    }
    fn assumptions(&self) -> Vec<String> {
        vec![]
    }
    fn phases(&self, _tier: Tier) -> Vec<Phase> {
        vec![]
    }
    fn run_case(&self, _phase: &str, _idx: u64, _rng: &mut Rng, _obs: &mut Obs) {}
}
