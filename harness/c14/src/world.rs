//! Building the inputs of the hyphenation pass with the real code: fonts (cmr10 and cmr10 with a
//! synthetic lig/kern program), horizontal lists from text through `TextPreprocessorImpl`, and
//! the hyphenator object. Also the conversion of `ds::Horizontal` into plain data the oracle works
//! on (so that the oracle does not depend on the repo's `PartialEq` implementations).

use boxworks::ds;
use boxworks::TextPreprocessor;
use std::sync::OnceLock;
use vcore::{json, Value};
use vmodels::liang::HNode;

/// Plain-data image of a list node.
#[derive(Clone, Debug, PartialEq, Eq, Hash)]
pub enum N {
    Char { c: char, font: u32 },
    Lig { c: char, font: u32, orig: String, left: bool, right: bool },
    /// width in sp, normal (= from the font's lig/kern program) or not
    Kern { w: i32, normal: bool },
    Glue,
    Penalty(i32),
    Disc { pre: Vec<N>, post: Vec<N>, replace: u32 },
    HBox,
    VBox,
    Rule,
    Math,
    Mark,
    Insertion,
    Adjust,
    Whatsit,
}

impl N {
    pub fn from_h(h: &ds::Horizontal) -> N {
        use ds::Horizontal as H;
        match h {
            H::Char(c) => N::Char { c: c.char, font: c.font },
            H::Ligature(l) => N::Lig {
                c: l.char,
                font: l.font,
                orig: l.original_chars.to_string(),
                left: l.includes_left_boundary,
                right: l.includes_right_boundary,
            },
            H::Kern(k) => N::Kern { w: k.width.0, normal: k.kind == ds::KernKind::Normal },
            H::Glue(_) => N::Glue,
            H::Penalty(p) => N::Penalty(p.0),
            H::Discretionary(d) => N::Disc {
                pre: d.pre_break.iter().map(N::from_d).collect(),
                post: d.post_break.iter().map(N::from_d).collect(),
                replace: d.replace_count,
            },
            H::HBox(_) => N::HBox,
            H::VBox(_) => N::VBox,
            H::Rule(_) => N::Rule,
            H::Math(_) => N::Math,
            H::Mark(_) => N::Mark,
            H::Insertion(_) => N::Insertion,
            H::Adjust(_) => N::Adjust,
            H::Whatsit(_) => N::Whatsit,
        }
    }

    pub fn from_d(d: &ds::DiscretionaryElem) -> N {
        use ds::DiscretionaryElem as D;
        match d {
            D::Char(c) => N::Char { c: c.char, font: c.font },
            D::Ligature(l) => N::Lig {
                c: l.char,
                font: l.font,
                orig: l.original_chars.to_string(),
                left: l.includes_left_boundary,
                right: l.includes_right_boundary,
            },
            D::Kern(k) => N::Kern { w: k.width.0, normal: k.kind == ds::KernKind::Normal },
            D::HBox(_) => N::HBox,
            D::VBox(_) => N::VBox,
            D::Rule(_) => N::Rule,
        }
    }

    /// The node as the word finder of the reference model sees it.
    pub fn to_model(&self) -> HNode {
        match self {
            N::Char { c, font } => HNode::Char(*c, *font),
            N::Lig { font, orig, .. } => HNode::Lig(*font, orig.chars().collect()),
            N::Kern { normal: true, .. } => HNode::ImplicitKern,
            N::Kern { normal: false, .. } => HNode::OtherKern,
            N::Glue => HNode::Glue,
            N::Penalty(_) => HNode::Penalty,
            N::Disc { .. } | N::HBox | N::VBox | N::Rule | N::Math => HNode::BoxRuleDiscMath,
            N::Mark | N::Insertion | N::Adjust => HNode::InsAdjustMark,
            N::Whatsit => HNode::Whatsit,
        }
    }

    /// The original characters this node stands for.
    pub fn originals(&self) -> &str {
        match self {
            N::Lig { orig, .. } => orig.as_str(),
            _ => "",
        }
    }

    pub fn push_originals(&self, s: &mut String) {
        match self {
            N::Char { c, .. } => s.push(*c),
            N::Lig { orig, .. } => s.push_str(orig),
            _ => {}
        }
    }

    /// Compact human readable form used in witnesses.
    pub fn show(&self) -> String {
        fn ch(c: char) -> String {
            if c.is_ascii_graphic() {
                c.to_string()
            } else {
                format!("\\x{:02x}", c as u32)
            }
        }
        match self {
            N::Char { c, font } => {
                if *font == 0 {
                    ch(*c)
                } else {
                    format!("{}@{}", ch(*c), font)
                }
            }
            N::Lig { c, font, orig, left, right } => format!(
                "lig({}<-{}{}{}{})",
                ch(*c),
                if *left { "|" } else { "" },
                orig.chars().map(ch).collect::<String>(),
                if *right { "|" } else { "" },
                if *font == 0 { String::new() } else { format!("@{font}") }
            ),
            N::Kern { w, normal } => format!("{}[{}]", if *normal { "k" } else { "K" }, w),
            N::Glue => "_".into(),
            N::Penalty(p) => format!("pen({p})"),
            N::Disc { pre, post, replace } => format!(
                "disc{{{}}}{{{}}}{{{}}}",
                pre.iter().map(|n| n.show()).collect::<Vec<_>>().join(" "),
                post.iter().map(|n| n.show()).collect::<Vec<_>>().join(" "),
                replace
            ),
            N::HBox => "hbox".into(),
            N::VBox => "vbox".into(),
            N::Rule => "rule".into(),
            N::Math => "math".into(),
            N::Mark => "mark".into(),
            N::Insertion => "ins".into(),
            N::Adjust => "adjust".into(),
            N::Whatsit => "whatsit".into(),
        }
    }
}

pub fn show_list(l: &[N]) -> String {
    l.iter().map(|n| n.show()).collect::<Vec<_>>().join(" ")
}

// ------------------------------------------------------------------------------------------
// fonts
// ------------------------------------------------------------------------------------------

fn cmr10_bytes() -> Result<&'static Vec<u8>, String> {
    static B: OnceLock<Result<Vec<u8>, String>> = OnceLock::new();
    B.get_or_init(|| {
        let p = vcore::repo_dir().join("crates/tfm/corpus/computer-modern/cmr10.tfm");
        std::fs::read(&p).map_err(|e| format!("{}: {e}", p.display()))
    })
    .as_ref()
    .map_err(|e| e.clone())
}

pub struct FontSetup {
    pub tfm: tfm::File,
    pub program: tfm::ligkern::CompiledProgram,
    /// The compact source of a synthetic lig/kern program (`None` = cmr10's own program).
    pub source: Option<String>,
}

/// cmr10 as it is.
pub fn cmr10() -> Result<FontSetup, String> {
    let mut tfm = tfm::File::deserialize(cmr10_bytes()?).0.map_err(|e| format!("cmr10.tfm: {e:?}"))?;
    let (program, errs) = tfm::ligkern::CompiledProgram::compile_from_tfm_file(&mut tfm);
    if !errs.is_empty() {
        return Err("cmr10's lig/kern program has an infinite loop?".into());
    }
    Ok(FontSetup { tfm, program, source: None })
}

/// cmr10's metrics with the lig/kern program replaced by `source` (compact syntax of
/// `tfm::ligkern::lang::Program::parse_compact`, the same route the repo's own tests take).
/// `Ok(None)`: the program has an infinite loop (outside the quantifier: PLtoTF rejects it).
pub fn synthetic(source: &str) -> Result<Option<FontSetup>, String> {
    let mut tfm = tfm::File::deserialize(cmr10_bytes()?).0.map_err(|e| format!("cmr10.tfm: {e:?}"))?;
    let (p, e) = tfm::ligkern::lang::Program::parse_compact(source)
        .map_err(|e| format!("parse_compact({source:?}): {e:?}"))?;
    tfm.replace_lig_kern_program(p, e);
    let (program, errs) = tfm::ligkern::CompiledProgram::compile_from_tfm_file(&mut tfm);
    if !errs.is_empty() {
        return Ok(None);
    }
    Ok(Some(FontSetup { tfm, program, source: Some(source.to_string()) }))
}

// ------------------------------------------------------------------------------------------
// lists
// ------------------------------------------------------------------------------------------

/// What a generated paragraph consists of.
#[derive(Clone, Debug, PartialEq, Eq, Hash)]
pub enum Item {
    /// A run of non-space characters typeset in font `font` (0 or 1; both fonts have the same
    /// metrics and program). Consecutive `Text` items without a `Space` between them model a font
    /// change inside a word.
    Text(String, u32),
    Space,
    /// A node that is not produced from characters.
    Node(Extra),
}

#[derive(Clone, Copy, Debug, PartialEq, Eq, Hash)]
pub enum Extra {
    Penalty,
    ExplicitKern,
    HBox,
    Rule,
    MathOn,
    MathOff,
    Mark,
    Glue,
    EmptyDisc,
}

pub fn extra_node(e: Extra) -> ds::Horizontal {
    use ds::Horizontal as H;
    match e {
        Extra::Penalty => H::Penalty(ds::Penalty(50)),
        Extra::ExplicitKern => H::Kern(ds::Kern { width: common::Scaled(65536), kind: ds::KernKind::Explicit }),
        Extra::HBox => H::HBox(ds::HBox::new_null_box()),
        Extra::Rule => H::Rule(ds::Rule::new()),
        Extra::MathOn => H::Math(ds::Math::Before),
        Extra::MathOff => H::Math(ds::Math::After),
        Extra::Mark => H::Mark(ds::Mark { list: vec![] }),
        Extra::Glue => H::Glue(common::Glue { width: common::Scaled(3 * 65536), ..common::Glue::ZERO }.into()),
        Extra::EmptyDisc => H::Discretionary(ds::Discretionary::new()),
    }
}

/// Text -> horizontal list through the real `TextPreprocessorImpl`, finished the way
/// `LineBreaker::break_line` finishes a paragraph (TeX §816): a trailing glue is removed and
/// `\penalty10000\parfillskip` appended.
pub fn build_list(font: &FontSetup, items: &[Item]) -> Vec<ds::Horizontal> {
    let mut tp = boxworks_text::TextPreprocessorImpl::new(boxworks_text::Params::plain_tex_defaults());
    tp.register_font(0, &font.tfm, font.program.clone());
    tp.register_font(1, &font.tfm, font.program.clone());
    tp.new_paragraph();
    let mut list = vec![];
    for it in items {
        match it {
            Item::Text(t, f) => {
                tp.activate_font(*f);
                tp.add_word(t, &mut list);
            }
            Item::Space => tp.add_space(&mut list),
            Item::Node(e) => list.push(extra_node(*e)),
        }
    }
    if matches!(list.last(), Some(ds::Horizontal::Glue(_))) {
        list.pop();
    }
    list.push(ds::Horizontal::Penalty(ds::Penalty::INFINITE));
    list.push(ds::Horizontal::Glue(common::Glue::ZERO.into()));
    list
}

pub fn items_json(items: &[Item]) -> Value {
    Value::Array(
        items
            .iter()
            .map(|i| match i {
                Item::Text(t, 0) => json!(t),
                Item::Text(t, f) => json!({"text": t, "font": f}),
                Item::Space => json!(" "),
                Item::Node(e) => json!({ "node": format!("{e:?}") }),
            })
            .collect(),
    )
}
