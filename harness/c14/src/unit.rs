//! Reads the table of TeX-verified cases out of the repository's own unit tests
//! (`crates/boxworks-hyphenate/src/lib.rs`, macro invocation `hyphenation_tests![ ... ]`). The
//! `want` lists there were produced by real TeX (`TEXCRAFT_VERIFY=tex`), which makes them the only
//! ground truth for part 40-41 available in this sandbox: the oracle must accept every one of them.

#[derive(Clone, Debug, Default)]
pub struct UnitCase {
    pub name: String,
    pub input: String,
    pub lig_kern_program: String,
    pub want: String,
    pub hyphenation_patterns: Option<String>,
    pub left_hyphen_min: Option<i32>,
    pub lossy: bool,
}

#[derive(Debug, Clone, PartialEq)]
enum Tok {
    Open,
    Close,
    LParen,
    RParen,
    Comma,
    Colon,
    Ident(String),
    Str(String),
    Num(i64),
    End,
}

fn tokenize(src: &str) -> Result<Vec<Tok>, String> {
    let b: Vec<char> = src.chars().collect();
    let mut i = 0;
    let mut out = vec![];
    while i < b.len() {
        let c = b[i];
        if c.is_whitespace() {
            i += 1;
        } else if c == '/' && b.get(i + 1) == Some(&'/') {
            while i < b.len() && b[i] != '\n' {
                i += 1;
            }
        } else if c == '{' {
            out.push(Tok::Open);
            i += 1;
        } else if c == '}' {
            out.push(Tok::Close);
            i += 1;
        } else if c == '(' {
            out.push(Tok::LParen);
            i += 1;
        } else if c == ')' {
            out.push(Tok::RParen);
            i += 1;
        } else if c == ',' {
            out.push(Tok::Comma);
            i += 1;
        } else if c == ':' {
            out.push(Tok::Colon);
            i += 1;
        } else if c == ']' {
            out.push(Tok::End);
            return Ok(out);
        } else if c == 'r' && b.get(i + 1) == Some(&'#') && b.get(i + 2) == Some(&'"') {
            i += 3;
            let mut s = String::new();
            loop {
                if i + 1 >= b.len() {
                    return Err("unterminated raw string".into());
                }
                if b[i] == '"' && b[i + 1] == '#' {
                    i += 2;
                    break;
                }
                s.push(b[i]);
                i += 1;
            }
            out.push(Tok::Str(s));
        } else if c == '"' {
            i += 1;
            let mut s = String::new();
            loop {
                if i >= b.len() {
                    return Err("unterminated string".into());
                }
                if b[i] == '\\' {
                    // a line continuation or a simple escape
                    match b.get(i + 1) {
                        Some('n') => s.push('\n'),
                        Some('"') => s.push('"'),
                        Some('\\') => s.push('\\'),
                        Some('\n') => {
                            i += 2;
                            while i < b.len() && b[i].is_whitespace() {
                                i += 1;
                            }
                            continue;
                        }
                        other => return Err(format!("unsupported escape {other:?}")),
                    }
                    i += 2;
                    continue;
                }
                if b[i] == '"' {
                    i += 1;
                    break;
                }
                s.push(b[i]);
                i += 1;
            }
            out.push(Tok::Str(s));
        } else if c.is_ascii_digit() || c == '-' {
            let st = i;
            i += 1;
            while i < b.len() && b[i].is_ascii_digit() {
                i += 1;
            }
            let t: String = b[st..i].iter().collect();
            out.push(Tok::Num(t.parse().map_err(|e| format!("number {t}: {e}"))?));
        } else if c.is_alphabetic() || c == '_' {
            let st = i;
            while i < b.len() && (b[i].is_alphanumeric() || b[i] == '_') {
                i += 1;
            }
            out.push(Tok::Ident(b[st..i].iter().collect()));
        } else {
            return Err(format!("unexpected character {c:?}"));
        }
    }
    Err("no closing ] of hyphenation_tests![".into())
}

pub fn parse(source: &str) -> Result<Vec<UnitCase>, String> {
    let start = source
        .find("hyphenation_tests![")
        .ok_or("hyphenation_tests![ not found")?;
    let toks = tokenize(&source[start + "hyphenation_tests![".len()..])?;
    let mut i = 0;
    let mut cases = vec![];
    let expect = |i: &mut usize, t: Tok| -> Result<(), String> {
        if toks.get(*i) == Some(&t) {
            *i += 1;
            Ok(())
        } else {
            Err(format!("expected {t:?} at token {} but found {:?}", *i, toks.get(*i)))
        }
    };
    loop {
        match toks.get(i) {
            Some(Tok::End) => break,
            Some(Tok::Open) => {}
            other => return Err(format!("expected a case but found {other:?}")),
        }
        i += 1;
        let mut c = UnitCase::default();
        match toks.get(i) {
            Some(Tok::Ident(n)) => c.name = n.clone(),
            other => return Err(format!("expected the case name but found {other:?}")),
        }
        i += 1;
        expect(&mut i, Tok::Comma)?;
        expect(&mut i, Tok::Ident("TestCase".into()))?;
        expect(&mut i, Tok::Open)?;
        while let Some(Tok::Ident(field)) = toks.get(i).cloned() {
            i += 1;
            expect(&mut i, Tok::Colon)?;
            // value: "str" | Some("str") | Some(num)
            let mut some = false;
            if toks.get(i) == Some(&Tok::Ident("Some".into())) {
                some = true;
                i += 1;
                expect(&mut i, Tok::LParen)?;
            }
            let v = toks.get(i).cloned();
            i += 1;
            if some {
                expect(&mut i, Tok::RParen)?;
            }
            expect(&mut i, Tok::Comma)?;
            match (field.as_str(), v) {
                ("input", Some(Tok::Str(s))) => c.input = s,
                ("lig_kern_program", Some(Tok::Str(s))) => c.lig_kern_program = s,
                ("want", Some(Tok::Str(s))) => c.want = s,
                ("hyphenation_patterns", Some(Tok::Str(s))) => c.hyphenation_patterns = Some(s),
                ("left_hyphen_min", Some(Tok::Num(n))) => c.left_hyphen_min = Some(n as i32),
                (f, v) => return Err(format!("case {}: unknown field {f} = {v:?}", c.name)),
            }
        }
        expect(&mut i, Tok::Close)?;
        expect(&mut i, Tok::Comma)?;
        if toks.get(i) == Some(&Tok::Ident("lossy".into())) {
            i += 1;
            expect(&mut i, Tok::Colon)?;
            match toks.get(i) {
                Some(Tok::Ident(b)) => c.lossy = b == "true",
                other => return Err(format!("lossy: {other:?}")),
            }
            i += 1;
            expect(&mut i, Tok::Comma)?;
        }
        expect(&mut i, Tok::Close)?;
        expect(&mut i, Tok::Comma)?;
        cases.push(c);
    }
    Ok(cases)
}

pub fn load() -> Result<Vec<UnitCase>, String> {
    let p = vcore::repo_dir().join("crates/boxworks-hyphenate/src/lib.rs");
    let src = std::fs::read_to_string(&p).map_err(|e| format!("{}: {e}", p.display()))?;
    parse(&src)
}
