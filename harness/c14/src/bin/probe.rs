// dev-time probe: probe '<program lines separated by ;>' '<text>' '<exceptions space separated>' lmin rmin
use boxworks::Hyphenator as _;
use c14::world::*;
fn main() {
    let a: Vec<String> = std::env::args().collect();
    let prog = a[1].replace(';', "\n");
    let font = if prog.trim() == "cmr10" { cmr10().unwrap() } else { synthetic(&prog).unwrap().expect("infinite loop") };
    let mut items = vec![];
    for (i, w) in a[2].split(' ').enumerate() {
        if i > 0 {
            items.push(Item::Space);
        }
        if !w.is_empty() {
            items.push(Item::Text(w.to_string(), 0));
        }
    }
    let mut list = build_list(&font, &items);
    let before: Vec<N> = list.iter().map(N::from_h).collect();
    let mut h = boxworks_hyphenate::Hyphenator::plain_tex_en_us(font.program.clone());
    if a[3] != "plain" {
        h.hyphenator = hyphenate::Hyphenator::default();
        for e in a[3].split(' ') {
            h.hyphenator.insert_exception(e);
        }
    }
    h.left_hyphen_min = a[4].parse().unwrap();
    h.right_hyphen_min = a[5].parse().unwrap();
    h.hyphenate(&mut list);
    let after: Vec<N> = list.iter().map(N::from_h).collect();
    println!("before: {}", show_list(&before));
    println!("after : {}", show_list(&after));
}
