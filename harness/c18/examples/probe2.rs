use boxworks::lang as bwl;
fn main() {
    let a: Vec<String> = std::env::args().collect();
    let kind = a[1].as_str();
    let n: usize = a[2].parse().unwrap();
    let s = match kind {
        "invalid" => "/".repeat(n),
        "nest" => { let mut s = String::new(); for _ in 0..n { s.push_str("hbox(content=["); } for _ in 0..n { s.push_str("])"); } s }
        "open" => "[".repeat(n),
        "openr" => "(".repeat(n),
        "close" => ")".repeat(n),
        "comments" => "#x\n".repeat(n),
        "kw" => "a ".repeat(n),
        "commas" => ",".repeat(n),
        "argcomments" => format!("a({})", "#x\n".repeat(n)),
        "args" => format!("a({})", "1,".repeat(n)),
        "badargs" => format!("a({})", "=".repeat(n)),
        "calls" => "a()".repeat(n),
        _ => panic!(),
    };
    let t = std::time::Instant::now();
    let r = bwl::parse_horizontal_list(&s);
    println!("parse {} {} -> ok={} errs={} in {:?}", kind, n, r.is_ok(), r.as_ref().err().map(|e| e.len()).unwrap_or(0), t.elapsed());
    let t = std::time::Instant::now();
    let r = bwl::format(&s);
    println!("format -> ok={} len={} in {:?}", r.is_ok(), r.as_ref().map(|e| e.len()).unwrap_or(0), t.elapsed());
}
