use boxworks::ds;
use boxworks::lang as bwl;
use boxworks::lang::convert::ToBoxLang;
use common::{Scaled, GlueOrder};

fn try_text(s: &str) {
    let r = std::panic::catch_unwind(|| {
        match bwl::parse_horizontal_list(s) {
            Ok(v) => format!("OK {} elems", v.len()),
            Err(e) => format!("ERR {:?}", e.iter().map(|x| x.message()).collect::<Vec<_>>()),
        }
    });
    println!("{:?} -> {:?}", s, r.unwrap_or_else(|_| "PANIC".into()));
    let r = std::panic::catch_unwind(|| {
        match bwl::format(s) { Ok(v) => format!("FMT OK {:?}", v), Err(e) => format!("FMT ERR {}", e.len()) }
    });
    println!("     fmt -> {:?}", r.unwrap_or_else(|_| "PANIC".into()));
}

fn rt(list: Vec<ds::Horizontal>) {
    let mut s = String::new();
    for e in list.to_box_lang() { use std::fmt::Write; write!(&mut s, "{}", e).unwrap(); }
    println!("{}", s);
    let r = std::panic::catch_unwind(std::panic::AssertUnwindSafe(|| match bwl::parse_horizontal_list(&s) {
        Ok(v) => format!("equal={}", v == list),
        Err(e) => format!("ERR {:?}", e),
    }));
    println!(" => {:?}", r.unwrap_or_else(|_| "PANIC".into()));
}

fn main() {
    for t in ["penalty(99999999999)", "penalty(-2147483648)", "penalty(2147483647)", "penalty(-2147483647)", "kern(20000pt)", "kern(16383.99998pt)","kern(16383.99999pt)", "kern(16384pt)", "glue(0pt, 40000fil)", "glue(0pt, 20000fil)", "kern(1073741823sp)", "kern(1073741824sp)", "kern(3000in)",
        "chars(\"\\u{ffffffffff}\")", "chars(\"\\u\u{e9}x\")", "chars(\"\\ux\")", "chars(\"abc", "chars(\"a\\", "chars(\"\\u{", "-", "kern(-)", "kern(-pt)", "kern(1.5)", "kern(.5pt)", "hbox(glue_ratio=\"20000.0\")", "hbox(glue_ratio=\"-1.5\")", "hbox(glue_ratio=\"abc\")", "hbox(glue_ratio=\"1.٣\")", "hbox(glue_ratio=\"\")", "hbox(glue_ratio=\"1\")","hbox(glue_ratio=\"é\")",
        "insertion(256)", "insertion(-1)", "chars(\"a\", -1)", "disc(replace_count=-1)", "math(\"x\")", "mark(1)", "mark(dummy=1)", "kern(1.00000000000000000000000001pt)", "kern(0.99999999999999999pt)", "[", "(", "a(", "a[", "a(b=[)", "a(b=[c(])", "chars(\"\u{301}\")"] {
        try_text(t);
    }
    // round trips
    rt(vec![ds::Char{char:'\\', font:0}.into(), ds::Char{char:'\n', font:0}.into(), ds::Char{char:'\u{301}', font:0}.into(), ds::Char{char:'\u{10ffff}', font:0}.into(), ds::Char{char:'"', font:1}.into(), ds::Char{char:'\'', font:1}.into(), ds::Char{char:'\u{7f}', font:1}.into()]);
    rt(vec![ds::Kern{width: Scaled((1<<30)-1), kind: ds::KernKind::Normal}.into(), ds::Kern{width: Scaled(-((1<<30)-1)), kind: ds::KernKind::Normal}.into(), ds::Kern{width: Scaled(-1), kind: ds::KernKind::Normal}.into()]);
    rt(vec![ds::Glue{ kind: ds::GlueKind::Normal, value: common::Glue{ width: Scaled(5), stretch: Scaled((1<<30)-1), stretch_order: GlueOrder::Filll, shrink: Scaled(-((1<<30)-1)), shrink_order: GlueOrder::Fil}}.into(),
      ds::Glue{ kind: ds::GlueKind::Normal, value: common::Glue{ width: Scaled(5), stretch: Scaled(0), stretch_order: GlueOrder::Fill, shrink: Scaled(0), shrink_order: GlueOrder::Fil}}.into()]);
    for (n,d) in [(1,3),(-1,2),(65536*20000,65536),(65536*16384, 65536), (1073741823,65536),(1073741823,1),(1,0),(0,0),(1073741823, 65537), (12345678, 777)] {
        rt(vec![ds::HBox{ glue_ratio: ds::GlueRatio{num: Scaled(n), den: Scaled(d)}, glue_order: GlueOrder::Fil, ..Default::default()}.into()]);
    }
    rt(vec![ds::Rule{height: ds::Rule::RUNNING, width: Scaled(1), depth: Scaled(-(1<<30))}.into()]);
    rt(vec![ds::Insertion{box_number: 255, height: Scaled(1), split_max_depth: Scaled(2), split_top_skip: common::Glue{width: Scaled(3), stretch: Scaled(4), stretch_order: GlueOrder::Fil, shrink: Scaled(5), shrink_order: GlueOrder::Normal}, float_penalty: 4294967295, vbox: vec![ds::Vertical::Penalty(ds::Penalty(3))]}.into(), ds::Mark{list: vec![]}.into(), ds::Math::After.into(), ds::Math::Before.into(), ds::Adjust{list: vec![ds::Vertical::Kern(ds::Kern{width: Scaled(7), kind: ds::KernKind::Normal})]}.into()]);
    rt(vec![ds::Ligature{char: '"', font: 3, original_chars: "a\"\\b".into(), includes_left_boundary: true, includes_right_boundary: false}.into(),
       ds::Discretionary{pre_break: vec![ds::Char{char:'a', font:1}.into(), ds::Char{char:'b', font:1}.into(), ds::Kern{width: Scaled(1), kind: ds::KernKind::Normal}.into()], post_break: vec![], replace_count: 2147483647}.into()]);
    let vb = ds::VBox{ list: vec![ds::Vertical::Glue(common::Glue::default().into())], ..Default::default()};
    println!("{}", vb);
    println!("{}", ds::Horizontal::Char(ds::Char{char:'x', font:2}));
}
