//! Source-text workloads for the Box language parser and formatter: re-laid-out valid programs
//! (whitespace and comments moved around, which must not matter), mutated programs, token soup.

use vcore::Rng;

/// Split pretty-printed (or any) source into "outside string" and "string literal" pieces.
/// Returns (is_string, text) pairs; string pieces include their quotes.
fn split_strings(src: &str) -> Vec<(bool, String)> {
    let mut out = vec![];
    let mut cur = String::new();
    let mut in_str = false;
    let mut in_comment = false;
    let mut escaped = false;
    for c in src.chars() {
        if in_str {
            cur.push(c);
            if escaped {
                escaped = false;
            } else if c == '\\' {
                escaped = true;
            } else if c == '"' {
                out.push((true, std::mem::take(&mut cur)));
                in_str = false;
            }
        } else if in_comment {
            cur.push(c);
            if c == '\n' {
                in_comment = false;
            }
        } else if c == '"' {
            if !cur.is_empty() {
                out.push((false, std::mem::take(&mut cur)));
            }
            cur.push(c);
            in_str = true;
        } else {
            if c == '#' {
                in_comment = true;
            }
            cur.push(c);
        }
    }
    if !cur.is_empty() {
        out.push((in_str, cur));
    }
    out
}

const FILLERS: &[&str] = &[
    " ", "  ", "\n", "\t", "\r\n", "\n\n", " \n  ", "\u{a0}", "\u{3000}", "\u{2028}", "\u{b}", "\u{c}", "",
];

const COMMENTS: &[&str] = &[
    "# a comment\n",
    "#\n",
    "## double\n",
    "# with \"quotes\" ( [ ) ] , = inside\n",
    "#é中\u{1f600}\n",
    "# trailing space \n",
    "#\ttab\r\n",
    "# one\n# two\n",
];

fn filler(rng: &mut Rng, comments: bool) -> String {
    let mut s = String::new();
    for _ in 0..rng.range_usize(0, 2) {
        if comments && rng.chance(1, 4) {
            s.push_str(ps(rng, COMMENTS));
        } else {
            s.push_str(ps(rng, FILLERS));
        }
    }
    s
}

/// Re-lay-out a program without changing its token sequence: all whitespace outside string
/// literals (which, in printer output, only ever sits next to punctuation) is dropped and random
/// whitespace / comments are inserted around punctuation instead. Trailing commas before a
/// closing bracket may be dropped, and commas added after list arguments.
/// `src` must not contain comments (printer output never does).
pub fn relayout(rng: &mut Rng, src: &str, comments: bool) -> String {
    let mut out = String::new();
    let pieces = split_strings(src);
    // compact form first
    let mut compact: Vec<(bool, String)> = vec![];
    for (is_str, text) in pieces {
        if is_str {
            compact.push((true, text));
        } else {
            let t: String = text.chars().filter(|c| !c.is_whitespace()).collect();
            if !t.is_empty() {
                compact.push((false, t));
            }
        }
    }
    let drop_trailing_commas = rng.chance(1, 3);
    let n = compact.len();
    for (pi, (is_str, text)) in compact.iter().enumerate() {
        if *is_str {
            out.push_str(text);
            continue;
        }
        let chars: Vec<char> = text.chars().collect();
        for (i, c) in chars.iter().enumerate() {
            match c {
                '(' | ')' | '[' | ']' | ',' | '=' => {
                    if *c == ',' && drop_trailing_commas {
                        // a comma directly before a closing bracket is optional
                        let next = chars.get(i + 1).copied().or_else(|| {
                            if pi + 1 < n && !compact[pi + 1].0 {
                                compact[pi + 1].1.chars().next()
                            } else {
                                None
                            }
                        });
                        if matches!(next, Some(')') | Some(']')) && rng.coin() {
                            continue;
                        }
                    }
                    out.push_str(&filler(rng, comments));
                    out.push(*c);
                    out.push_str(&filler(rng, comments));
                }
                _ => out.push(*c),
            }
        }
    }
    if rng.coin() {
        out.push_str(&filler(rng, comments));
    }
    out
}

const FUNCS: &[&str] = &[
    "chars", "glue", "penalty", "kern", "hbox", "vbox", "lig", "disc", "rule", "mark", "adjust", "insertion", "math", "text",
    "hlist", "a", "Glue", "x_y",
];
const KEYS: &[&str] = &[
    "content", "font", "width", "stretch", "shrink", "value", "height", "depth", "shift_amount", "glue_ratio", "glue_order",
    "char", "original_chars", "includes_left_boundary", "includes_right_boundary", "pre_break", "post_break", "replace_count",
    "box_number", "split_max_depth", "split_top_skip_width", "split_top_skip_stretch", "split_top_skip_shrink",
    "float_penalty", "vbox", "kind", "dummy", "nope",
];
const UNITS: &[&str] = &["pt", "pc", "in", "bp", "cm", "mm", "dd", "cc", "sp", "fil", "fill", "filll", "em", "p", "filllll", "PT"];

/// A number token. `wild` allows the literals that are known to crash the lexer today
/// (integer overflow, dimensions beyond TeX's range); they are kept rare so that most texts
/// exercise the rest of the parser. Without `wild` the value stays below 16384pt whatever the
/// unit is.
pub fn number(rng: &mut Rng, wild: bool) -> String {
    let mut s = String::new();
    if rng.chance(1, 4) {
        s.push('-');
    }
    let unit: Option<&str> = match rng.below(12) {
        0 | 1 => None,
        _ => Some(ps(rng, UNITS)),
    };
    // largest integer part that is still a legal dimension in this unit
    let cap: u64 = match unit {
        Some("in") => 226,
        Some("pc") => 1365,
        Some("cm") => 575,
        Some("mm") => 5758,
        Some("cc") => 1275,
        Some("dd") => 15000,
        Some("bp") => 16000,
        Some(_) => 16383,
        None => i32::MAX as u64,
    };
    let int: u64 = if wild {
        match rng.below(4) {
            0 => i32::MAX as u64 + rng.below(3),
            1 => rng.next_u64(),
            2 => 16384 + rng.below(100000),
            _ => cap + rng.below(3),
        }
    } else {
        match rng.below(9) {
            0 => 0,
            1 => rng.below(10),
            2 => rng.below(200),
            3 => rng.below(cap + 1),
            4 => cap,
            _ => rng.below(1000),
        }
        .min(cap)
    };
    if rng.chance(1, 12) {
        s.push_str(&format!("{:03}", int));
    } else {
        s.push_str(&int.to_string());
    }
    let Some(unit) = unit else {
        if rng.chance(1, 6) {
            s.push_str(".5"); // a number without units
        }
        return s;
    };
    if !rng.chance(1, 5) {
        s.push('.');
        let maxd = if rng.chance(1, 10) { 25 } else { 6 };
        for _ in 0..rng.range_usize(0, maxd) {
            s.push((b'0' + rng.below(10) as u8) as char);
        }
        if rng.chance(1, 30) {
            s.push_str(".5");
        }
    }
    s.push_str(unit);
    s
}

pub fn string_literal(rng: &mut Rng) -> String {
    let mut s = String::from("\"");
    for _ in 0..rng.range_usize(0, 8) {
        match rng.below(14) {
            0..=5 => s.push((b'a' + rng.below(26) as u8) as char),
            6 => s.push_str(ps(rng, &["\\\"", "\\\\", "\\n", "\\t", "\\0", "\\r", "\\'"])),
            7 => s.push_str(&format!("\\u{{{:x}}}", rng.below(0x110000))),
            8 => s.push_str(ps(rng, &["\\u{}", "\\u{110000}", "\\u{d800}", "\\u{zz}", "\\u{41", "\\a", "\\x41", "\\ ", "\\u{0041}"])),
            9 => s.push_str(ps(rng, &["true", "false", "running", "normal", "fil", "fill", "filll", "before", "after", "1.5", "0.0"])),
            10 => s.push(*rng.pick(&['(', ')', '[', ']', '#', ',', '=', '\n', 'é', '中', '\u{1f600}', '\u{301}'])),
            11 => {
                let c = (b' ' + rng.below(95) as u8) as char;
                if c != '"' && c != '\\' {
                    s.push(c)
                }
            }
            12 => {
                if let Some(c) = char::from_u32(rng.below(0x110000) as u32) {
                    if c != '"' && c != '\\' {
                        s.push(c)
                    }
                }
            }
            _ => s.push(' '),
        }
    }
    if !rng.chance(1, 40) {
        s.push('"');
    }
    s
}

fn value(rng: &mut Rng, depth: u32, wild: bool) -> String {
    match rng.below(10) {
        0..=3 => number(rng, wild),
        4..=6 => string_literal(rng),
        7 | 8 if depth < 4 => {
            let mut s = String::from("[");
            for _ in 0..rng.range_usize(0, 3) {
                s.push_str(&call(rng, depth + 1, wild));
                s.push_str(ps(rng, &[" ", "\n", "", " , "]));
            }
            if !rng.chance(1, 30) {
                s.push(']');
            }
            s
        }
        _ => rng.pick(KEYS).to_string(),
    }
}

/// One (mostly well-formed) function call.
pub fn call(rng: &mut Rng, depth: u32, wild: bool) -> String {
    let mut s = String::new();
    s.push_str(ps(rng, FUNCS));
    s.push_str(ps(rng, &["(", "(", "(", " (", "\n(", "[", ""]));
    let n = rng.range_usize(0, 4);
    for i in 0..n {
        if rng.chance(1, 2) {
            s.push_str(ps(rng, KEYS));
            s.push_str(ps(rng, &["=", "=", " = ", "", "=="]));
        }
        s.push_str(&value(rng, depth, wild));
        if i + 1 < n || rng.chance(1, 3) {
            s.push_str(ps(rng, &[",", ", ", " ,\n", " ", ",,"]));
        }
        if rng.chance(1, 10) {
            s.push_str(ps(rng, COMMENTS));
        }
    }
    s.push_str(ps(rng, &[")", ")", ")", ")\n", "]", ""]));
    s
}

const SOUP: &[&str] = &[
    "(", ")", "[", "]", ",", "=", "\"", "\\", "#", "\n", " ", ".", "-", "0", "9", "pt", "fil", "chars", "glue", "\\u", "\\u{", "}",
    "\"\"", "\"a\"", "é", "中", "\u{1f600}", "\u{301}", "/", "*", ";", ":", "_", "a_b", "1.5pt", "-0pt", "3fill", "\u{0}", "\t",
    "\r", "\u{feff}", "\u{2028}", "'", "{", "<", "1e5",
];

/// Token soup: no structure at all.
pub fn soup(rng: &mut Rng) -> String {
    let mut s = String::new();
    let n = match rng.below(6) {
        0 => rng.range_usize(0, 3),
        1 => rng.range_usize(50, 200),
        _ => rng.range_usize(1, 30),
    };
    for _ in 0..n {
        match rng.below(12) {
            0 => {
                let wild = rng.chance(1, 12);
                s.push_str(&number(rng, wild))
            }
            1 => s.push_str(&string_literal(rng)),
            2 => s.push_str(ps(rng, FUNCS)),
            3 => s.push_str(ps(rng, KEYS)),
            4 => {
                if let Some(c) = char::from_u32(rng.below(0x110000) as u32) {
                    s.push(c)
                }
            }
            _ => s.push_str(ps(rng, SOUP)),
        }
    }
    s
}

/// A small random program of calls.
pub fn program(rng: &mut Rng, wild: bool) -> String {
    let mut s = String::new();
    for _ in 0..rng.range_usize(0, 5) {
        if rng.chance(1, 6) {
            s.push_str(ps(rng, COMMENTS));
        }
        s.push_str(&call(rng, 0, wild));
        s.push_str(ps(rng, &["\n", " ", "", "\n\n"]));
    }
    s
}

const INSERTS: &[&str] = &[
    "(", ")", "[", "]", ",", "=", "\"", "\\", "#", "\n", ".", "-", "0", "9", "pt", "fil", "\\u", "\\u{", "}", "é", "\u{301}", "/",
    " ", "a", "_", "\u{1f600}", "\\\"", "99999", "\\a",
];

/// 1-3 character-level mutations of a valid program.
pub fn mutate(rng: &mut Rng, base: &str, other: &str, wild: bool) -> String {
    let mut v: Vec<char> = base.chars().collect();
    let o: Vec<char> = other.chars().collect();
    for _ in 0..rng.range_usize(1, 3) {
        match rng.below(10) {
            0 | 1 if !v.is_empty() => {
                let i = rng.usize_below(v.len());
                v.remove(i);
            }
            2 | 3 => {
                let i = rng.usize_below(v.len() + 1);
                let ins: Vec<char> = rng.pick(INSERTS).chars().collect();
                for (k, c) in ins.into_iter().enumerate() {
                    v.insert(i + k, c);
                }
            }
            4 if !v.is_empty() => {
                let i = rng.usize_below(v.len());
                let j = (i + rng.range_usize(1, 20)).min(v.len());
                v.drain(i..j);
            }
            5 if !v.is_empty() => {
                let i = rng.usize_below(v.len());
                let j = (i + rng.range_usize(1, 30)).min(v.len());
                let chunk: Vec<char> = v[i..j].to_vec();
                let at = rng.usize_below(v.len() + 1);
                for (k, c) in chunk.into_iter().enumerate() {
                    v.insert(at + k, c);
                }
            }
            6 if !v.is_empty() => {
                let i = rng.usize_below(v.len());
                v.truncate(i);
            }
            7 if !v.is_empty() => {
                // replace a digit run by another number
                if let Some(i) = (0..v.len()).filter(|i| v[*i].is_ascii_digit()).nth(rng.usize_below(8)) {
                    let mut j = i;
                    while j < v.len() && (v[j].is_ascii_digit() || v[j] == '.') {
                        j += 1;
                    }
                    let mut k = j;
                    while k < v.len() && v[k].is_ascii_alphabetic() {
                        k += 1;
                    }
                    let num: Vec<char> = number(rng, wild).chars().collect();
                    v.splice(i..k, num);
                }
            }
            8 => {
                let i = rng.usize_below(v.len() + 1);
                let j = rng.usize_below(o.len() + 1);
                v.truncate(i);
                v.extend_from_slice(&o[j..]);
            }
            _ if !v.is_empty() => {
                let i = rng.usize_below(v.len());
                let j = rng.usize_below(v.len());
                v.swap(i, j);
            }
            _ => {}
        }
    }
    v.into_iter().collect()
}

// ------------------------------------------------------------------------------------------
// Trigger predicates of the known lexer crashes (syntactic, over the raw text; deliberately
// over-approximate: they are necessary conditions used to refuse an attribution).

fn digit_runs(text: &str) -> Vec<(usize, usize)> {
    let b = text.as_bytes();
    let mut out = vec![];
    let mut i = 0;
    while i < b.len() {
        if b[i].is_ascii_digit() {
            let s = i;
            while i < b.len() && b[i].is_ascii_digit() {
                i += 1;
            }
            out.push((s, i));
        } else {
            i += 1;
        }
    }
    out
}

fn run_value(text: &str, s: usize, e: usize) -> u128 {
    let t = text[s..e].trim_start_matches('0');
    if t.len() > 30 {
        return u128::MAX;
    }
    t.parse::<u128>().unwrap_or(0)
}

/// `Some(first letter index)` if the digit run ending at `e` is followed by an optional fraction
/// and then an ASCII letter (i.e. the lexer will treat it as a dimension).
fn followed_by_unit(text: &str, e: usize) -> bool {
    let b = text.as_bytes();
    let mut i = e;
    while i < b.len() && (b[i].is_ascii_digit() || b[i] == b'.') {
        i += 1;
    }
    i < b.len() && b[i].is_ascii_alphabetic()
}

/// An integer part that does not fit in an i32.
pub fn has_integer_overflow(text: &str) -> bool {
    digit_runs(text).iter().any(|(s, e)| run_value(text, *s, *e) > i32::MAX as u128)
}

/// An integer part of at least 2^15 in front of a unit: `Scaled::ONE * n` overflows.
pub fn has_unit_multiplication_overflow(text: &str) -> bool {
    digit_runs(text)
        .iter()
        .any(|(s, e)| run_value(text, *s, *e) >= 32768 && followed_by_unit(text, *e))
}

/// A number in front of a unit that may exceed TeX's largest dimension (16383.99998pt) after
/// unit conversion (the largest factor is 72.27 for `in`; 14856/1157 for `cc`).
pub fn may_have_dimension_overflow(text: &str) -> bool {
    digit_runs(text)
        .iter()
        .any(|(s, e)| run_value(text, *s, *e) >= 226 && followed_by_unit(text, *e))
}

/// `\u{` followed by enough hex digits to overflow a u32.
pub fn has_unicode_escape_overflow(text: &str) -> bool {
    let mut rest = text;
    while let Some(p) = rest.find("\\u{") {
        let tail = &rest[p + 3..];
        let hex = tail.chars().take_while(|c| *c != '}').filter(|c| c.is_ascii_hexdigit()).count();
        if hex >= 9 {
            return true;
        }
        rest = tail;
    }
    false
}

/// `\u` followed by something other than `{`.
pub fn has_unicode_escape_without_brace(text: &str) -> bool {
    let mut rest = text;
    while let Some(p) = rest.find("\\u") {
        let tail = &rest[p + 2..];
        match tail.chars().next() {
            Some('{') => {}
            Some(_) => return true,
            None => {}
        }
        rest = tail;
    }
    false
}

fn ps<'a>(rng: &mut Rng, xs: &[&'a str]) -> &'a str {
    xs[rng.usize_below(xs.len())]
}

/// The two shapes of `\u` escape after which the lexer's byte offset, or its idea of where the
/// string literal ends, differs from the bracket pre-scan: `\u` not followed by `{` (the next
/// character is swallowed without being counted), and `\u{` with a `"` or `\` before the
/// closing brace (swallowed by the escape, seen as string end / escape by the pre-scan).
pub fn has_unicode_escape_trouble(text: &str) -> bool {
    if has_unicode_escape_without_brace(text) {
        return true;
    }
    let mut rest = text;
    while let Some(p) = rest.find("\\u{") {
        let tail = &rest[p + 3..];
        for c in tail.chars() {
            match c {
                '}' => break,
                '"' | '\\' => return true,
                _ => {}
            }
        }
        rest = tail;
    }
    false
}

/// A '.' followed somewhere by a character whose code point modulo 256 is below '0'
/// (`c as u8 - b'0'` underflows for it).
pub fn has_fraction_char_below_zero(text: &str) -> bool {
    match text.find('.') {
        None => false,
        Some(p) => text[p + 1..].chars().any(|c| (c as u32 & 0xff) < 0x30),
    }
}
