//! Harness-owned mirror of the part of `boxworks::ds` that the Box language can express, with
//! conversions to and from the real data structures, a deep comparison that does not rely on the
//! crate's `PartialEq`, and the list generator.
//!
//! "Expressible" (DESIGN §6 C18 G, read off `lang/convert.rs` and `lang/ast.rs`):
//!  * characters: any Unicode scalar except `"`; replace counts, float penalties < 2^31 (printed through `as i32`);
//!    fonts: all of u32 (read and printed through i32 <-> u32 wrap-around: `font=-1` is font 2^32-1);
//!  * glue kind `Normal`, kern kind `Normal`, no whatsits, marks without content (the language
//!    has no syntax for any of these);
//!  * dimensions |s| <= 2^30-1 (TeX's legal range), plus the running sentinel for rules;
//!  * penalties in the documented integer range (-2^31, 2^31);
//!  * vbox glue set / glue order: always the default (no syntax);
//!  * hbox glue ratio: what a reader of the printed form gets, i.e. |num/den| in units of 2^-16
//!    capped at 20000 (the sign is not printed; `GlueRatio: PartialEq` compares the same way).

use boxworks::ds;
use common::{GlueOrder, Scaled};
use vcore::Rng;

pub const MAX_DIMEN: i32 = (1 << 30) - 1;
pub const RUNNING: i32 = i32::MIN;

#[derive(Clone, Debug, PartialEq, Eq, Hash)]
pub struct Spec {
    pub width: i32,
    pub stretch: i32,
    pub stretch_order: u8,
    pub shrink: i32,
    pub shrink_order: u8,
}

#[derive(Clone, Debug, PartialEq, Eq, Hash)]
pub struct Lig {
    pub c: char,
    pub font: u32,
    pub orig: String,
    pub left: bool,
    pub right: bool,
}

#[derive(Clone, Debug, PartialEq, Eq, Hash)]
pub struct HB {
    /// height, width, depth, shift_amount
    pub dims: [i32; 4],
    pub ratio: (i32, i32),
    pub order: u8,
    pub list: Vec<H>,
}

#[derive(Clone, Debug, PartialEq, Eq, Hash)]
pub struct VB {
    pub dims: [i32; 4],
    pub list: Vec<V>,
}

#[derive(Clone, Debug, PartialEq, Eq, Hash)]
pub struct Ins {
    pub box_number: u8,
    pub height: i32,
    pub split_max_depth: i32,
    pub skip: Spec,
    pub float_penalty: u32,
    pub list: Vec<V>,
}

#[derive(Clone, Debug, PartialEq, Eq, Hash)]
pub enum H {
    Char { c: char, font: u32 },
    HBox(Box<HB>),
    VBox(Box<VB>),
    /// height, width, depth
    Rule([i32; 3]),
    Mark,
    Ins(Box<Ins>),
    Adjust(Vec<V>),
    Lig(Lig),
    Disc { pre: Vec<D>, post: Vec<D>, replace: u32 },
    /// true = after
    Math(bool),
    Glue(Spec),
    Kern(i32),
    Penalty(i32),
}

#[derive(Clone, Debug, PartialEq, Eq, Hash)]
pub enum V {
    HBox(Box<HB>),
    VBox(Box<VB>),
    Rule([i32; 3]),
    Mark,
    Ins(Box<Ins>),
    Math(bool),
    Glue(Spec),
    Kern(i32),
    Penalty(i32),
}

#[derive(Clone, Debug, PartialEq, Eq, Hash)]
pub enum D {
    Char { c: char, font: u32 },
    HBox(Box<HB>),
    VBox(Box<VB>),
    Rule([i32; 3]),
    Lig(Lig),
    Kern(i32),
}

// ------------------------------------------------------------------------------------------
// model -> ds

fn order(o: u8) -> GlueOrder {
    match o {
        0 => GlueOrder::Normal,
        1 => GlueOrder::Fil,
        2 => GlueOrder::Fill,
        _ => GlueOrder::Filll,
    }
}

fn order_back(o: GlueOrder) -> u8 {
    match o {
        GlueOrder::Normal => 0,
        GlueOrder::Fil => 1,
        GlueOrder::Fill => 2,
        GlueOrder::Filll => 3,
    }
}

fn spec_to_ds(s: &Spec) -> common::Glue {
    common::Glue {
        width: Scaled(s.width),
        stretch: Scaled(s.stretch),
        stretch_order: order(s.stretch_order),
        shrink: Scaled(s.shrink),
        shrink_order: order(s.shrink_order),
    }
}

fn spec_from_ds(g: &common::Glue) -> Spec {
    Spec {
        width: g.width.0,
        stretch: g.stretch.0,
        stretch_order: order_back(g.stretch_order),
        shrink: g.shrink.0,
        shrink_order: order_back(g.shrink_order),
    }
}

fn hb_to_ds(b: &HB) -> ds::HBox {
    ds::HBox {
        height: Scaled(b.dims[0]),
        width: Scaled(b.dims[1]),
        depth: Scaled(b.dims[2]),
        shift_amount: Scaled(b.dims[3]),
        list: hlist_to_ds(&b.list),
        glue_ratio: ds::GlueRatio {
            num: Scaled(b.ratio.0),
            den: Scaled(b.ratio.1),
        },
        glue_order: order(b.order),
    }
}

pub fn vb_to_ds(b: &VB) -> ds::VBox {
    ds::VBox {
        height: Scaled(b.dims[0]),
        width: Scaled(b.dims[1]),
        depth: Scaled(b.dims[2]),
        shift_amount: Scaled(b.dims[3]),
        list: vlist_to_ds(&b.list),
        glue_ratio: Default::default(),
        glue_order: GlueOrder::Normal,
    }
}

fn rule_to_ds(r: &[i32; 3]) -> ds::Rule {
    ds::Rule {
        height: Scaled(r[0]),
        width: Scaled(r[1]),
        depth: Scaled(r[2]),
    }
}

fn lig_to_ds(l: &Lig) -> ds::Ligature {
    ds::Ligature {
        char: l.c,
        font: l.font,
        original_chars: l.orig.as_str().into(),
        includes_left_boundary: l.left,
        includes_right_boundary: l.right,
    }
}

fn ins_to_ds(i: &Ins) -> ds::Insertion {
    ds::Insertion {
        box_number: i.box_number,
        height: Scaled(i.height),
        split_max_depth: Scaled(i.split_max_depth),
        split_top_skip: spec_to_ds(&i.skip),
        float_penalty: i.float_penalty,
        vbox: vlist_to_ds(&i.list),
    }
}

fn kern_to_ds(w: i32) -> ds::Kern {
    ds::Kern {
        width: Scaled(w),
        kind: ds::KernKind::Normal,
    }
}

fn glue_to_ds(s: &Spec) -> ds::Glue {
    ds::Glue {
        value: spec_to_ds(s),
        kind: ds::GlueKind::Normal,
    }
}

fn math_to_ds(after: bool) -> ds::Math {
    if after {
        ds::Math::After
    } else {
        ds::Math::Before
    }
}

pub fn h_to_ds(h: &H) -> ds::Horizontal {
    use ds::Horizontal as O;
    match h {
        H::Char { c, font } => O::Char(ds::Char { char: *c, font: *font }),
        H::HBox(b) => O::HBox(hb_to_ds(b)),
        H::VBox(b) => O::VBox(vb_to_ds(b)),
        H::Rule(r) => O::Rule(rule_to_ds(r)),
        H::Mark => O::Mark(ds::Mark { list: vec![] }),
        H::Ins(i) => O::Insertion(ins_to_ds(i)),
        H::Adjust(l) => O::Adjust(ds::Adjust { list: vlist_to_ds(l) }),
        H::Lig(l) => O::Ligature(lig_to_ds(l)),
        H::Disc { pre, post, replace } => O::Discretionary(ds::Discretionary {
            pre_break: dlist_to_ds(pre),
            post_break: dlist_to_ds(post),
            replace_count: *replace,
        }),
        H::Math(a) => O::Math(math_to_ds(*a)),
        H::Glue(s) => O::Glue(glue_to_ds(s)),
        H::Kern(w) => O::Kern(kern_to_ds(*w)),
        H::Penalty(p) => O::Penalty(ds::Penalty(*p)),
    }
}

pub fn v_to_ds(v: &V) -> ds::Vertical {
    use ds::Vertical as O;
    match v {
        V::HBox(b) => O::HBox(hb_to_ds(b)),
        V::VBox(b) => O::VBox(vb_to_ds(b)),
        V::Rule(r) => O::Rule(rule_to_ds(r)),
        V::Mark => O::Mark(ds::Mark { list: vec![] }),
        V::Ins(i) => O::Insertion(ins_to_ds(i)),
        V::Math(a) => O::Math(math_to_ds(*a)),
        V::Glue(s) => O::Glue(glue_to_ds(s)),
        V::Kern(w) => O::Kern(kern_to_ds(*w)),
        V::Penalty(p) => O::Penalty(ds::Penalty(*p)),
    }
}

pub fn d_to_ds(d: &D) -> ds::DiscretionaryElem {
    use ds::DiscretionaryElem as O;
    match d {
        D::Char { c, font } => O::Char(ds::Char { char: *c, font: *font }),
        D::HBox(b) => O::HBox(hb_to_ds(b)),
        D::VBox(b) => O::VBox(vb_to_ds(b)),
        D::Rule(r) => O::Rule(rule_to_ds(r)),
        D::Lig(l) => O::Ligature(lig_to_ds(l)),
        D::Kern(w) => O::Kern(kern_to_ds(*w)),
    }
}

pub fn hlist_to_ds(l: &[H]) -> Vec<ds::Horizontal> {
    l.iter().map(h_to_ds).collect()
}
pub fn vlist_to_ds(l: &[V]) -> Vec<ds::Vertical> {
    l.iter().map(v_to_ds).collect()
}
pub fn dlist_to_ds(l: &[D]) -> Vec<ds::DiscretionaryElem> {
    l.iter().map(d_to_ds).collect()
}

// ------------------------------------------------------------------------------------------
// ds -> model (for values that came out of the parser). `Err` names something the language has
// no syntax for - the parser must never produce it.

fn hb_from_ds(b: &ds::HBox) -> Result<HB, String> {
    Ok(HB {
        dims: [b.height.0, b.width.0, b.depth.0, b.shift_amount.0],
        ratio: (b.glue_ratio.num.0, b.glue_ratio.den.0),
        order: order_back(b.glue_order),
        list: hlist_from_ds(&b.list)?,
    })
}

fn vb_from_ds(b: &ds::VBox) -> Result<VB, String> {
    if b.glue_order != GlueOrder::Normal || ratio_units(b.glue_ratio.num.0, b.glue_ratio.den.0) != 0 {
        return Err("vbox with a glue set".into());
    }
    Ok(VB {
        dims: [b.height.0, b.width.0, b.depth.0, b.shift_amount.0],
        list: vlist_from_ds(&b.list)?,
    })
}

fn rule_from_ds(r: &ds::Rule) -> [i32; 3] {
    [r.height.0, r.width.0, r.depth.0]
}

fn lig_from_ds(l: &ds::Ligature) -> Lig {
    Lig {
        c: l.char,
        font: l.font,
        orig: l.original_chars.to_string(),
        left: l.includes_left_boundary,
        right: l.includes_right_boundary,
    }
}

fn ins_from_ds(i: &ds::Insertion) -> Result<Ins, String> {
    Ok(Ins {
        box_number: i.box_number,
        height: i.height.0,
        split_max_depth: i.split_max_depth.0,
        skip: spec_from_ds(&i.split_top_skip),
        float_penalty: i.float_penalty,
        list: vlist_from_ds(&i.vbox)?,
    })
}

fn kern_from_ds(k: &ds::Kern) -> Result<i32, String> {
    if k.kind != ds::KernKind::Normal {
        return Err(format!("kern of kind {:?}", k.kind));
    }
    Ok(k.width.0)
}

fn glue_from_ds(g: &ds::Glue) -> Result<Spec, String> {
    if g.kind != ds::GlueKind::Normal {
        return Err(format!("glue of kind {:?}", g.kind));
    }
    Ok(spec_from_ds(&g.value))
}

pub fn h_from_ds(h: &ds::Horizontal) -> Result<H, String> {
    use ds::Horizontal as I;
    Ok(match h {
        I::Char(c) => H::Char { c: c.char, font: c.font },
        I::HBox(b) => H::HBox(Box::new(hb_from_ds(b)?)),
        I::VBox(b) => H::VBox(Box::new(vb_from_ds(b)?)),
        I::Rule(r) => H::Rule(rule_from_ds(r)),
        I::Mark(m) => {
            if !m.list.is_empty() {
                return Err("mark with content".into());
            }
            H::Mark
        }
        I::Insertion(i) => H::Ins(Box::new(ins_from_ds(i)?)),
        I::Adjust(a) => H::Adjust(vlist_from_ds(&a.list)?),
        I::Ligature(l) => H::Lig(lig_from_ds(l)),
        I::Discretionary(d) => H::Disc {
            pre: dlist_from_ds(&d.pre_break)?,
            post: dlist_from_ds(&d.post_break)?,
            replace: d.replace_count,
        },
        I::Whatsit(_) => return Err("whatsit".into()),
        I::Math(m) => H::Math(matches!(m, ds::Math::After)),
        I::Glue(g) => H::Glue(glue_from_ds(g)?),
        I::Kern(k) => H::Kern(kern_from_ds(k)?),
        I::Penalty(p) => H::Penalty(p.0),
    })
}

pub fn v_from_ds(v: &ds::Vertical) -> Result<V, String> {
    use ds::Vertical as I;
    Ok(match v {
        I::HBox(b) => V::HBox(Box::new(hb_from_ds(b)?)),
        I::VBox(b) => V::VBox(Box::new(vb_from_ds(b)?)),
        I::Rule(r) => V::Rule(rule_from_ds(r)),
        I::Mark(m) => {
            if !m.list.is_empty() {
                return Err("mark with content".into());
            }
            V::Mark
        }
        I::Insertion(i) => V::Ins(Box::new(ins_from_ds(i)?)),
        I::Whatsit(_) => return Err("whatsit".into()),
        I::Math(m) => V::Math(matches!(m, ds::Math::After)),
        I::Glue(g) => V::Glue(glue_from_ds(g)?),
        I::Kern(k) => V::Kern(kern_from_ds(k)?),
        I::Penalty(p) => V::Penalty(p.0),
    })
}

pub fn d_from_ds(d: &ds::DiscretionaryElem) -> Result<D, String> {
    use ds::DiscretionaryElem as I;
    Ok(match d {
        I::Char(c) => D::Char { c: c.char, font: c.font },
        I::HBox(b) => D::HBox(Box::new(hb_from_ds(b)?)),
        I::VBox(b) => D::VBox(Box::new(vb_from_ds(b)?)),
        I::Rule(r) => D::Rule(rule_from_ds(r)),
        I::Ligature(l) => D::Lig(lig_from_ds(l)),
        I::Kern(k) => D::Kern(kern_from_ds(k)?),
    })
}

pub fn hlist_from_ds(l: &[ds::Horizontal]) -> Result<Vec<H>, String> {
    l.iter().map(h_from_ds).collect()
}
pub fn vlist_from_ds(l: &[ds::Vertical]) -> Result<Vec<V>, String> {
    l.iter().map(v_from_ds).collect()
}
pub fn dlist_from_ds(l: &[ds::DiscretionaryElem]) -> Result<Vec<D>, String> {
    l.iter().map(d_from_ds).collect()
}

// ------------------------------------------------------------------------------------------
// comparison

/// The glue ratio a reader of the printed form gets: |num/den| (single-precision, like TeX's
/// glue_ratio on most installations) in units of 2^-16, capped at 20000 (TeX §186 prints
/// `round(unity*g)` resp. 20000.0 beyond). 0/0 counts as 0.
pub fn ratio_units(num: i32, den: i32) -> i64 {
    let g = (num as f32) / (den as f32);
    let g = g.abs();
    let g = if g >= 20000.0 { 20000.0 } else { g };
    if g.is_nan() {
        return 0;
    }
    (65536.0f32 * g).round() as i64
}

/// Largest ratio (in units) whose printed form is still a legal dimension number, i.e. that the
/// language's glue-ratio parser accepts today (see the known finding C18-large-glue-ratio).
pub const RATIO_PARSE_LIMIT_UNITS: i64 = MAX_DIMEN as i64;

fn ratio_close(a: i64, b: i64) -> bool {
    // one unit in the last place of an f32 either way
    let tol = 1 + (a.max(b) >> 22);
    (a - b).abs() <= tol
}

fn hb_diff(a: &HB, b: &HB, path: &str) -> Option<String> {
    const N: [&str; 4] = ["height", "width", "depth", "shift_amount"];
    for i in 0..4 {
        if a.dims[i] != b.dims[i] {
            return Some(format!("{path}.{}: {} vs {}", N[i], a.dims[i], b.dims[i]));
        }
    }
    let (ra, rb) = (ratio_units(a.ratio.0, a.ratio.1), ratio_units(b.ratio.0, b.ratio.1));
    if !ratio_close(ra, rb) {
        return Some(format!(
            "{path}.glue_ratio: {}/{} (= {ra} units) vs {}/{} (= {rb} units)",
            a.ratio.0, a.ratio.1, b.ratio.0, b.ratio.1
        ));
    }
    if a.order != b.order {
        return Some(format!("{path}.glue_order: {} vs {}", a.order, b.order));
    }
    hlist_diff(&a.list, &b.list, &format!("{path}.content"))
}

fn vb_diff(a: &VB, b: &VB, path: &str) -> Option<String> {
    const N: [&str; 4] = ["height", "width", "depth", "shift_amount"];
    for i in 0..4 {
        if a.dims[i] != b.dims[i] {
            return Some(format!("{path}.{}: {} vs {}", N[i], a.dims[i], b.dims[i]));
        }
    }
    vlist_diff(&a.list, &b.list, &format!("{path}.content"))
}

fn ins_diff(a: &Ins, b: &Ins, path: &str) -> Option<String> {
    if (a.box_number, a.height, a.split_max_depth, &a.skip, a.float_penalty)
        != (b.box_number, b.height, b.split_max_depth, &b.skip, b.float_penalty)
    {
        return Some(format!(
            "{path}: insertion fields {:?} vs {:?}",
            (a.box_number, a.height, a.split_max_depth, &a.skip, a.float_penalty),
            (b.box_number, b.height, b.split_max_depth, &b.skip, b.float_penalty)
        ));
    }
    vlist_diff(&a.list, &b.list, &format!("{path}.vbox"))
}

fn leaf<T: std::fmt::Debug + PartialEq>(a: &T, b: &T, path: &str) -> Option<String> {
    if a == b {
        None
    } else {
        Some(format!("{path}: {a:?} vs {b:?}"))
    }
}

fn h_diff(a: &H, b: &H, path: &str) -> Option<String> {
    match (a, b) {
        (H::HBox(x), H::HBox(y)) => hb_diff(x, y, &format!("{path}:hbox")),
        (H::VBox(x), H::VBox(y)) => vb_diff(x, y, &format!("{path}:vbox")),
        (H::Ins(x), H::Ins(y)) => ins_diff(x, y, &format!("{path}:insertion")),
        (H::Adjust(x), H::Adjust(y)) => vlist_diff(x, y, &format!("{path}:adjust.content")),
        (
            H::Disc {
                pre: p1,
                post: q1,
                replace: r1,
            },
            H::Disc {
                pre: p2,
                post: q2,
                replace: r2,
            },
        ) => {
            if r1 != r2 {
                return Some(format!("{path}:disc.replace_count: {r1} vs {r2}"));
            }
            dlist_diff(p1, p2, &format!("{path}:disc.pre_break"))
                .or_else(|| dlist_diff(q1, q2, &format!("{path}:disc.post_break")))
        }
        (H::HBox(_), _) | (H::VBox(_), _) | (H::Ins(_), _) | (H::Adjust(_), _) | (H::Disc { .. }, _) => {
            Some(format!("{path}: different node kinds: {} vs {}", kind_h(a), kind_h(b)))
        }
        _ => leaf(a, b, path),
    }
}

fn v_diff(a: &V, b: &V, path: &str) -> Option<String> {
    match (a, b) {
        (V::HBox(x), V::HBox(y)) => hb_diff(x, y, &format!("{path}:hbox")),
        (V::VBox(x), V::VBox(y)) => vb_diff(x, y, &format!("{path}:vbox")),
        (V::Ins(x), V::Ins(y)) => ins_diff(x, y, &format!("{path}:insertion")),
        (V::HBox(_), _) | (V::VBox(_), _) | (V::Ins(_), _) => Some(format!("{path}: different node kinds")),
        _ => leaf(a, b, path),
    }
}

fn d_diff(a: &D, b: &D, path: &str) -> Option<String> {
    match (a, b) {
        (D::HBox(x), D::HBox(y)) => hb_diff(x, y, &format!("{path}:hbox")),
        (D::VBox(x), D::VBox(y)) => vb_diff(x, y, &format!("{path}:vbox")),
        (D::HBox(_), _) | (D::VBox(_), _) => Some(format!("{path}: different node kinds")),
        _ => leaf(a, b, path),
    }
}

pub fn kind_h(h: &H) -> &'static str {
    match h {
        H::Char { .. } => "char",
        H::HBox(_) => "hbox",
        H::VBox(_) => "vbox",
        H::Rule(_) => "rule",
        H::Mark => "mark",
        H::Ins(_) => "insertion",
        H::Adjust(_) => "adjust",
        H::Lig(_) => "lig",
        H::Disc { .. } => "disc",
        H::Math(_) => "math",
        H::Glue(_) => "glue",
        H::Kern(_) => "kern",
        H::Penalty(_) => "penalty",
    }
}

macro_rules! list_diff {
    ($name:ident, $t:ty, $f:ident) => {
        pub fn $name(a: &[$t], b: &[$t], path: &str) -> Option<String> {
            for (i, (x, y)) in a.iter().zip(b).enumerate() {
                if let Some(d) = $f(x, y, &format!("{path}[{i}]")) {
                    return Some(d);
                }
            }
            if a.len() != b.len() {
                return Some(format!("{path}: {} elements vs {}", a.len(), b.len()));
            }
            None
        }
    };
}
list_diff!(hlist_diff, H, h_diff);
list_diff!(vlist_diff, V, v_diff);
list_diff!(dlist_diff, D, d_diff);

// ------------------------------------------------------------------------------------------
// statistics over a list (what the monitor reports having seen)

#[derive(Default, Debug, Clone)]
pub struct Census {
    pub nodes: u64,
    pub max_depth: u32,
    pub kinds: std::collections::BTreeMap<&'static str, u64>,
    pub chars_needing_escape: u64,
    pub chars_non_ascii: u64,
    pub extreme_dimens: u64,
    pub running_dims: u64,
    pub infinite_orders: [u64; 4],
    pub big_ratio_boxes: u64,
    pub negative_ratio_boxes: u64,
    pub font_changes_between_adjacent_chars: u64,
}

impl Census {
    fn kind(&mut self, k: &'static str) {
        *self.kinds.entry(k).or_insert(0) += 1;
        self.nodes += 1;
    }
    fn ch(&mut self, c: char) {
        if c.escape_debug().count() > 1 {
            self.chars_needing_escape += 1;
        }
        if !c.is_ascii() {
            self.chars_non_ascii += 1;
        }
    }
    fn dim(&mut self, d: i32) {
        if d == RUNNING {
            self.running_dims += 1;
        } else if d.abs() >= MAX_DIMEN - 2 {
            self.extreme_dimens += 1;
        }
    }
    fn spec(&mut self, s: &Spec) {
        self.dim(s.width);
        self.dim(s.stretch);
        self.dim(s.shrink);
        self.infinite_orders[s.stretch_order as usize] += 1;
        self.infinite_orders[s.shrink_order as usize] += 1;
    }
    fn hb(&mut self, b: &HB, depth: u32) {
        for d in b.dims {
            self.dim(d);
        }
        let u = ratio_units(b.ratio.0, b.ratio.1);
        if u > RATIO_PARSE_LIMIT_UNITS {
            self.big_ratio_boxes += 1;
        }
        if (b.ratio.0 < 0) != (b.ratio.1 < 0) && u != 0 {
            self.negative_ratio_boxes += 1;
        }
        self.hlist(&b.list, depth + 1);
    }
    fn vb(&mut self, b: &VB, depth: u32) {
        for d in b.dims {
            self.dim(d);
        }
        self.vlist(&b.list, depth + 1);
    }
    fn ins(&mut self, i: &Ins, depth: u32) {
        self.dim(i.height);
        self.dim(i.split_max_depth);
        self.spec(&i.skip);
        self.vlist(&i.list, depth + 1);
    }
    fn lig(&mut self, l: &Lig) {
        self.ch(l.c);
        for c in l.orig.chars() {
            self.ch(c);
        }
    }
    pub fn hlist(&mut self, l: &[H], depth: u32) {
        self.max_depth = self.max_depth.max(depth);
        let mut prev_font: Option<u32> = None;
        for h in l {
            self.kind(kind_h(h));
            let mut this_font = None;
            match h {
                H::Char { c, font } => {
                    self.ch(*c);
                    this_font = Some(*font);
                    if let Some(p) = prev_font {
                        if p != *font {
                            self.font_changes_between_adjacent_chars += 1;
                        }
                    }
                }
                H::HBox(b) => self.hb(b, depth),
                H::VBox(b) => self.vb(b, depth),
                H::Rule(r) => r.iter().for_each(|d| self.dim(*d)),
                H::Ins(i) => self.ins(i, depth),
                H::Adjust(v) => self.vlist(v, depth + 1),
                H::Lig(l) => self.lig(l),
                H::Disc { pre, post, .. } => {
                    self.dlist(pre, depth + 1);
                    self.dlist(post, depth + 1);
                }
                H::Glue(s) => self.spec(s),
                H::Kern(w) => self.dim(*w),
                H::Mark | H::Math(_) | H::Penalty(_) => {}
            }
            prev_font = this_font;
        }
    }
    pub fn vlist(&mut self, l: &[V], depth: u32) {
        self.max_depth = self.max_depth.max(depth);
        for v in l {
            match v {
                V::HBox(b) => {
                    self.kind("hbox");
                    self.hb(b, depth)
                }
                V::VBox(b) => {
                    self.kind("vbox");
                    self.vb(b, depth)
                }
                V::Rule(r) => {
                    self.kind("rule");
                    r.iter().for_each(|d| self.dim(*d))
                }
                V::Mark => self.kind("mark"),
                V::Ins(i) => {
                    self.kind("insertion");
                    self.ins(i, depth)
                }
                V::Math(_) => self.kind("math"),
                V::Glue(s) => {
                    self.kind("glue");
                    self.spec(s)
                }
                V::Kern(w) => {
                    self.kind("kern");
                    self.dim(*w)
                }
                V::Penalty(_) => self.kind("penalty"),
            }
        }
    }
    pub fn dlist(&mut self, l: &[D], depth: u32) {
        self.max_depth = self.max_depth.max(depth);
        for d in l {
            match d {
                D::Char { c, .. } => {
                    self.kind("char");
                    self.ch(*c)
                }
                D::HBox(b) => {
                    self.kind("hbox");
                    self.hb(b, depth)
                }
                D::VBox(b) => {
                    self.kind("vbox");
                    self.vb(b, depth)
                }
                D::Rule(r) => {
                    self.kind("rule");
                    r.iter().for_each(|x| self.dim(*x))
                }
                D::Lig(l) => {
                    self.kind("lig");
                    self.lig(l)
                }
                D::Kern(w) => {
                    self.kind("kern");
                    self.dim(*w)
                }
            }
        }
    }
}

// ------------------------------------------------------------------------------------------
// generator

pub struct Gen<'a> {
    pub rng: &'a mut Rng,
    /// remaining node budget
    pub budget: i64,
    pub max_depth: u32,
    /// probability (per mille) that an hbox gets a glue ratio above the parse limit
    pub big_ratio_per_mille: u64,
    /// allow `"` in strings (outside the property's quantifier; informational probe only)
    pub allow_double_quote: bool,
}

const SPECIAL_CHARS: &[char] = &[
    '\\', '\'', '\n', '\r', '\t', '\0', '\u{7f}', '\u{1b}', '\u{1}', '#', '(', ')', '[', ']', ',', '=', ' ', '{', '}', '`',
    '\u{301}',   // combining acute (Grapheme_Extend: escape_debug prints \u{301})
    '\u{200d}',  // ZWJ
    '\u{fe0f}',  // variation selector
    '\u{85}',    // NEL
    '\u{a0}',    // NBSP
    '\u{ad}',    // soft hyphen
    '\u{2028}',  // line separator
    '\u{3000}',  // ideographic space
    '\u{feff}',  // BOM
    '\u{fffd}', '\u{ffff}', '\u{d7ff}', '\u{e000}', '\u{10000}', '\u{e0001}', '\u{10ffff}', '\u{1f600}', 'é', 'ß', '€', '中',
];

impl<'a> Gen<'a> {
    pub fn new(rng: &'a mut Rng) -> Self {
        let budget = match rng.below(8) {
            0 => 4,
            1 => 150,
            _ => rng.range_i64(8, 60),
        };
        Gen {
            rng,
            budget,
            max_depth: 5,
            big_ratio_per_mille: 10,
            allow_double_quote: false,
        }
    }

    pub fn ch(&mut self) -> char {
        loop {
            let c = match self.rng.below(10) {
                0..=3 => (b'a' + self.rng.below(26) as u8) as char,
                4 => (b' ' + self.rng.below(95) as u8) as char,
                5 | 6 => *self.rng.pick(SPECIAL_CHARS),
                7 => char::from_u32(self.rng.below(0x250) as u32).unwrap_or('x'),
                _ => {
                    // any scalar value
                    let x = self.rng.below(0x110000) as u32;
                    match char::from_u32(x) {
                        Some(c) => c,
                        None => continue, // surrogate
                    }
                }
            };
            if c == '"' && !self.allow_double_quote {
                continue;
            }
            return c;
        }
    }

    pub fn font(&mut self) -> u32 {
        match self.rng.below(10) {
            0..=4 => self.rng.below(3) as u32,
            // the language reads and prints font numbers through i32 <-> u32 wrap-around: the whole u32 range is expressible
            5 => *self.rng.pick(&[255u32, 256, 65535, 65536, (1 << 31) - 1, (1 << 31) - 2, 1 << 31, (1 << 31) + 1, u32::MAX, u32::MAX - 65535]),
            6 if self.rng.coin() => self.rng.next_u32(),
            6 => self.rng.below(1 << 31) as u32,
            _ => self.rng.below(40) as u32,
        }
    }

    /// A dimension inside TeX's legal range.
    pub fn dimen(&mut self) -> i32 {
        match self.rng.below(12) {
            0 => 0,
            1 => *self.rng.pick(&[1, -1, 2, -2, 3, 5, 6, 7, 9, 10]),
            2 => {
                let b = *self.rng.pick(&[65536i32, 32768, 655360, 6553600, 1 << 24, 1 << 29]);
                let d = self.rng.range_i32(-2, 2);
                let v = b + d;
                if self.rng.coin() {
                    v
                } else {
                    -v
                }
            }
            3 | 4 => {
                let v = MAX_DIMEN - self.rng.below(3) as i32;
                if self.rng.coin() {
                    v
                } else {
                    -v
                }
            }
            5 | 6 => self.rng.range_i32(-MAX_DIMEN, MAX_DIMEN),
            7 => self.rng.range_i32(-70000, 70000),
            // typical TeX values: a few points with 5 printed decimals
            _ => self.rng.range_i32(-30 * 65536, 800 * 65536),
        }
    }

    pub fn rule_dim(&mut self) -> i32 {
        if self.rng.chance(3, 10) {
            RUNNING
        } else {
            self.dimen()
        }
    }

    pub fn count31(&mut self) -> u32 {
        match self.rng.below(6) {
            0 => 0,
            1 => (1u32 << 31) - 1,
            2 => self.rng.below(1 << 31) as u32,
            _ => self.rng.below(5) as u32,
        }
    }

    pub fn penalty(&mut self) -> i32 {
        match self.rng.below(8) {
            0 => 0,
            1 => *self.rng.pick(&[10000, -10000, 10001, -10001, 50, 100, -50]),
            2 => *self.rng.pick(&[i32::MAX, -i32::MAX, i32::MAX - 1, -(i32::MAX - 1)]),
            3 => {
                // never i32::MIN: outside the documented integer range (-2^31, 2^31)
                let v = self.rng.next_u32() as i32;
                if v == i32::MIN {
                    0
                } else {
                    v
                }
            }
            _ => self.rng.range_i32(-20000, 20000),
        }
    }

    pub fn spec(&mut self) -> Spec {
        let fin = self.rng.chance(1, 2);
        Spec {
            width: self.dimen(),
            stretch: self.dimen(),
            stretch_order: if fin { 0 } else { self.rng.below(4) as u8 },
            shrink: self.dimen(),
            shrink_order: if self.rng.chance(2, 3) { 0 } else { self.rng.below(4) as u8 },
        }
    }

    pub fn ratio(&mut self) -> (i32, i32) {
        if self.rng.below(1000) < self.big_ratio_per_mille {
            // above 16383.99998: printed as "16384.0".."20000.0"
            return match self.rng.below(4) {
                0 => (65536 * 20000, 65536),
                1 => (MAX_DIMEN, 1),
                2 => (self.rng.range_i32(65536, MAX_DIMEN), self.rng.range_i32(1, 3)),
                _ => (16384 * 65536, 65536),
            };
        }
        let r = match self.rng.below(10) {
            0 | 1 => (0, 65536),
            2 => (self.rng.range_i32(0, 200000), 65536),
            3 => (self.rng.range_i32(-MAX_DIMEN, MAX_DIMEN), self.rng.range_i32(1 << 16, MAX_DIMEN)),
            4 => (self.rng.range_i32(-3000000, 3000000), self.rng.range_i32(-3000000, 3000000)),
            5 => (self.rng.range_i32(-100, 100), self.rng.range_i32(-100, 100)),
            6 => (0, 0),
            7 => (MAX_DIMEN, 65537 + self.rng.below(1000) as i32), // just below the limit
            _ => {
                // hpack-like: excess / total stretch
                (self.rng.range_i32(-40 * 65536, 40 * 65536), self.rng.range_i32(1, 200 * 65536))
            }
        };
        // stay clear of the parse limit unless asked for above
        let mut r = r;
        while ratio_units(r.0, r.1) > RATIO_PARSE_LIMIT_UNITS {
            r.0 /= 2;
        }
        r
    }

    fn lig(&mut self) -> Lig {
        let n = match self.rng.below(6) {
            0 => 0,
            1 => 1,
            5 => self.rng.range_usize(3, 6),
            _ => 2,
        };
        Lig {
            c: self.ch(),
            font: self.font(),
            orig: (0..n).map(|_| self.ch()).collect(),
            left: self.rng.chance(1, 5),
            right: self.rng.chance(1, 5),
        }
    }

    fn list_len(&mut self, depth: u32) -> usize {
        if self.budget <= 0 {
            return 0;
        }
        let max = match depth {
            0 => 14,
            1 => 8,
            2 => 5,
            _ => 3,
        };
        match self.rng.below(8) {
            0 => 0,
            1 => 1,
            _ => self.rng.range_usize(1, max),
        }
    }

    fn hb(&mut self, depth: u32) -> HB {
        HB {
            dims: [self.dimen(), self.dimen(), self.dimen(), self.dimen()],
            ratio: self.ratio(),
            order: self.rng.below(4) as u8,
            list: self.hlist(depth + 1),
        }
    }

    fn vb(&mut self, depth: u32) -> VB {
        VB {
            dims: [self.dimen(), self.dimen(), self.dimen(), self.dimen()],
            list: self.vlist(depth + 1),
        }
    }

    fn ins(&mut self, depth: u32) -> Ins {
        Ins {
            box_number: match self.rng.below(4) {
                0 => 0,
                1 => 255,
                _ => self.rng.below(256) as u8,
            },
            height: self.dimen(),
            split_max_depth: self.dimen(),
            skip: self.spec(),
            float_penalty: self.count31(),
            list: self.vlist(depth + 1),
        }
    }

    pub fn hlist(&mut self, depth: u32) -> Vec<H> {
        let n = self.list_len(depth);
        let mut out = vec![];
        let nest = depth < self.max_depth;
        while out.len() < n && self.budget > 0 {
            self.budget -= 1;
            //            char glue kern pen rule lig disc math mark hbox vbox ins adjust
            let w: [u32; 13] = if nest {
                [30, 14, 8, 6, 5, 6, 5, 3, 3, 7, 4, 3, 3]
            } else {
                [30, 14, 8, 6, 5, 6, 0, 3, 3, 0, 0, 0, 0]
            };
            match self.rng.weighted(&w) {
                0 => {
                    // a run of characters in one font: the printer merges them into one chars() call
                    let font = self.font();
                    let k = self.rng.range_usize(1, 6);
                    for _ in 0..k {
                        let c = self.ch();
                        out.push(H::Char { c, font });
                    }
                    if self.rng.chance(1, 3) {
                        // directly followed by a run in another (or the same) font
                        let font2 = if self.rng.chance(1, 4) { font } else { self.font() };
                        let c = self.ch();
                        out.push(H::Char { c, font: font2 });
                    }
                }
                1 => out.push(H::Glue(self.spec())),
                2 => out.push(H::Kern(self.dimen())),
                3 => out.push(H::Penalty(self.penalty())),
                4 => out.push(H::Rule([self.rule_dim(), self.rule_dim(), self.rule_dim()])),
                5 => out.push(H::Lig(self.lig())),
                6 => {
                    let pre = self.dlist(depth + 1);
                    let post = self.dlist(depth + 1);
                    out.push(H::Disc {
                        pre,
                        post,
                        replace: self.count31(),
                    });
                }
                7 => out.push(H::Math(self.rng.coin())),
                8 => out.push(H::Mark),
                9 => {
                    let b = self.hb(depth);
                    out.push(H::HBox(Box::new(b)))
                }
                10 => {
                    let b = self.vb(depth);
                    out.push(H::VBox(Box::new(b)))
                }
                11 => {
                    let i = self.ins(depth);
                    out.push(H::Ins(Box::new(i)))
                }
                _ => {
                    let l = self.vlist(depth + 1);
                    out.push(H::Adjust(l))
                }
            }
        }
        out
    }

    pub fn vlist(&mut self, depth: u32) -> Vec<V> {
        let n = self.list_len(depth);
        let mut out = vec![];
        let nest = depth < self.max_depth;
        while out.len() < n && self.budget > 0 {
            self.budget -= 1;
            //            glue kern pen rule math mark hbox vbox ins
            let w: [u32; 9] = if nest {
                [14, 8, 8, 6, 3, 3, 16, 5, 4]
            } else {
                [14, 8, 8, 6, 3, 3, 0, 0, 0]
            };
            match self.rng.weighted(&w) {
                0 => out.push(V::Glue(self.spec())),
                1 => out.push(V::Kern(self.dimen())),
                2 => out.push(V::Penalty(self.penalty())),
                3 => out.push(V::Rule([self.rule_dim(), self.rule_dim(), self.rule_dim()])),
                4 => out.push(V::Math(self.rng.coin())),
                5 => out.push(V::Mark),
                6 => {
                    let b = self.hb(depth);
                    out.push(V::HBox(Box::new(b)))
                }
                7 => {
                    let b = self.vb(depth);
                    out.push(V::VBox(Box::new(b)))
                }
                _ => {
                    let i = self.ins(depth);
                    out.push(V::Ins(Box::new(i)))
                }
            }
        }
        out
    }

    pub fn dlist(&mut self, depth: u32) -> Vec<D> {
        let n = match self.rng.below(4) {
            0 => 0,
            _ => self.rng.range_usize(1, 3),
        };
        let mut out = vec![];
        let nest = depth < self.max_depth;
        while out.len() < n && self.budget > 0 {
            self.budget -= 1;
            //            char kern lig rule hbox vbox
            let w: [u32; 6] = if nest { [30, 8, 6, 4, 4, 2] } else { [30, 8, 6, 4, 0, 0] };
            match self.rng.weighted(&w) {
                0 => {
                    let font = self.font();
                    for _ in 0..self.rng.range_usize(1, 3) {
                        let c = self.ch();
                        out.push(D::Char { c, font });
                    }
                }
                1 => out.push(D::Kern(self.dimen())),
                2 => out.push(D::Lig(self.lig())),
                3 => out.push(D::Rule([self.rule_dim(), self.rule_dim(), self.rule_dim()])),
                4 => {
                    let b = self.hb(depth);
                    out.push(D::HBox(Box::new(b)))
                }
                _ => {
                    let b = self.vb(depth);
                    out.push(D::VBox(Box::new(b)))
                }
            }
        }
        out
    }
}
