fn main() {
    vcore::run_main(&c18::MONITOR)
}
