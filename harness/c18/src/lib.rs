//! Monitor for property C18 (see /verif/DESIGN.md §6): the Box language round-trips every
//! expressible list; `format` is idempotent and parse-preserving; the parser is total.
//!
//! Oracles (all observe executions of the real `boxworks::lang` code):
//!  * round trip: a generated list (harness-owned model, `model.rs`) is converted to `boxworks::ds`,
//!    printed (per-element `Display`, list-level `to_box_lang`, `ds::VBox: Display`), parsed with
//!    `lang::parse_horizontal_list`, converted back and compared with the model by our own deep
//!    comparison;
//!  * formatter: for every source text `s` whose syntax tree builds without errors,
//!    `format(format(s)) == format(s)` and `parse(format(s))` equals `parse(s)` (same list, or the
//!    same kinds of errors);
//!  * totality: parse / format / error rendering never panic on any text, and every reported
//!    error is located (labels with spans inside the text, on character boundaries).

mod model;
mod textgen;

use boxworks::ds;
use boxworks::lang as bwl;
use boxworks::lang::convert::ToBoxLang;
use model::*;
use std::fmt::Write as _;
use std::sync::OnceLock;
use vcore::*;

pub struct M;
pub static MONITOR: M = M;

const KF_FORMAT_ERRORS: &str = "C18-format-ignores-syntax-errors";
const KF_BIG_RATIO: &str = "C18-glue-ratio-above-16384-unparseable";
const KF_DEEP_NESTING: &str = "C18-deep-nesting-overflows-stack";
const KF_ESCAPE_DESYNC: &str = "C18-lexer-unicode-escape-desync";

// ------------------------------------------------------------------------------------------
// observing the parser

#[derive(Clone, Debug)]
struct ErrInfo {
    kind: String,
    param: Option<String>,
}

enum Parsed {
    Ok(Vec<ds::Horizontal>),
    Errs(Vec<ErrInfo>),
    Panicked,
}

fn clip(s: &str) -> String {
    if s.len() <= 3000 {
        return s.to_string();
    }
    let mut a = 2000;
    while !s.is_char_boundary(a) {
        a -= 1;
    }
    let mut b = s.len() - 600;
    while !s.is_char_boundary(b) {
        b += 1;
    }
    format!("{}\n...[{} bytes omitted]...\n{}", &s[..a], b - a, &s[b..])
}

fn variant_name(e: &bwl::Error) -> String {
    // (not through Debug: every `Str` in an error prints the whole source text)
    use bwl::Error::*;
    match e {
        PositionalArgAfterKeywordArg { .. } => "PositionalArgAfterKeywordArg",
        IncorrectType { .. } => "IncorrectType",
        TooManyPositionalArgs { .. } => "TooManyPositionalArgs",
        NoSuchArgument { .. } => "NoSuchArgument",
        DuplicateArgument { .. } => "DuplicateArgument",
        NoSuchFunction { .. } => "NoSuchFunction",
        UnmatchedOpeningBracket { .. } => "UnmatchedOpeningBracket",
        UnmatchedClosingBracket { .. } => "UnmatchedClosingBracket",
        InvalidDimensionUnit { .. } => "InvalidDimensionUnit",
        UnexpectedToken { .. } => "UnexpectedToken",
        UnknownEscapeSequence { .. } => "UnknownEscapeSequence",
        MissingArgsForFunction { .. } => "MissingArgsForFunction",
        MismatchedBraces { .. } => "MismatchedBraces",
        IncompleteKeywordArg { .. } => "IncompleteKeywordArg",
        MultipleDecimalPoints { .. } => "MultipleDecimalPoints",
        NumberWithoutUnits { .. } => "NumberWithoutUnits",
        InvalidCharacter { .. } => "InvalidCharacter",
        #[allow(unreachable_patterns)]
        _ => "OtherError",
    }
    .to_string()
}

enum PanicClass {
    /// not at a listed site
    Unlisted,
    /// at a listed site keyed by its panic signature; `bool` = the text has the trigger
    ListedSite(bool),
    /// one of the slicing panics of the `\u` escape family (several sites, one root cause);
    /// `bool` = the text has the trigger
    EscapeDesync(bool),
}

/// Which known lexer crash (if any) a panic belongs to, and whether the text has what it takes.
fn classify_panic(p: &PanicInfo, text: &str) -> PanicClass {
    let in_lexer = p.repo_file.ends_with("boxworks/src/lang/lexer.rs") || p.file.ends_with("boxworks/src/lang/lexer.rs");
    let in_lang = p.repo_file.starts_with("crates/boxworks/src/lang/") || p.file.contains("crates/boxworks/src/lang/");
    let in_common = p.file.ends_with("common/src/lib.rs");
    let m = p.message.as_str();
    if in_lexer && m.starts_with("called `Option::unwrap()` on a `None` value") {
        return PanicClass::ListedSite(textgen::has_integer_overflow(text));
    }
    if in_lexer && m.starts_with("called `Result::unwrap()` on an `Err` value: OverflowError") {
        return PanicClass::ListedSite(textgen::may_have_dimension_overflow(text));
    }
    if in_common && m.starts_with("attempt to multiply with overflow") {
        return PanicClass::ListedSite(textgen::has_unit_multiplication_overflow(text));
    }
    if in_common && m.starts_with("attempt to subtract with overflow") {
        return PanicClass::ListedSite(textgen::has_fraction_char_below_zero(text));
    }
    if in_lexer && m.starts_with("attempt to multiply with overflow") {
        return PanicClass::ListedSite(textgen::has_unicode_escape_overflow(text));
    }
    // Slicing the source at an offset that is not where the lexer thinks it is.
    let slicing = m.contains("is not a char boundary")
        || m.starts_with("begin > end")
        || m.starts_with("begin <= end")
        || m.contains("out of bounds of")
        || m.contains("out of range for slice")
        || m.starts_with("slice index starts at");
    if in_lang && slicing {
        return PanicClass::EscapeDesync(textgen::has_unicode_escape_trouble(text));
    }
    PanicClass::Unlisted
}

fn report_panic(p: &PanicInfo, text: &str, what: &str, obs: &mut Obs, ctx: &Value) {
    let mut detail = json!({"what": what, "text": clip(text), "context": ctx});
    if let Value::Object(m) = &mut detail {
        m.insert("panic_site".into(), json!({"file": p.file, "line": p.line, "message": p.message.chars().take(200).collect::<String>(), "function": p.repo_function}));
    }
    if !p.in_repo() {
        obs.repo_panic(p, detail);
        return;
    }
    match classify_panic(p, text) {
        PanicClass::Unlisted => obs.repo_panic(p, detail),
        PanicClass::ListedSite(true) => {
            obs.count("panics_at_listed_lexer_crash_sites");
            obs.repo_panic(p, detail)
        }
        PanicClass::EscapeDesync(true) => {
            obs.count("panics_from_unicode_escape_desync");
            obs.known(KF_ESCAPE_DESYNC, detail)
        }
        // same place as a listed crash, but the text lacks what the listed crash needs: not the
        // listed defect. Keep it out of reach of the known-finding entries.
        PanicClass::ListedSite(false) | PanicClass::EscapeDesync(false) => {
            obs.violation(format!("untriggered:{}", p.signature()), detail)
        }
    }
}

/// Every error must be *located*: labels with spans inside the text on character boundaries;
/// rendering the message/notes must not panic either.
fn check_located(errs: &[bwl::Error], text: &str, obs: &mut Obs, ctx: &Value) {
    for e in errs {
        let r = catch(|| {
            let labels: Vec<(usize, usize)> = e.labels().iter().map(|l| (l.span.start, l.span.end)).collect();
            let _ = e.message();
            let _ = e.notes();
            labels
        });
        match r {
            Err(p) => {
                report_panic(&p, text, "rendering an error (labels/message/notes) panicked", obs, ctx);
                return;
            }
            Ok(labels) => {
                let bad = labels.is_empty()
                    || labels.iter().any(|(s, t)| {
                        s > t || *t > text.len() || !text.is_char_boundary(*s) || !text.is_char_boundary(*t)
                    });
                if bad && textgen::has_unicode_escape_trouble(text) {
                    // the lexer's offsets are off after a malformed \u escape (listed finding)
                    obs.known(
                        KF_ESCAPE_DESYNC,
                        json!({"text": clip(text), "error": e.message(), "labels": labels, "text_len": text.len(), "context": ctx}),
                    );
                    return;
                }
                if bad {
                    obs.violation(
                        format!("error-not-located:{}", variant_name(e)),
                        json!({"text": clip(text), "error": e.message(),
                               "labels": labels, "text_len": text.len(), "context": ctx}),
                    );
                    return;
                }
                obs.count("errors_with_valid_locations");
            }
        }
    }
}

fn parse_text(text: &str, obs: &mut Obs, ctx: &Value) -> Parsed {
    let r = catch(|| match bwl::parse_horizontal_list(text) {
        Ok(v) => Ok(v),
        Err(errs) => {
            let infos: Vec<ErrInfo> = errs
                .iter()
                .map(|e| ErrInfo {
                    kind: variant_name(e),
                    param: match e {
                        bwl::Error::IncorrectType { parameter_name, .. } => Some(parameter_name.to_string()),
                        _ => None,
                    },
                })
                .collect();
            Err((infos, errs))
        }
    });
    match r {
        Err(p) => {
            report_panic(&p, text, "lang::parse_horizontal_list panicked", obs, ctx);
            Parsed::Panicked
        }
        Ok(Ok(v)) => Parsed::Ok(v),
        Ok(Err((infos, errs))) => {
            check_located(&errs, text, obs, ctx);
            Parsed::Errs(infos)
        }
    }
}

/// Number of errors the lexer + syntax-tree layer reports for `text` (everything below the
/// typed layer), found by building the explicit tree through the public CST API.
fn cst_error_count(text: &str) -> Option<usize> {
    catch(|| {
        let errs: bwl::ErrorAccumulator = Default::default();
        let tree = bwl::cst::Tree::build(bwl::cst::parse(text, errs.clone()));
        drop(tree);
        errs.len()
    })
    .ok()
}

fn kinds(e: &[ErrInfo]) -> Vec<&str> {
    e.iter().map(|x| x.kind.as_str()).collect()
}

/// `format` oracle for one source text whose parse outcome is already known.
fn check_format(text: &str, parsed: &Parsed, obs: &mut Obs, ctx: &Value) {
    let f = match catch(|| bwl::format(text).map_err(|e| e.len())) {
        Err(p) => {
            report_panic(&p, text, "lang::format panicked", obs, ctx);
            return;
        }
        Ok(Err(_n)) => {
            obs.count("format_refused_with_errors");
            return;
        }
        Ok(Ok(f)) => f,
    };
    let Some(cst_errs) = cst_error_count(text) else {
        return; // the same panic was reported through format/parse already
    };
    if cst_errs > 0 {
        // The text is not well-formed; format is supposed to return the errors (it calls
        // errs.check()), but checks before the lazy parser has run. Attribute only with the
        // trigger (syntax errors exist) and the exact deviation (it returned Ok).
        if matches!(parsed, Parsed::Ok(_)) {
            obs.count("syntax_errors_reported_by_tree_but_not_by_parse");
        }
        obs.known(
            KF_FORMAT_ERRORS,
            json!({"text": clip(text), "syntax_errors": cst_errs, "format_returned": clip(&f), "context": ctx}),
        );
        return;
    }
    obs.count("format_checked_on_syntactically_clean_text");
    // idempotence
    match catch(|| bwl::format(&f).map_err(|e| e.len())) {
        Err(p) => {
            report_panic(&p, &f, "lang::format panicked on its own output", obs, ctx);
            return;
        }
        Ok(Err(n)) => {
            obs.violation(
                "format:own-output-rejected",
                json!({"text": clip(text), "formatted": clip(&f), "errors": n, "context": ctx}),
            );
            return;
        }
        Ok(Ok(f2)) => {
            if f2 != f {
                let at = f.bytes().zip(f2.bytes()).position(|(a, b)| a != b).unwrap_or(f.len().min(f2.len()));
                obs.violation(
                    "format:not-idempotent",
                    json!({"text": clip(text), "formatted_once": clip(&f), "formatted_twice": clip(&f2),
                           "first_difference_at_byte": at, "context": ctx}),
                );
                return;
            }
            obs.count("format_idempotent");
        }
    }
    // parse preservation
    let pf = parse_text(&f, obs, ctx);
    match (parsed, &pf) {
        (Parsed::Panicked, _) | (_, Parsed::Panicked) => {}
        (Parsed::Ok(a), Parsed::Ok(b)) => match (hlist_from_ds(a), hlist_from_ds(b)) {
            (Ok(ma), Ok(mb)) => match hlist_diff(&ma, &mb, "list") {
                None => obs.count("format_preserves_parsed_list"),
                Some(d) => obs.violation(
                    format!("format:changes-parsed-list at {}", diff_signature(&d)),
                    json!({"text": clip(text), "formatted": clip(&f), "difference": d, "context": ctx}),
                ),
            },
            (Err(e), _) | (_, Err(e)) => obs.violation(
                format!("parser-produced-inexpressible-node:{e}"),
                json!({"text": clip(text), "context": ctx}),
            ),
        },
        (Parsed::Errs(a), Parsed::Errs(b)) => {
            if kinds(a) == kinds(b) {
                obs.count("format_preserves_error_kinds");
            } else {
                obs.violation(
                    "format:changes-reported-errors",
                    json!({"text": clip(text), "formatted": clip(&f), "errors_before": kinds(a), "errors_after": kinds(b), "context": ctx}),
                );
            }
        }
        (Parsed::Ok(_), Parsed::Errs(b)) => obs.violation(
            "format:valid-text-becomes-invalid",
            json!({"text": clip(text), "formatted": clip(&f), "errors_after": kinds(b), "context": ctx}),
        ),
        (Parsed::Errs(a), Parsed::Ok(_)) => obs.violation(
            "format:invalid-text-becomes-valid",
            json!({"text": clip(text), "formatted": clip(&f), "errors_before": kinds(a), "context": ctx}),
        ),
    }
}

/// Stable part of a difference description: the field (or list) where the two values part, and
/// the kind of node found there - no indices, no values.
fn diff_signature(d: &str) -> String {
    let (path, rest) = d.split_once(": ").unwrap_or((d, ""));
    let mut clean = String::new();
    let mut skip = false;
    for c in path.chars() {
        match c {
            '[' => skip = true,
            ']' => skip = false,
            _ if !skip => clean.push(c),
            _ => {}
        }
    }
    let last = clean.rsplit(['.', ':']).next().unwrap_or("");
    let what = if rest.contains(" elements vs ") {
        "length"
    } else {
        rest.split(|c: char| !c.is_alphabetic())
            .find(|w| !w.is_empty() && *w != "vs")
            .unwrap_or("")
    };
    format!("{last} {what}").trim().to_string()
}

// ------------------------------------------------------------------------------------------
// printing

/// The way boxworks-testing prints a list: one `Display` per element (characters not merged).
fn print_per_element(list: &[ds::Horizontal]) -> String {
    let mut s = String::new();
    for e in list {
        let _ = write!(&mut s, "{e}");
    }
    s
}

/// The way the `box` CLI prints a list: list-level conversion (runs of characters in one font
/// become one `chars` call), then `Display` of each Box-language element.
fn print_list_level(list: &[ds::Horizontal]) -> String {
    let mut s = String::new();
    for e in list.to_vec().to_box_lang() {
        let _ = write!(&mut s, "{e}");
    }
    s
}

#[derive(Clone, Copy, PartialEq)]
enum Printer {
    PerElement,
    ListLevel,
}

/// The deviation the known finding C18-glue-ratio-above-16384-unparseable predicts for a list
/// containing `n` hboxes with such a ratio: the text is rejected with exactly `n` errors, all of
/// them "wrong type for parameter glue_ratio".
fn matches_big_ratio_deviation(errs: &[ErrInfo], n: u64) -> bool {
    n > 0
        && errs.len() as u64 == n
        && errs
            .iter()
            .all(|e| e.kind == "IncorrectType" && e.param.as_deref() == Some("glue_ratio"))
}

/// print -> parse -> compare for a horizontal list. Returns the printed text when it round-tripped.
fn check_round_trip(model: &[H], printer: Printer, obs: &mut Obs, ctx: &Value) -> Option<String> {
    let list = hlist_to_ds(model);
    let text = match catch(|| match printer {
        Printer::PerElement => print_per_element(&list),
        Printer::ListLevel => print_list_level(&list),
    }) {
        Ok(t) => t,
        Err(p) => {
            obs.repo_panic(&p, json!({"what": "printing a list panicked", "model": format!("{model:?}").chars().take(3000).collect::<String>(), "context": ctx}));
            return None;
        }
    };
    obs.add("rt_bytes_printed", text.len() as u64);
    let mut census = Census::default();
    census.hlist(model, 0);
    match parse_text(&text, obs, ctx) {
        Parsed::Panicked => None,
        Parsed::Errs(errs) => {
            if matches_big_ratio_deviation(&errs, census.big_ratio_boxes) {
                obs.known(
                    KF_BIG_RATIO,
                    json!({"text": clip(&text), "boxes_with_ratio_above_limit": census.big_ratio_boxes, "errors": kinds(&errs), "context": ctx}),
                );
            } else {
                obs.violation(
                    format!("roundtrip:printed-list-rejected {}", errs.first().map(|e| e.kind.as_str()).unwrap_or("")),
                    json!({"text": clip(&text), "errors": errs.iter().map(|e| json!([e.kind, e.param])).collect::<Vec<_>>(),
                           "boxes_with_ratio_above_limit": census.big_ratio_boxes, "context": ctx}),
                );
            }
            None
        }
        Parsed::Ok(got) => {
            if census.big_ratio_boxes > 0 {
                // the listed defect is gone (or changed): fall through to the normal comparison
                obs.count("big_ratio_lists_accepted");
            }
            match hlist_from_ds(&got) {
                Err(e) => {
                    obs.violation(
                        format!("parser-produced-inexpressible-node:{e}"),
                        json!({"text": clip(&text), "context": ctx}),
                    );
                    None
                }
                Ok(back) => match hlist_diff(model, &back, "list") {
                    None => {
                        obs.count("rt_lists_round_tripped");
                        obs.add("rt_nodes_round_tripped", census.nodes);
                        Some(text)
                    }
                    Some(d) => {
                        obs.violation(
                            format!("roundtrip:parsed-list-differs at {}", diff_signature(&d)),
                            json!({"difference (generated vs parsed back)": d, "text": clip(&text),
                                   "printer": if printer == Printer::PerElement { "per-element Display" } else { "list-level to_box_lang" },
                                   "context": ctx}),
                        );
                        None
                    }
                },
            }
        }
    }
}

fn record_census(c: &Census, obs: &mut Obs) {
    for (k, n) in &c.kinds {
        obs.add(&format!("gen_nodes:{k}"), *n);
    }
    obs.add("gen_chars_needing_escape", c.chars_needing_escape);
    obs.add("gen_chars_non_ascii", c.chars_non_ascii);
    obs.add("gen_extreme_dimens_within_2sp_of_limit", c.extreme_dimens);
    obs.add("gen_running_rule_dimens", c.running_dims);
    obs.add("gen_glue_order_fil", c.infinite_orders[1]);
    obs.add("gen_glue_order_fill", c.infinite_orders[2]);
    obs.add("gen_glue_order_filll", c.infinite_orders[3]);
    obs.add("gen_hboxes_ratio_above_parse_limit", c.big_ratio_boxes);
    obs.add("gen_hboxes_negative_ratio_sign_not_printed", c.negative_ratio_boxes);
    obs.add("gen_adjacent_chars_with_font_change", c.font_changes_between_adjacent_chars);
    if c.max_depth >= 3 {
        obs.count("gen_lists_nesting_depth_ge_3");
    }
}

// ------------------------------------------------------------------------------------------
// golden files (seed pool and calibration ground truth)

struct Golden {
    name: String,
    text: String,
}

fn golden_dirs() -> Vec<std::path::PathBuf> {
    vec![
        repo_dir().join("crates/boxworks-knuthplass/testdata"),
        repo_dir().join("crates/boxworks-bin/tests"),
    ]
}

fn goldens() -> &'static Vec<Golden> {
    static G: OnceLock<Vec<Golden>> = OnceLock::new();
    G.get_or_init(|| {
        let mut out = vec![];
        for dir in golden_dirs() {
            let mut files: Vec<std::path::PathBuf> = std::fs::read_dir(&dir)
                .map(|rd| rd.filter_map(|e| e.ok().map(|e| e.path())).collect())
                .unwrap_or_default();
            files.sort();
            for f in files {
                if f.extension().map(|x| x == "txt").unwrap_or(false) {
                    if let Ok(text) = std::fs::read_to_string(&f) {
                        out.push(Golden {
                            name: f.file_name().map(|n| n.to_string_lossy().to_string()).unwrap_or_default(),
                            text,
                        });
                    }
                }
            }
        }
        out
    })
}

/// Top-level elements of the golden files that are written in the Box language, as model values
/// (at most 60 per file, to keep the pool balanced).
fn golden_fragments() -> &'static Vec<H> {
    static F: OnceLock<Vec<H>> = OnceLock::new();
    F.get_or_init(|| {
        let mut out = vec![];
        for g in goldens() {
            if !g.text.trim_start().starts_with('#') && !g.text.contains("hbox(") {
                continue;
            }
            if let Ok(Ok(list)) = catch(|| bwl::parse_horizontal_list(&g.text).map_err(|e| e.len())) {
                if let Ok(m) = hlist_from_ds(&list) {
                    let step = (m.len() / 60).max(1);
                    out.extend(m.into_iter().step_by(step).take(60));
                }
            }
        }
        out
    })
}

fn shrink_fragment(rng: &mut Rng, h: &H) -> H {
    // golden boxes hold ~100 nodes; keep a random window so that mutated texts stay small
    match h {
        H::HBox(b) if b.list.len() > 12 => {
            let mut b2 = (**b).clone();
            let start = rng.usize_below(b.list.len() - 8);
            let len = rng.range_usize(1, 10);
            b2.list = b.list[start..(start + len).min(b.list.len())].to_vec();
            H::HBox(Box::new(b2))
        }
        H::VBox(b) if !b.list.is_empty() => {
            let mut b2 = (**b).clone();
            let i = rng.usize_below(b.list.len());
            b2.list = vec![match &b.list[i] {
                V::HBox(hb) if hb.list.len() > 12 => {
                    let mut hb2 = (**hb).clone();
                    let start = rng.usize_below(hb.list.len() - 8);
                    hb2.list = hb.list[start..start + 8].to_vec();
                    V::HBox(Box::new(hb2))
                }
                other => other.clone(),
            }];
            H::VBox(Box::new(b2))
        }
        other => other.clone(),
    }
}

/// A valid program text: printed generated list, or printed golden fragments.
fn seed_text(rng: &mut Rng) -> (String, Vec<H>) {
    let frags = golden_fragments();
    let model: Vec<H> = if !frags.is_empty() && rng.chance(1, 3) {
        (0..rng.range_usize(1, 2))
            .map(|_| {
                let f = &frags[rng.usize_below(frags.len())];
                shrink_fragment(rng, f)
            })
            .collect()
    } else {
        let mut g = Gen::new(rng);
        g.big_ratio_per_mille = 0;
        g.budget = g.budget.min(25);
        g.hlist(0)
    };
    let list = hlist_to_ds(&model);
    let text = catch(|| print_list_level(&list)).unwrap_or_default();
    (text, model)
}

// ------------------------------------------------------------------------------------------
// cases

impl M {
    fn case_roundtrip(&self, rng: &mut Rng, obs: &mut Obs) {
        let vertical = rng.chance(1, 4);
        let ctx = json!({"phase": "roundtrip", "vertical": vertical});
        if vertical {
            let mut g = Gen::new(rng);
            let vb = VB {
                dims: [g.dimen(), g.dimen(), g.dimen(), g.dimen()],
                list: g.vlist(1),
            };
            let mut census = Census::default();
            census.vlist(&vb.list, 1);
            record_census(&census, obs);
            obs.count("rt_vertical_lists");
            // E: Display of ds::VBox
            let dsv = vb_to_ds(&vb);
            let text = match catch(|| format!("{dsv}")) {
                Ok(t) => t,
                Err(p) => {
                    obs.repo_panic(&p, json!({"what": "Display of ds::VBox panicked", "context": ctx}));
                    return;
                }
            };
            let model = vec![H::VBox(Box::new(vb))];
            obs.nontrivial(&model);
            // the VBox Display must say the same as printing the element
            match parse_text(&text, obs, &ctx) {
                Parsed::Ok(got) => match hlist_from_ds(&got) {
                    Ok(back) => match hlist_diff(&model, &back, "list") {
                        None => {
                            obs.count("rt_lists_round_tripped");
                            obs.add("rt_nodes_round_tripped", census.nodes + 1);
                        }
                        Some(d) => obs.violation(
                            format!("roundtrip:parsed-list-differs at {}", diff_signature(&d)),
                            json!({"difference (generated vs parsed back)": d, "text": clip(&text), "printer": "ds::VBox Display", "context": ctx}),
                        ),
                    },
                    Err(e) => obs.violation(format!("parser-produced-inexpressible-node:{e}"), json!({"text": clip(&text)})),
                },
                Parsed::Errs(errs) => {
                    if matches_big_ratio_deviation(&errs, census.big_ratio_boxes) {
                        obs.known(KF_BIG_RATIO, json!({"text": clip(&text), "errors": kinds(&errs), "context": ctx}));
                    } else {
                        obs.violation(
                            format!("roundtrip:printed-list-rejected {}", errs.first().map(|e| e.kind.as_str()).unwrap_or("")),
                            json!({"text": clip(&text), "errors": kinds(&errs), "printer": "ds::VBox Display", "context": ctx}),
                        );
                    }
                }
                Parsed::Panicked => {}
            }
            check_round_trip(&model, Printer::PerElement, obs, &ctx);
            if obs.wants_sample() {
                obs.sample(json!({"kind": "vbox", "text": clip(&text), "nodes": census.nodes}));
            }
            return;
        }
        let mut g = Gen::new(rng);
        let model = g.hlist(0);
        let mut census = Census::default();
        census.hlist(&model, 0);
        record_census(&census, obs);
        obs.count("rt_horizontal_lists");
        if !model.is_empty() {
            obs.nontrivial(&model);
        }
        let t1 = check_round_trip(&model, Printer::ListLevel, obs, &ctx);
        let t2 = check_round_trip(&model, Printer::PerElement, obs, &ctx);
        // the printer's own output is source text too: the formatter properties apply to it
        if let Some(t) = &t1 {
            if rng.chance(1, 2) {
                let parsed = Parsed::Ok(hlist_to_ds(&model));
                check_format(t, &parsed, obs, &ctx);
                if let Ok(Ok(f)) = catch(|| bwl::format(t).map_err(|e| e.len())) {
                    if &f == t {
                        obs.count("format_of_printer_output_is_identity");
                    } else {
                        obs.count("format_of_printer_output_differs_from_it");
                    }
                }
            }
        }
        if obs.wants_sample() {
            obs.sample(json!({"kind": "hlist", "nodes": census.nodes, "depth": census.max_depth,
                              "list_level_text": t1.as_deref().map(clip), "per_element_round_tripped": t2.is_some()}));
        }
    }

    fn case_relayout(&self, rng: &mut Rng, obs: &mut Obs) {
        let ctx = json!({"phase": "relayout"});
        let (text, model) = seed_text(rng);
        let with_comments = rng.chance(2, 3);
        let s = textgen::relayout(rng, &text, with_comments);
        obs.nontrivial(&s);
        let parsed = parse_text(&s, obs, &ctx);
        match &parsed {
            Parsed::Ok(v) => {
                obs.count("relayout_texts_valid");
                // informational: layout and comments are not supposed to matter to the parser
                match hlist_from_ds(v) {
                    Ok(back) if hlist_diff(&model, &back, "list").is_none() => obs.count("relayout_parse_equals_original_list"),
                    _ => obs.count("relayout_parse_differs_from_original_list"),
                }
            }
            Parsed::Errs(_) => obs.count("relayout_texts_rejected"),
            Parsed::Panicked => {}
        }
        check_format(&s, &parsed, obs, &ctx);
        if obs.wants_sample() {
            obs.sample(json!({"relaid_out": clip(&s), "formatted": catch(|| bwl::format(&s).ok()).ok().flatten().as_deref().map(clip)}));
        }
    }

    fn case_text(&self, phase: &str, rng: &mut Rng, obs: &mut Obs) {
        let ctx = json!({"phase": phase});
        let text = match phase {
            "mutated" => {
                let (a, _) = seed_text(rng);
                let (b, _) = seed_text(rng);
                let wild = rng.chance(1, 25);
                let base = if rng.chance(1, 4) {
                    let c = rng.chance(1, 2);
                    textgen::relayout(rng, &a, c)
                } else {
                    a
                };
                textgen::mutate(rng, &base, &b, wild)
            }
            _ => {
                let wild = rng.chance(1, 25);
                match rng.below(3) {
                    0 => textgen::soup(rng),
                    _ => textgen::program(rng, wild),
                }
            }
        };
        check_text(&text, &ctx, obs);
    }

    fn case_golden(&self, idx: u64, obs: &mut Obs) {
        let g = &goldens()[idx as usize];
        let ctx = json!({"phase": "golden", "file": g.name});
        let parsed = parse_text(&g.text, obs, &ctx);
        match &parsed {
            Parsed::Ok(list) => {
                obs.count("golden_files_in_box_language");
                match hlist_from_ds(list) {
                    Ok(model) => {
                        let mut census = Census::default();
                        census.hlist(&model, 0);
                        obs.add("golden_nodes", census.nodes);
                        // print what was parsed and parse it again: must be the same list
                        if check_round_trip(&model, Printer::ListLevel, obs, &ctx).is_some()
                            && check_round_trip(&model, Printer::PerElement, obs, &ctx).is_some()
                        {
                            obs.count("golden_files_round_tripped");
                        }
                    }
                    Err(e) => obs.violation(format!("parser-produced-inexpressible-node:{e}"), json!({"file": g.name})),
                }
            }
            Parsed::Errs(_) => obs.count("golden_dir_files_not_box_language"),
            Parsed::Panicked => {}
        }
        check_format(&g.text, &parsed, obs, &ctx);
        obs.nontrivial_by_construction(1);
    }

    fn case_known(&self, idx: u64, obs: &mut Obs) {
        obs.nontrivial_by_construction(1);
        let ctx = json!({"phase": "known", "reproducer": idx});
        // texts that crash the lexer today (each is a listed finding keyed by its panic site)
        const CRASHERS: &[&str] = &[
            "penalty(99999999999)",
            "penalty(-2147483648)",
            "kern(16384pt)",
            "kern(40000sp)",
            "chars(\"\\u{fffffffff}\")",
            "chars(\"\\u\u{e9}x\")",
            "hbox(glue_ratio=\"1.-\")",
        ];
        if (idx as usize) < CRASHERS.len() {
            let text = CRASHERS[idx as usize];
            let parsed = parse_text(text, obs, &ctx);
            obs.count(match parsed {
                Parsed::Panicked => "known_crasher_still_crashes",
                _ => "known_crasher_handled",
            });
            check_format(text, &parsed, obs, &ctx);
            return;
        }
        match idx as usize - CRASHERS.len() {
            0 => {
                // format() returns Ok for text with syntax errors, and the result parses to something else
                let text = "kern(.5pt)";
                let parsed = parse_text(text, obs, &ctx);
                check_format(text, &parsed, obs, &ctx);
            }
            1 => {
                // hpack-like: excess 1pt over 1sp of stretch
                let model = vec![H::HBox(Box::new(HB {
                    dims: [0, 65536, 0, 0],
                    ratio: (65536, 1),
                    order: 0,
                    list: vec![],
                }))];
                check_round_trip(&model, Printer::PerElement, obs, &ctx);
            }
            2 => {
                // 20000 nested hboxes (280 kB of text) on a default 8 MiB stack, in a child process
                deep_nesting_probe(obs);
            }
            3 => {
                // informational: the double quote is outside the property's quantifier ("which the
                // string syntax cannot express") but the lexer and printer do handle `\"`
                let model = vec![
                    H::Char { c: '"', font: 0 },
                    H::Lig(Lig {
                        c: '"',
                        font: 1,
                        orig: "a\"b".into(),
                        left: false,
                        right: true,
                    }),
                ];
                let list = hlist_to_ds(&model);
                let ok = catch(|| {
                    let t = print_list_level(&list);
                    bwl::parse_horizontal_list(&t).ok().and_then(|v| hlist_from_ds(&v).ok())
                })
                .ok()
                .flatten()
                .map(|b| hlist_diff(&model, &b, "list").is_none())
                .unwrap_or(false);
                obs.count(if ok {
                    "info_double_quote_round_trips"
                } else {
                    "info_double_quote_does_not_round_trip"
                });
            }
            4 => {
                // a font number the parser itself produces (font=-65536 is read as 2^32-65536, the way ligatures and
                // single characters print theirs): printing the parsed list at list level must not panic and must
                // round-trip (found by the coverage-guided stage, C18-list-printer-panics-on-font-above-i32-max)
                let model = vec![
                    H::Char { c: 'a', font: 4294901760 },
                    H::Char { c: 'b', font: u32::MAX },
                    H::Char { c: 'c', font: 1 << 31 },
                ];
                check_round_trip(&model, Printer::ListLevel, obs, &ctx);
                check_round_trip(&model, Printer::PerElement, obs, &ctx);
                let text = "chars(\"x\", font=-65536)";
                if let Parsed::Ok(list) = check_text(text, &ctx, obs) {
                    if let Ok(m) = hlist_from_ds(&list) {
                        check_round_trip(&m, Printer::ListLevel, obs, &ctx);
                    }
                }
            }
            _ => {}
        }
    }

    fn case_deepnest_child(&self) {
        // runs in a child process started by deep_nesting_probe
        let mut s = String::new();
        for _ in 0..20_000 {
            s.push_str("hbox(content=[");
        }
        for _ in 0..20_000 {
            s.push_str("])");
        }
        let h = std::thread::Builder::new()
            .stack_size(8 << 20)
            .spawn(move || {
                let r = bwl::parse_horizontal_list(&s);
                r.map(|v| v.len()).map_err(|e| e.len())
            })
            .expect("spawn");
        let r = h.join();
        println!("DEEPNEST-SURVIVED {r:?}");
    }
}

const KNOWN_CASES: u64 = 12;

fn deep_nesting_probe(obs: &mut Obs) {
    let exe = match std::env::current_exe() {
        Ok(e) => e,
        Err(e) => {
            obs.inconclusive(format!("deep nesting probe: current_exe failed: {e}"));
            return;
        }
    };
    let out = std::process::Command::new(exe)
        .args(["--case", "deepnest-child", "0"])
        .stdin(std::process::Stdio::null())
        .output();
    match out {
        Err(e) => obs.inconclusive(format!("deep nesting probe: cannot start child: {e}")),
        Ok(o) => {
            use std::os::unix::process::ExitStatusExt;
            let stdout = String::from_utf8_lossy(&o.stdout);
            let stderr = String::from_utf8_lossy(&o.stderr);
            if stdout.contains("DEEPNEST-SURVIVED") {
                obs.count("deep_nesting_survived");
            } else if o.status.signal().is_some() && stderr.contains("overflowed its stack") {
                obs.known(
                    KF_DEEP_NESTING,
                    json!({"text": "\"hbox(content=[\" x 20000 + \"])\" x 20000", "stack": "8 MiB", "child_status": format!("{:?}", o.status),
                           "stderr": stderr.chars().take(300).collect::<String>()}),
                );
            } else {
                obs.inconclusive(format!(
                    "deep nesting probe: child ended with {:?} without verdict; stderr: {}",
                    o.status,
                    stderr.chars().take(200).collect::<String>()
                ));
            }
        }
    }
}

impl Monitor for M {
    fn id(&self) -> &'static str {
        "C18"
    }

    fn rule(&self) -> String {
        "roundtrip: generated horizontal lists (3/4) and vboxes (1/4) of up to ~150 nodes, nesting depth <= 6, all 13 \
         horizontal / 9 vertical / 6 discretionary node kinds; characters: any Unicode scalar except the double quote \
         (40% from a pool of escapes, controls, combining marks, separators, U+10FFFF...), runs in one font and font changes; \
         dimensions biased to 0, ±1, ±(2^30-1), powers of two; all glue orders; running rule dimensions; fonts/counts up to \
         2^31-1; penalties in (-2^31, 2^31); glue ratios num/den incl. negative, 0/0 and (1%) above the parse limit. Each list \
         is printed two ways (list-level, per element); non-trivial = non-empty, distinct by model value. relayout: printed \
         valid programs with all inter-token whitespace replaced by random whitespace/comments/optional commas. mutated: 1-3 \
         character-level mutations (delete, insert from a token alphabet, cut, duplicate, truncate, number replacement, \
         splice, swap) of printed generated lists and printed fragments of the repository's golden files. soup: random \
         programs from the function/keyword/unit vocabulary and unstructured token soup. Texts distinct by content. golden: \
         every .txt under boxworks-knuthplass/testdata and boxworks-bin/tests."
            .into()
    }

    fn assumptions(&self) -> Vec<String> {
        vec![
            "Expressible domain as in DESIGN §6 C18 G: glue/kern kind Normal, no whatsits, empty marks, vbox without glue set, |dimension| <= 2^30-1 or the running sentinel, penalties != -2^31, fonts/replace counts/float penalties < 2^31.".into(),
            "Glue ratios are compared by the value a reader of the printed form gets (|num/den| in units of 2^-16 capped at 20000, one f32 ulp tolerance): the sign of a ratio is not printed and GlueRatio's own PartialEq ignores it too; counted in gen_hboxes_negative_ratio_sign_not_printed.".into(),
            "format's idempotence and parse preservation are required for texts whose syntax tree builds without errors; for texts with syntax errors format is expected to return the errors (see the known finding).".into(),
            "When both parse(s) and parse(format(s)) fail, the sequences of error kinds must be equal (spans legitimately move).".into(),
            "Nesting depth in generated texts stays far below what an 8 MiB stack allows; the recursion-depth crash is probed separately in a child process.".into(),
            "The double quote is excluded from generated strings (quantifier); one informational probe reports whether it round-trips.".into(),
        ]
    }

    fn phases(&self, tier: Tier) -> Vec<Phase> {
        vec![
            Phase::new("known", KNOWN_CASES).batch(1).exhaustive("the fixed reproducers of the listed findings"),
            Phase::new("golden", goldens().len() as u64)
                .batch(1)
                .exhaustive("every .txt file under crates/boxworks-knuthplass/testdata and crates/boxworks-bin/tests"),
            Phase::new("roundtrip", tier.pick(100_000, 10_000_000)).batch(128),
            Phase::new("relayout", tier.pick(60_000, 3_000_000)).batch(128),
            Phase::new("mutated", tier.pick(140_000, 10_000_000)).batch(128),
            Phase::new("soup", tier.pick(100_000, 7_000_000)).batch(128),
        ]
    }

    fn floors(&self, tier: Tier) -> Vec<(&'static str, u64)> {
        let k = tier.pick(1, 50);
        vec![
            ("golden_files_in_box_language", 30),
            ("golden_files_round_tripped", 30),
            ("golden_nodes", 100_000),
            ("rt_lists_round_tripped", 150_000 * k),
            ("rt_nodes_round_tripped", 3_000_000 * k),
            ("rt_vertical_lists", 15_000 * k),
            ("gen_nodes:char", 500_000 * k),
            ("gen_nodes:glue", 100_000 * k),
            ("gen_nodes:kern", 50_000 * k),
            ("gen_nodes:penalty", 50_000 * k),
            ("gen_nodes:rule", 40_000 * k),
            ("gen_nodes:lig", 25_000 * k),
            ("gen_nodes:disc", 10_000 * k),
            ("gen_nodes:math", 20_000 * k),
            ("gen_nodes:mark", 20_000 * k),
            ("gen_nodes:hbox", 50_000 * k),
            ("gen_nodes:vbox", 15_000 * k),
            ("gen_nodes:insertion", 10_000 * k),
            ("gen_nodes:adjust", 5_000 * k),
            ("gen_chars_needing_escape", 100_000 * k),
            ("gen_chars_non_ascii", 100_000 * k),
            ("gen_extreme_dimens_within_2sp_of_limit", 50_000 * k),
            ("gen_running_rule_dimens", 30_000 * k),
            ("gen_glue_order_fil", 20_000 * k),
            ("gen_glue_order_fill", 20_000 * k),
            ("gen_glue_order_filll", 20_000 * k),
            ("gen_adjacent_chars_with_font_change", 20_000 * k),
            ("gen_lists_nesting_depth_ge_3", 5_000 * k),
            ("format_checked_on_syntactically_clean_text", 100_000 * k),
            ("format_idempotent", 100_000 * k),
            ("format_preserves_parsed_list", 60_000 * k),
            ("format_preserves_error_kinds", 10_000 * k),
            ("relayout_texts_valid", 40_000 * k),
            ("text_parsed_with_errors", 100_000 * k),
            ("text_parsed_ok_nonempty", 10_000 * k),
            ("errors_with_valid_locations", 200_000 * k),
        ]
    }

    fn calibrate(&self, obs: &mut Obs) {
        calibrate(obs);
    }

    fn run_case(&self, phase: &str, idx: u64, rng: &mut Rng, obs: &mut Obs) {
        match phase {
            "known" => self.case_known(idx, obs),
            "golden" => self.case_golden(idx, obs),
            "roundtrip" => self.case_roundtrip(rng, obs),
            "relayout" => self.case_relayout(rng, obs),
            "mutated" | "soup" => self.case_text(phase, rng, obs),
            "deepnest-child" => self.case_deepnest_child(),
            other => obs.inconclusive(format!("unknown phase {other}")),
        }
    }
}

/// Seed corpus for the libFuzzer target: the repository's golden files (small ones), printed generated lists, and the
/// language's keywords as a dictionary.
pub fn fuzz_seeds() -> vcore::fuzzglue::Seeds {
    let mut inputs: Vec<Vec<u8>> = vec![];
    for g in goldens().iter() {
        if g.text.len() <= 4096 {
            inputs.push(g.text.clone().into_bytes());
        }
    }
    for k in 0..300u64 {
        let mut rng = Rng::new(0xC18 + k);
        let (t, _) = seed_text(&mut rng);
        if !t.is_empty() && t.len() <= 4096 {
            inputs.push(t.into_bytes());
        }
        let mut rng = Rng::new(0x18C + k);
        let t = textgen::program(&mut rng, k % 10 == 0);
        if t.len() <= 4096 {
            inputs.push(t.into_bytes());
        }
    }
    let mut dictionary: Vec<String> = vec![];
    for t in inputs.iter().take(200) {
        for w in String::from_utf8_lossy(t).split(|c: char| !(c.is_ascii_alphanumeric() || c == '_')) {
            if w.len() >= 2 && w.chars().next().map(|c| c.is_ascii_alphabetic()).unwrap_or(false) && !dictionary.iter().any(|d| d == w) {
                dictionary.push(w.to_string());
            }
        }
    }
    for w in ["running", "fil", "fill", "filll", "pt", "#", "=", "\"", "[", "]", "(", ")", ",", "-16383.99998pt", "16383.99998pt"] {
        dictionary.push(w.to_string());
    }
    vcore::fuzzglue::Seeds { inputs, dictionary }
}

/// One text through the parser and the formatter under the monitor's oracles (totality, located errors, format
/// idempotence and own-output acceptance).
fn check_text(text: &str, ctx: &Value, obs: &mut Obs) -> Parsed {
    obs.add("text_bytes_fed", text.len() as u64);
    let parsed = parse_text(text, obs, ctx);
    match &parsed {
        Parsed::Ok(v) => {
            obs.count("text_parsed_ok");
            if !v.is_empty() {
                obs.count("text_parsed_ok_nonempty");
            }
        }
        Parsed::Errs(e) => {
            obs.count("text_parsed_with_errors");
            obs.add("text_errors_reported", e.len() as u64);
            for k in e.iter().take(4) {
                obs.count(&format!("error_kind:{}", k.kind));
            }
        }
        Parsed::Panicked => obs.count("text_panicked"),
    }
    check_format(text, &parsed, obs, ctx);
    if !text.trim().is_empty() {
        obs.nontrivial(text);
    }
    if obs.wants_sample() {
        obs.sample(json!({"text": clip(text), "outcome": match &parsed {
            Parsed::Ok(v) => format!("list of {} elements", v.len()),
            Parsed::Errs(e) => format!("errors {:?}", kinds(e)),
            Parsed::Panicked => "panic".into(),
        }}));
    }
    parsed
}

/// Entry point of the libFuzzer target `c18_bwl_text` (harness/vfuzz): the text phases' oracle on a fuzzer-chosen
/// input and, when it parses, the print -> parse round trip of the parsed list with both printers (as for the golden
/// files). Inputs nested deeper than 200 levels are left to the monitor's own deep-nesting probe (listed finding
/// C18-deep-nesting-overflows-stack: the process would die of stack exhaustion, which a fuzzer only sees as a crash).
pub fn fuzz_one(data: &[u8], obs: &mut Obs) {
    let Ok(text) = std::str::from_utf8(data) else {
        return;
    };
    let mut depth = 0i32;
    let mut max_depth = 0i32;
    for b in text.bytes() {
        match b {
            b'(' | b'[' | b'{' => {
                depth += 1;
                max_depth = max_depth.max(depth);
            }
            b')' | b']' | b'}' => depth -= 1,
            _ => {}
        }
    }
    if max_depth > 200 {
        return;
    }
    let ctx = json!({"phase": "fuzz"});
    if let Parsed::Ok(list) = check_text(text, &ctx, obs) {
        match hlist_from_ds(&list) {
            Ok(model) => {
                let _ = check_round_trip(&model, Printer::ListLevel, obs, &ctx);
                let _ = check_round_trip(&model, Printer::PerElement, obs, &ctx);
            }
            Err(e) => obs.violation(format!("parser-produced-inexpressible-node:{e}"), json!({"text": clip(text)})),
        }
    }
}

// ------------------------------------------------------------------------------------------
// Calibration: the harness-owned pieces (model conversion + deep comparison, the glue-ratio
// reading, the text re-layout) are run against the repository's golden files, which were produced
// from real TeX output.

/// TeX §102 round_decimals: the scaled value of .d1 d2 ... dk.
fn round_decimals(digits: &[u8]) -> i64 {
    let mut a: i64 = 0;
    for d in digits.iter().rev() {
        a = (a + (*d as i64) * 131072) / 10;
    }
    (a + 1) / 2
}

/// "12.345" -> units of 2^-16 (our own reading of a printed glue ratio).
fn decimal_units(s: &str) -> Option<i64> {
    let (i, f) = s.split_once('.').unwrap_or((s, ""));
    let int: i64 = i.parse().ok()?;
    let digits: Vec<u8> = f.bytes().map(|b| b.wrapping_sub(b'0')).collect();
    if digits.iter().any(|d| *d > 9) {
        return None;
    }
    Some(int * 65536 + round_decimals(&digits[..digits.len().min(17)]))
}

fn collect_ratios(l: &[H], out: &mut Vec<(i32, i32)>) {
    for h in l {
        match h {
            H::HBox(b) => {
                out.push(b.ratio);
                collect_ratios(&b.list, out);
            }
            H::VBox(b) => collect_ratios_v(&b.list, out),
            _ => {}
        }
    }
}

fn collect_ratios_v(l: &[V], out: &mut Vec<(i32, i32)>) {
    for v in l {
        match v {
            V::HBox(b) => {
                out.push(b.ratio);
                collect_ratios(&b.list, out);
            }
            V::VBox(b) => collect_ratios_v(&b.list, out),
            _ => {}
        }
    }
}

fn calibrate(obs: &mut Obs) {
    let gs = goldens();
    if gs.is_empty() {
        obs.inconclusive("no golden files found");
        return;
    }
    let mut rng = Rng::new(0xC18);
    for g in gs {
        let looks_box = g.text.contains("hbox(") || g.text.contains("vbox(");
        if !looks_box {
            continue;
        }
        let Ok(Ok(list)) = catch(|| bwl::parse_horizontal_list(&g.text).map_err(|e| e.len())) else {
            obs.inconclusive(format!("golden file {} (Box language) does not parse", g.name));
            continue;
        };
        obs.count("calibration_goldens_parsed");
        // 1. model conversion is lossless on real data: ds -> model -> ds -> model
        let Ok(model) = hlist_from_ds(&list) else {
            obs.inconclusive(format!("golden file {}: parser produced a node outside the model", g.name));
            continue;
        };
        let again = hlist_from_ds(&hlist_to_ds(&model));
        if again.as_ref().ok().map(|a| hlist_diff(&model, a, "list").is_none()) != Some(true) || again.ok().as_ref() != Some(&model) {
            obs.inconclusive(format!("golden file {}: model <-> ds conversion is not lossless", g.name));
            continue;
        }
        // 2. the deep comparison sees a planted difference
        if !model.is_empty() {
            let mut changed = model.clone();
            let i = changed.len() - 1;
            changed[i] = H::Penalty(123456);
            if hlist_diff(&model, &changed, "list").is_none() {
                obs.inconclusive("deep comparison missed a planted difference");
            }
        }
        // 3. glue ratios: the strings in the golden (from TeX's "glue set" output) against our reading
        let mut ratios = vec![];
        collect_ratios(&model, &mut ratios);
        let mut strings = vec![];
        for line in g.text.lines() {
            if let Some(p) = line.find("glue_ratio=\"") {
                let rest = &line[p + 12..];
                if let Some(q) = rest.find('"') {
                    strings.push(&rest[..q]);
                }
            }
        }
        if strings.len() != ratios.len() {
            obs.inconclusive(format!("golden file {}: {} glue_ratio strings but {} hboxes", g.name, strings.len(), ratios.len()));
            continue;
        }
        // document order of hboxes is pre-order in both
        for (s, (n, d)) in strings.iter().zip(&ratios) {
            match decimal_units(s) {
                Some(u) if (u - ratio_units(*n, *d)).abs() <= 1 + (u >> 22) => obs.count("calibration_glue_ratios_agree"),
                _ => {
                    obs.inconclusive(format!("golden file {}: glue ratio \"{s}\" read as {n}/{d} disagrees with the model", g.name));
                    break;
                }
            }
        }
        // 4. re-layout keeps a small printed golden fragment a valid program for the same list
        if let Some(first) = model.first() {
            let frag = vec![shrink_fragment(&mut rng, first)];
            let text = print_list_level(&hlist_to_ds(&frag));
            let s = textgen::relayout(&mut rng, &text, true);
            match catch(|| bwl::parse_horizontal_list(&s).map_err(|e| e.len())) {
                Ok(Ok(v)) if hlist_from_ds(&v).ok().map(|b| hlist_diff(&frag, &b, "list").is_none()) == Some(true) => {
                    obs.count("calibration_relayout_ok")
                }
                _ => obs.inconclusive(format!("re-layout of a fragment of {} no longer parses to the same list", g.name)),
            }
        }
    }
    if decimal_units("0.22156") != Some(14520) || decimal_units("16383.99998") != Some((1 << 30) - 1) || decimal_units("1.0") != Some(65536) {
        obs.inconclusive("decimal reader wrong on known values");
    }
    // trigger predicates
    let t = textgen::has_integer_overflow("penalty(2147483648)")
        && !textgen::has_integer_overflow("penalty(2147483647)")
        && textgen::has_unit_multiplication_overflow("kern(32768sp)")
        && !textgen::has_unit_multiplication_overflow("kern(32767sp) penalty(99999)")
        && textgen::may_have_dimension_overflow("kern(227in)")
        && textgen::has_unicode_escape_overflow("\"\\u{123456789}\"")
        && !textgen::has_unicode_escape_overflow("\"\\u{10ffff}\"")
        && textgen::has_unicode_escape_without_brace("\"\\ux\"")
        && !textgen::has_unicode_escape_without_brace("\"\\u{41}\"");
    if t {
        obs.count("calibration_trigger_predicates_ok");
    } else {
        obs.inconclusive("trigger predicates wrong on known inputs");
    }
}
