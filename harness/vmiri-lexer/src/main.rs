//! Miri workload for the lexer's unsafe write (property C03).
//!
//! usage: vmiri-lexer <first> <count> [verbose]
//! Generates strings number first..first+count (deterministic in the number), lexes each with the
//! real `Lexer` under a small category-code table and end-line character that depend on the
//! number, traces every token, and after every result checks that the lexer's serialised state
//! (source + current line, observed through serde) is valid UTF-8. Miri's own diagnostics are the
//! main oracle; this program only adds BAD-UTF8 / PANIC / RUNAWAY lines.

use texlang::token::lexer::{self, Lexer};
use texlang::token::trace;
use texlang::token::{CsNameInterner, Token};
use texlang::types::CatCode;

mod probe;

struct Rng(u64);
impl Rng {
    fn next(&mut self) -> u64 {
        self.0 = self.0.wrapping_add(0x9E37_79B9_7F4A_7C15);
        let mut z = self.0;
        z = (z ^ (z >> 30)).wrapping_mul(0xBF58_476D_1CE4_E5B9);
        z = (z ^ (z >> 27)).wrapping_mul(0x94D0_49BB_1331_11EB);
        z ^ (z >> 31)
    }
    fn below(&mut self, n: u64) -> u64 {
        self.next() % n
    }
    fn pick<'a, T>(&mut self, v: &'a [T]) -> &'a T {
        &v[self.below(v.len() as u64) as usize]
    }
}

struct Cfg {
    sup: char,
    esc: char,
    letter_extra: char,
    elc: Option<char>,
}

impl lexer::Config for Cfg {
    fn cat_code(&self, c: char) -> CatCode {
        if c == self.sup {
            CatCode::Superscript
        } else if c == self.esc {
            CatCode::Escape
        } else if c == self.letter_extra || c.is_ascii_alphabetic() {
            CatCode::Letter
        } else {
            match c {
                ' ' => CatCode::Space,
                '\r' => CatCode::EndOfLine,
                '%' => CatCode::Comment,
                '\0' => CatCode::Ignored,
                '\u{7f}' => CatCode::Invalid,
                '{' => CatCode::BeginGroup,
                '}' => CatCode::EndGroup,
                _ => CatCode::Other,
            }
        }
    }
    fn end_line_char(&self) -> Option<char> {
        self.elc
    }
}

const MULTI: &[char] = &['é', 'ß', '☃', '😀', '\u{80}', '\u{7ff}', '\u{800}', '\u{ffff}', '\u{10000}'];
const PLAIN: &[char] = &[
    'a', 'b', 'e', 'f', '5', '7', '0', 'M', '@', '?', ' ', '\n', '\0', '\u{7f}', '%', '{', '+', '\u{1e}', '\u{1c}',
    '\r', '~',
];

fn gen(n: u64) -> (String, Cfg) {
    let mut r = Rng(n.wrapping_mul(0x2545_F491_4F6C_DD1D) ^ 0xC03);
    let sup = *r.pick(&['^', '^', 'é', '☃', '😀', '5']);
    let esc = *r.pick(&['\\', '\\', 'ß', '☃']);
    let esc = if esc == sup { '\\' } else { esc };
    let cfg = Cfg {
        sup,
        esc,
        letter_extra: *r.pick(&['é', '😀', 'k']),
        elc: *r.pick(&[Some('\r'), None, Some('^'), Some('a'), Some('5')]),
    };
    let mut s = String::new();
    let pieces = 1 + r.below(7);
    for _ in 0..pieces {
        match r.below(10) {
            0..=4 => {
                // ^^X with X ASCII or multi-byte, neighbours multi-byte
                if r.below(2) == 0 {
                    s.push(*r.pick(MULTI));
                }
                s.push(sup);
                s.push(sup);
                match r.below(6) {
                    0 => s.push(*r.pick(MULTI)),
                    1 => {
                        s.push(*r.pick(&['5', 'a', 'e', '0']));
                        s.push(*r.pick(&['e', 'f', '9', 'c']));
                    }
                    2 => {} // line end
                    3 => {
                        // reduces to the superscript character again (recursion)
                        if (sup as u32) < 128 {
                            s.push(char::from_u32(sup as u32 ^ 64).unwrap());
                            s.push(sup);
                        }
                        s.push(*r.pick(PLAIN));
                    }
                    _ => s.push(*r.pick(PLAIN)),
                }
                if r.below(2) == 0 {
                    s.push(*r.pick(MULTI));
                }
            }
            5 | 6 => {
                // control sequence with ^^ inside the name
                s.push(esc);
                for _ in 0..r.below(3) {
                    s.push(*r.pick(&['a', 'é', 'k', '😀']));
                }
                s.push(sup);
                s.push(sup);
                s.push(*r.pick(&['!', '"', '+', 'é', '5', 'M', '\u{1e}']));
                if r.below(2) == 0 {
                    s.push(*r.pick(&['a', 'e', '5', '☃']));
                }
            }
            7 => s.push(*r.pick(MULTI)),
            8 => s.push(*r.pick(PLAIN)),
            _ => s.push_str(*r.pick(&[" \n", "\n", "  ", "%x\n"])),
        }
    }
    (s, cfg)
}

struct Tally {
    strings: u64,
    results: u64,
    tokens: u64,
    utf8_checks: u64,
    carets: u64,
    multibyte_strings: u64,
    bad: u64,
}

fn run_one(n: u64, t: &mut Tally, verbose: bool) {
    let (src, cfg) = gen(n);
    t.strings += 1;
    if src.chars().any(|c| c.len_utf8() > 1) {
        t.multibyte_strings += 1;
    }
    let sup = cfg.sup;
    let mut prev = '\n';
    for c in src.chars() {
        if c == sup && prev == sup {
            t.carets += 1;
        }
        prev = c;
    }
    let mut tracer: trace::Tracer = Default::default();
    let mut interner: CsNameInterner = Default::default();
    let range = tracer.register_source_code(None, trace::Origin::File("m.tex".into()), &src);
    let mut lx = Lexer::new(src.clone(), range);
    let bound = 3 * src.chars().count() + 16;
    let mut k = 0;
    loop {
        let res = lx.next(&cfg, &mut interner, n % 2 == 0);
        t.results += 1;
        match res {
            lexer::Result::EndOfInput => break,
            lexer::Result::EndOfLine => {}
            lexer::Result::Token(tok) => {
                t.tokens += 1;
                let tr = tracer.trace(tok, &interner);
                if verbose {
                    println!("  {:?} @{}:{}", tr.value, tr.line_number, tr.index);
                }
            }
            lexer::Result::InvalidCharacter(c, key) => {
                let _ = tracer.trace(Token::new_letter(c, key), &interner);
            }
        }
        // every string field of the lexer's state (source_code, current_line) must be UTF-8
        let mut probe = probe::Utf8Probe::default();
        serde::Serialize::serialize(&lx, &mut probe).expect("serialise lexer");
        t.utf8_checks += 1;
        if probe.strings < 2 {
            println!("PANIC string={n} source={:?} message=\"harness: lexer state has no string fields\"", src);
            t.bad += 1;
            break;
        }
        if let Some(bad) = probe.bad {
            println!("BAD-UTF8 string={n} source={:?} state={:?}", src, String::from_utf8_lossy(&bad));
            t.bad += 1;
            break;
        }
        k += 1;
        if k > bound {
            println!("RUNAWAY string={n} source={:?}", src);
            t.bad += 1;
            break;
        }
    }
}

fn main() {
    let args: Vec<String> = std::env::args().collect();
    let first: u64 = args.get(1).and_then(|s| s.parse().ok()).unwrap_or(0);
    let count: u64 = args.get(2).and_then(|s| s.parse().ok()).unwrap_or(10);
    let verbose = args.get(3).map(|s| s == "v").unwrap_or(false);
    let mut t = Tally {
        strings: 0,
        results: 0,
        tokens: 0,
        utf8_checks: 0,
        carets: 0,
        multibyte_strings: 0,
        bad: 0,
    };
    for n in first..first + count {
        if verbose || n == first {
            let (s, c) = gen(n);
            println!("SAMPLE string={n} sup={:?} esc={:?} elc={:?} source={:?}", c.sup, c.esc, c.elc, s);
        }
        let r = std::panic::catch_unwind(std::panic::AssertUnwindSafe(|| run_one(n, &mut t, verbose)));
        if let Err(e) = r {
            let msg = e
                .downcast_ref::<String>()
                .cloned()
                .or_else(|| e.downcast_ref::<&str>().map(|s| s.to_string()))
                .unwrap_or_default();
            println!("PANIC string={n} source={:?} message={:?}", gen(n).0, msg);
            t.bad += 1;
        }
    }
    println!(
        "SUMMARY strings={} results={} tokens={} utf8_checks={} caret_pairs={} multibyte_strings={} bad={}",
        t.strings, t.results, t.tokens, t.utf8_checks, t.carets, t.multibyte_strings, t.bad
    );
    if t.bad > 0 {
        std::process::exit(3);
    }
}
