//! A serde `Serializer` that produces nothing and only looks at the bytes of every string it is
//! handed: the way this workload observes the private `RawLexer::current_line` (which the unsafe
//! write modifies in place) without any hook in /repo.

use serde::ser::{self, Serialize};

#[derive(Default)]
pub struct Utf8Probe {
    pub strings: usize,
    /// bytes of the first string that was not valid UTF-8
    pub bad: Option<Vec<u8>>,
}

#[derive(Debug)]
pub struct Never(String);
impl std::fmt::Display for Never {
    fn fmt(&self, f: &mut std::fmt::Formatter<'_>) -> std::fmt::Result {
        f.write_str(&self.0)
    }
}
impl std::error::Error for Never {}
impl ser::Error for Never {
    fn custom<T: std::fmt::Display>(msg: T) -> Self {
        Never(msg.to_string())
    }
}

type R = Result<(), Never>;

impl<'a> ser::Serializer for &'a mut Utf8Probe {
    type Ok = ();
    type Error = Never;
    type SerializeSeq = Self;
    type SerializeTuple = Self;
    type SerializeTupleStruct = Self;
    type SerializeTupleVariant = Self;
    type SerializeMap = Self;
    type SerializeStruct = Self;
    type SerializeStructVariant = Self;

    fn serialize_str(self, v: &str) -> R {
        self.strings += 1;
        // `v` claims to be a str; re-validate its bytes
        if std::str::from_utf8(v.as_bytes()).is_err() && self.bad.is_none() {
            self.bad = Some(v.as_bytes().to_vec());
        }
        Ok(())
    }
    fn serialize_bool(self, _: bool) -> R { Ok(()) }
    fn serialize_i8(self, _: i8) -> R { Ok(()) }
    fn serialize_i16(self, _: i16) -> R { Ok(()) }
    fn serialize_i32(self, _: i32) -> R { Ok(()) }
    fn serialize_i64(self, _: i64) -> R { Ok(()) }
    fn serialize_u8(self, _: u8) -> R { Ok(()) }
    fn serialize_u16(self, _: u16) -> R { Ok(()) }
    fn serialize_u32(self, _: u32) -> R { Ok(()) }
    fn serialize_u64(self, _: u64) -> R { Ok(()) }
    fn serialize_f32(self, _: f32) -> R { Ok(()) }
    fn serialize_f64(self, _: f64) -> R { Ok(()) }
    fn serialize_char(self, _: char) -> R { Ok(()) }
    fn serialize_bytes(self, _: &[u8]) -> R { Ok(()) }
    fn serialize_none(self) -> R { Ok(()) }
    fn serialize_some<T: ?Sized + Serialize>(self, v: &T) -> R { v.serialize(self) }
    fn serialize_unit(self) -> R { Ok(()) }
    fn serialize_unit_struct(self, _: &'static str) -> R { Ok(()) }
    fn serialize_unit_variant(self, _: &'static str, _: u32, _: &'static str) -> R { Ok(()) }
    fn serialize_newtype_struct<T: ?Sized + Serialize>(self, _: &'static str, v: &T) -> R { v.serialize(self) }
    fn serialize_newtype_variant<T: ?Sized + Serialize>(self, _: &'static str, _: u32, _: &'static str, v: &T) -> R {
        v.serialize(self)
    }
    fn serialize_seq(self, _: Option<usize>) -> Result<Self, Never> { Ok(self) }
    fn serialize_tuple(self, _: usize) -> Result<Self, Never> { Ok(self) }
    fn serialize_tuple_struct(self, _: &'static str, _: usize) -> Result<Self, Never> { Ok(self) }
    fn serialize_tuple_variant(self, _: &'static str, _: u32, _: &'static str, _: usize) -> Result<Self, Never> {
        Ok(self)
    }
    fn serialize_map(self, _: Option<usize>) -> Result<Self, Never> { Ok(self) }
    fn serialize_struct(self, _: &'static str, _: usize) -> Result<Self, Never> { Ok(self) }
    fn serialize_struct_variant(self, _: &'static str, _: u32, _: &'static str, _: usize) -> Result<Self, Never> {
        Ok(self)
    }
}

impl<'a> ser::SerializeSeq for &'a mut Utf8Probe {
    type Ok = ();
    type Error = Never;
    fn serialize_element<T: ?Sized + Serialize>(&mut self, v: &T) -> R { v.serialize(&mut **self) }
    fn end(self) -> R { Ok(()) }
}
impl<'a> ser::SerializeTuple for &'a mut Utf8Probe {
    type Ok = ();
    type Error = Never;
    fn serialize_element<T: ?Sized + Serialize>(&mut self, v: &T) -> R { v.serialize(&mut **self) }
    fn end(self) -> R { Ok(()) }
}
impl<'a> ser::SerializeTupleStruct for &'a mut Utf8Probe {
    type Ok = ();
    type Error = Never;
    fn serialize_field<T: ?Sized + Serialize>(&mut self, v: &T) -> R { v.serialize(&mut **self) }
    fn end(self) -> R { Ok(()) }
}
impl<'a> ser::SerializeTupleVariant for &'a mut Utf8Probe {
    type Ok = ();
    type Error = Never;
    fn serialize_field<T: ?Sized + Serialize>(&mut self, v: &T) -> R { v.serialize(&mut **self) }
    fn end(self) -> R { Ok(()) }
}
impl<'a> ser::SerializeMap for &'a mut Utf8Probe {
    type Ok = ();
    type Error = Never;
    fn serialize_key<T: ?Sized + Serialize>(&mut self, v: &T) -> R { v.serialize(&mut **self) }
    fn serialize_value<T: ?Sized + Serialize>(&mut self, v: &T) -> R { v.serialize(&mut **self) }
    fn end(self) -> R { Ok(()) }
}
impl<'a> ser::SerializeStruct for &'a mut Utf8Probe {
    type Ok = ();
    type Error = Never;
    fn serialize_field<T: ?Sized + Serialize>(&mut self, _: &'static str, v: &T) -> R { v.serialize(&mut **self) }
    fn end(self) -> R { Ok(()) }
}
impl<'a> ser::SerializeStructVariant for &'a mut Utf8Probe {
    type Ok = ();
    type Error = Never;
    fn serialize_field<T: ?Sized + Serialize>(&mut self, _: &'static str, v: &T) -> R { v.serialize(&mut **self) }
    fn end(self) -> R { Ok(()) }
}
