#!/usr/bin/env python3
"""Mutation self-test driver for C12. usage: run.py <scratch-name> [mutation ids...]"""
import subprocess, sys, re, json, os
name = sys.argv[1]
only = sys.argv[2:]
repo = f"/tmp/scratch-{name}/repo"
KP = "crates/boxworks-knuthplass/src/lib.rs"
TX = "crates/boxworks-text/src/lib.rs"
BW = "crates/boxworks/src/lib.rs"
M = [
 ("m01-replace-count-off-by-one", KP, "start_of_line += discretionary.replace_count as usize;", "start_of_line += discretionary.replace_count as usize + 1;"),
 ("m02-replace-count-ignored", KP, "start_of_line += discretionary.replace_count as usize;", "start_of_line += 0 * discretionary.replace_count as usize;"),
 ("m03-post-break-on-same-line", KP, "                        disc_post_break_nodes = Some(discretionary.post_break);",
  "                        for n in discretionary.post_break.clone() { inner_list.push(n.into()); }\n                        disc_post_break_nodes = Some(vec![]);"),
 ("m04-post-break-before-leftskip", KP, None, None),  # handled specially below
 ("m05-widow-penalty-wrong-line", KP, "if line_index + 2 == break_points.len() {", "if line_index + 3 == break_points.len() {"),
 ("m06-club-penalty-second-line", KP, "if line_index == 0 {\n                    p += self.params.club_penalty;", "if line_index == 1 {\n                    p += self.params.club_penalty;"),
 ("m07-broken-penalty-only-with-post", KP, "if disc_post_break_nodes.is_some() {\n                    p += self.params.broken_penalty;", "if disc_post_break_nodes.as_ref().is_some_and(|n| !n.is_empty()) {\n                    p += self.params.broken_penalty;"),
 ("m08-width-past-end-uses-first", KP, ".unwrap_or(self.line_widths.last().expect(\"non-empty line widths\"));", ".unwrap_or(self.line_widths.first().expect(\"non-empty line widths\"));"),
 ("m09-indent-past-end-zero", KP, ".unwrap_or(self.line_indents.last().copied().unwrap_or(Scaled::ZERO));", ".unwrap_or(Scaled::ZERO);"),
 ("m10-816-keeps-trailing-glue", KP, "if matches!(h_list.last(), Some(ds::Horizontal::Glue(_))) {\n            h_list.pop();\n        }", "if false {\n            h_list.pop();\n        }"),
 ("m11-leftskip-always-inserted", KP, "if !self.params.left_skip.is_zero() {", "if true {"),
 ("m12-rightskip-omitted-when-zero", KP, "            inner_list.push(\n                ds::Glue {\n                    value: self.params.right_skip,\n                    kind: ds::GlueKind::Normal,\n                }\n                .into(),\n            );", "            if !self.params.right_skip.is_zero() {\n            inner_list.push(\n                ds::Glue {\n                    value: self.params.right_skip,\n                    kind: ds::GlueKind::Normal,\n                }\n                .into(),\n            );\n            }"),
 ("m13-break-kern-keeps-width", KP, "kern.width = Scaled::ZERO;", "let _ = &mut kern;"),
 ("m14-break-penalty-dropped", KP, "                        // Do nothing.\n                        inner_list.push(penalty.into());", "                        let _ = penalty;"),
 ("m15-break-glue-kept", KP, "                    Glue(_) => {\n                        // Do nothing. In TeX", "                    Glue(g) => {\n                        inner_list.push(g.into());\n                        // Do nothing. In TeX"),
 ("m16-empty-disc-dropped", KP, "inner_list.push(Discretionary(Default::default()));", ""),
 ("m17-sf-code-1000-does-not-reset", TX, "if new > 0 && new <= 1000 {", "if new > 0 && new < 1000 {"),
 ("m18-xspaceskip-threshold", TX, "if self.space_factor.0 >= 2000 && !self.params.extra_space_skip.is_zero() {", "if self.space_factor.0 > 2000 && !self.params.extra_space_skip.is_zero() {"),
 ("m19-extra-space-omitted", TX, "g.width += self.fonts[self.current_font as usize].extra_space;", "let _ = &mut g;"),
 ("m20-shrink-scaled-like-stretch", TX, "g.shrink = g.shrink.xn_over_d(1000, self.space_factor.0).unwrap().0;", "g.shrink = g.shrink.xn_over_d(self.space_factor.0, 1000).unwrap().0;"),
 ("m21-space-factor-not-reset-per-paragraph", TX, "fn new_paragraph(&mut self) {\n        self.space_factor = Default::default();", "fn new_paragraph(&mut self) {"),
 ("m22-no-disc-after-dash-ligature", TX, "let ins_disc = ligature.original.as_ref().ends_with('-');", "let ins_disc = false;"),
 ("m23-space-factor-ignores-last-char", TX, "for c in word.chars() {\n            self.space_factor.adjust", "for c in word.chars().take(word.chars().count().saturating_sub(1)) {\n            self.space_factor.adjust"),
 ("m24-add_text-drops-first-space", BW, "let mut pending_space = text.chars().next().unwrap_or(' ').is_ascii_whitespace();\n        for word in text.split_ascii_whitespace() {\n            if pending_space {", "let mut pending_space = text.chars().next().unwrap_or(' ').is_ascii_whitespace();\n        for (wi, word) in text.split_ascii_whitespace().enumerate() {\n            if pending_space && wi != 1 {"),
 ("m25-parfillskip-penalty-zero", KP, "h_list.push(ds::Horizontal::Penalty(ds::Penalty::INFINITE));", "h_list.push(ds::Horizontal::Penalty(ds::Penalty(0)));"),
 ("m26-post-break-lost-when-next-line-has-leftskip", KP, None, None),
 ("m27-line-material-duplicated-first-node", KP, "inner_list.extend_from_slice(&h_list[start_of_line..*break_point]);", "inner_list.extend_from_slice(&h_list[start_of_line..*break_point]);\n            if line_index == 3 && start_of_line < *break_point { inner_list.push(h_list[start_of_line].clone()); }"),
 ("m28-spaceskip-when-sf-lt-1000-uses-font", TX, "} else if !self.params.space_skip.is_zero() {\n                self.params.space_skip", "} else if !self.params.space_skip.is_zero() && self.space_factor.0 > 1000 {\n                self.params.space_skip"),
 ("m29-width-lookup-off-by-one", KP, "                .line_widths\n                .get(line_index)\n                .unwrap_or(self.line_widths.last()", "                .line_widths\n                .get(line_index + 1)\n                .unwrap_or(self.line_widths.last()"),
 ("m30-naive-pruning-glue-and-penalties-unbounded", KP, "            // TeX.2021.886\n            // Unlike \\leftskip, there is no check if the glue here is zero.\n", "            while matches!(h_list.get(start_of_line), Some(ds::Horizontal::Glue(_) | ds::Horizontal::Penalty(_))) {\n                start_of_line += 1;\n            }\n"),
 ("m31-second-line-loses-its-first-node", KP, "start_of_line = *break_point + 1;", "start_of_line = *break_point + 1 + (line_index == 0 && break_points.len() > 2) as usize;"),
 ("f1-prune-ignores-next-breakpoint", KP, "while start_of_line < *next_break_point\n                        && h_list", "while h_list"),
 ("f2-prune-despite-post-break-material", KP, "if !post_disc_break {", "if true {"),
 ("f3-prune-font-kerns-too", KP, ".is_some_and(|node| !node.non_discardable())", ".is_some_and(|node| !node.non_discardable() || matches!(node, ds::Horizontal::Kern(_)))"),
 ("f4-prune-only-one-node", KP, "                        start_of_line += 1;\n                    }\n                }\n            }", "                        start_of_line += 1;\n                        break;\n                    }\n                }\n            }"),
 ("f5-spaceskip-gets-no-extra-space", TX, "if self.space_factor.0 >= 2000 {\n                    g.width", "if self.space_factor.0 >= 2000 && self.params.space_skip.is_zero() {\n                    g.width"),
]
def sh(cmd):
    return subprocess.run(cmd, shell=True, capture_output=True, text=True)
results = []
for (mid, path, old, new) in M:
    if only and mid.split('-')[0] not in only and mid not in only: continue
    sh(f"git -C {repo} checkout -- .")
    for bp in os.environ.get("C12_BASE_PATCHES", "").split():
        r0 = sh(f"git -C {repo} apply {bp}")
        assert r0.returncode == 0, r0.stderr
    p = os.path.join(repo, path)
    s = open(p).read()
    if mid.startswith("m04"):
        old = """            if !self.params.left_skip.is_zero() {
                inner_list.push(
                    ds::Glue {
                        value: self.params.left_skip,
                        kind: ds::GlueKind::Normal,
                    }
                    .into(),
                );
            }

            // TeX.2021.884
            if let Some(disc_nodes) = disc_post_break_nodes.take() {
                for disc_node in disc_nodes {
                    inner_list.push(disc_node.into());
                }
            }
"""
        new = """            // TeX.2021.884
            if let Some(disc_nodes) = disc_post_break_nodes.take() {
                for disc_node in disc_nodes {
                    inner_list.push(disc_node.into());
                }
            }
            if !self.params.left_skip.is_zero() {
                inner_list.push(
                    ds::Glue {
                        value: self.params.left_skip,
                        kind: ds::GlueKind::Normal,
                    }
                    .into(),
                );
            }
"""
    if mid.startswith("m26"):
        old = """            if let Some(disc_nodes) = disc_post_break_nodes.take() {
                for disc_node in disc_nodes {"""
        new = """            if let Some(disc_nodes) = disc_post_break_nodes.take() {
                for disc_node in disc_nodes.into_iter().take(1) {"""
    if s.count(old) != 1:
        results.append((mid, "PATTERN-NOT-FOUND", "", s.count(old))); print(results[-1]); continue
    open(p, "w").write(s.replace(old, new))
    r = sh(f"/verif/tools/scratch.sh check {name} C12 quick")
    out = r.stdout + r.stderr
    viol = re.findall(r"VIOLATION property=C12 replay=\S+ signature=(.*)", out)
    inc = re.findall(r"INCONCLUSIVE property=C12 reason=(.*)", out)
    total = None
    try:
        e = json.load(open(f"/tmp/scratch-{name}/out/evidence/C12.json"))
        total = e["coverage"]["violating_cases_total"]
    except Exception as ex:
        total = str(ex)
    results.append((mid, r.returncode, viol[:6], total, [i[:150] for i in inc[:2]]))
    print(results[-1], flush=True)
sh(f"git -C {repo} checkout -- .")
json.dump(results, open(f"/tmp/c12-mut/results-{name}-{os.getpid()}.json", "w"), indent=1)
