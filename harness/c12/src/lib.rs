//! Monitor for property C12 (see /verif/DESIGN.md §6): typesetting a paragraph conserves its
//! content and honours the geometry.
//!
//! Real code driven: `boxworks_text::TextPreprocessorImpl::add_text`,
//! `boxworks_knuthplass::LineBreaker::{break_line_all_attempts, break_line}` (which contains
//! `post_line_break`), `boxworks_hyphenate::Hyphenator` (black box), `ds::HBox::pack` (through
//! `break_line`). Oracles: the reference model in `vmodels::paragraph` (own transcription of
//! TeX §1034, §1041-§1044, §816, §877-§890) in two formulations (exact expected line contents;
//! consumption-style conservation walk), plus the panic oracle.

mod gen;
mod pipe;

use boxworks::ds;
use boxworks::{LineBreaker as _, TextPreprocessor as _};
use boxworks_knuthplass as kp;
use common::Scaled;
use pipe::*;
use vcore::*;
use vmodels::paragraph as model;
use vmodels::paragraph::{GlueSpec, MNode, Prune};

pub struct M;
pub static MONITOR: M = M;

pub const F_KEPT: &str = "C12-discardables-after-break-kept";
pub const F_SPACESKIP: &str = "C12-spaceskip-ignores-space-factor";

// ------------------------------------------------------------------------------------------
// text -> horizontal list

struct TextSetup {
    /// a paragraph typeset with the same preprocessor before the one under test (TeX §1091: every
    /// paragraph starts with space factor 1000, whatever the previous one ended with)
    primer: Option<String>,
    text: String,
    sf_codes: [i32; 256],
    space_skip: common::Glue,
    xspace_skip: common::Glue,
}

impl TextSetup {
    fn params(&self) -> boxworks_text::Params {
        boxworks_text::Params {
            space_factor_codes: boxworks_text::SpaceFactorCodes(self.sf_codes),
            space_skip: self.space_skip,
            extra_space_skip: self.xspace_skip,
        }
    }
    fn json(&self) -> Value {
        let plain = model::plain_sf_codes();
        let changed: Vec<Value> =
            (0..256).filter(|&c| self.sf_codes[c] != plain[c]).map(|c| json!([c, self.sf_codes[c]])).collect();
        json!({
            "text": self.text,
            "previous_paragraph": self.primer,
            "spaceskip": glue_to_spec(&self.space_skip).render(),
            "xspaceskip": glue_to_spec(&self.xspace_skip).render(),
            "sfcodes_changed_from_plain": changed,
        })
    }
}

/// Runs the real `add_text`. `None` = it panicked (reported).
fn real_add_text(ctx: &Ctx, ts: &TextSetup, obs: &mut Obs) -> Option<Vec<ds::Horizontal>> {
    let r = catch(|| {
        let mut tp = new_preprocessor(ctx, ts.params());
        if let Some(p) = &ts.primer {
            let mut other = vec![];
            tp.add_text(p, &mut other);
        }
        let mut list = vec![];
        tp.add_text(&ts.text, &mut list);
        list
    });
    match r {
        Ok(l) => Some(l),
        Err(p) => {
            obs.repo_panic(&p, json!({"stage": "add_text", "case": ts.json()}));
            None
        }
    }
}

/// Oracle for text -> list. `strict` = calibration mode (no deviation model, TeX only).
/// Returns false if the case failed (violation or known finding reported).
fn check_text_list(ctx: &Ctx, ts: &TextSetup, list: &[MNode], obs: &mut Obs, strict: bool) -> bool {
    let ss = glue_to_spec(&ts.space_skip);
    let xs = glue_to_spec(&ts.xspace_skip);
    let Some(words) = model::expected_words(&ts.text, &ts.sf_codes, &ctx.font_space, &ss, &xs) else {
        obs.skip("glue arithmetic overflows in TeX (arith_error)");
        return true;
    };
    // split the real list at its glue nodes
    let mut segs: Vec<&[MNode]> = vec![];
    let mut glues: Vec<&MNode> = vec![];
    let mut start = 0;
    for (i, n) in list.iter().enumerate() {
        if matches!(n, MNode::Glue { .. }) {
            segs.push(&list[start..i]);
            glues.push(n);
            start = i + 1;
        }
    }
    segs.push(&list[start..]);
    // a text ending in blanks may or may not leave a final glue: §816 removes it anyway
    if segs.len() == words.len() + 1 && segs.last().map(|s| s.is_empty()).unwrap_or(false) && !words.is_empty() {
        segs.pop();
        glues.pop();
    }
    let detail = |what: &str, extra: Value| {
        json!({"what": what, "case": ts.json(), "list": model::render_list(list), "more": extra})
    };
    if segs.len() != words.len() {
        obs.violation(
            "text:word-count",
            detail("number of glue-separated segments differs from the number of words", json!({"segments": segs.len(), "words": words.len()})),
        );
        return false;
    }
    for (i, (seg, w)) in segs.iter().zip(&words).enumerate() {
        if let Err(e) = model::check_word_segment(seg, &w.word, 0) {
            obs.violation("text:word-misspelled", detail(&e, json!({"word_index": i, "word": w.word, "segment": model::render_list(seg)})));
            return false;
        }
        // the word's nodes are the items of the font's compiled lig/kern program run over the word, one node per item
        // (TeX §1034-§1040: every kern step appends a kern node, whatever its amount) - the runner itself is C05's subject
        let run: Result<Vec<(u8, i64)>, _> = catch(|| {
            ctx.program
                .run(&w.word)
                .map(|it| match it {
                    tfm::ligkern::RunItem::Char(c) => (0u8, c as i64),
                    tfm::ligkern::RunItem::Kern(k) => (1, k.0 as i64),
                    tfm::ligkern::RunItem::Ligature(l) => (2, l.c as i64),
                })
                .collect()
        });
        if let Ok(run) = run {
            let got: Vec<(u8, i64)> = seg
                .iter()
                .filter_map(|n| match n {
                    MNode::Char { c, .. } => Some((0u8, *c as i64)),
                    MNode::Kern { width, .. } => Some((1, *width as i64)),
                    MNode::Lig { c, .. } => Some((2, *c as i64)),
                    _ => None,
                })
                .collect();
            if got != run {
                obs.violation(
                    "text:word-nodes-differ-from-the-lig-kern-run",
                    detail("characters, ligatures and kerns of a word are not the items the compiled lig/kern program yields",
                           json!({"word_index": i, "word": w.word, "segment": model::render_list(seg), "run_items(kind 0 char/1 kern/2 lig, value)": run})),
                );
                return false;
            }
            obs.count("text_words_compared_with_lig_kern_run");
            if run.iter().any(|(k, v)| *k == 1 && *v == 0) {
                obs.count("text_words_with_a_zero_kern");
            }
        }
        for n in seg.iter() {
            match n {
                MNode::Lig { .. } => obs.count("text_ligatures"),
                MNode::Kern { .. } => obs.count("text_font_kerns"),
                MNode::Disc { .. } => obs.count("text_explicit_hyphen_discretionaries"),
                _ => {}
            }
        }
    }
    // inter-word glue
    let mut all_tex = true;
    let mut all_dev = true;
    let mut trigger = false;
    let mut first_bad: Option<usize> = None;
    for (i, g) in glues.iter().enumerate() {
        let (sf, tex, dev) = words[i].space_after.expect("not the last word");
        let tex_n = MNode::glue(tex);
        let dev_n = MNode::glue(dev);
        let class = if sf == 1000 {
            "1000"
        } else if sf < 1000 {
            "lt1000"
        } else if sf < 2000 {
            "1001to1999"
        } else {
            "ge2000"
        };
        let source = if sf >= 2000 && !xs.is_zero_glue() && sf != 1000 {
            "xspaceskip"
        } else if !ss.is_zero_glue() {
            "spaceskip"
        } else {
            "font"
        };
        obs.count(&format!("space_sf_{class}_{source}"));
        if **g != tex_n {
            all_tex = false;
            if first_bad.is_none() {
                first_bad = Some(i);
            }
        }
        if **g != dev_n {
            all_dev = false;
        }
        if tex != dev {
            // syntactic trigger of F_SPACESKIP: \spaceskip non-zero, space factor not 1000 and
            // \xspaceskip not taking over, and §1044 actually changes something
            trigger = true;
        }
    }
    if trigger {
        obs.count("texts_where_1044_modifies_spaceskip");
    }
    if all_tex {
        if trigger {
            obs.count("spaceskip_scaled_as_tex_1044");
        }
        return true;
    }
    let i = first_bad.unwrap();
    let (sf, tex, dev) = words[i].space_after.unwrap();
    let d = detail(
        "inter-word glue differs from TeX §1041-§1044",
        json!({
            "after_word_index": i, "after_word": words[i].word, "space_factor": sf,
            "got": glues[i].render(), "tex": tex.render(), "deviation_model_spaceskip_unscaled": dev.render(),
        }),
    );
    if !strict && trigger && all_dev {
        obs.known(F_SPACESKIP, d);
    } else {
        obs.violation("text:interword-glue", d);
    }
    false
}

// ------------------------------------------------------------------------------------------
// horizontal list -> lines

struct BreakSetup {
    kp: kp::Params,
    widths: Vec<Scaled>,
    indents: Vec<Scaled>,
    prefix: Vec<ds::Vertical>,
    hyphenation: bool,
}

impl BreakSetup {
    fn json(&self) -> Value {
        json!({
            "widths": self.widths.iter().map(|w| model::print_scaled(w.0)).collect::<Vec<_>>(),
            "indents": self.indents.iter().map(|w| model::print_scaled(w.0)).collect::<Vec<_>>(),
            "params": format!("{:?}", self.kp),
            "hyphenation": self.hyphenation,
            "vlist_prefix_items": self.prefix.len(),
        })
    }
}

#[derive(Default)]
struct BreakOutcome {
    /// for samples: what was observed (filled only when a sample is wanted)
    observed: Option<Value>,
    lines: usize,
    failed: bool,
    hyphenated: bool,
    canonical: u64,
}

struct RealLine {
    width: i32,
    shift: i32,
    items: Vec<MNode>,
    penalty_after: Option<i32>,
}

/// Splits what `break_line` appended to the vertical list into lines.
fn split_vlist(v: &[ds::Vertical], prefix_len: usize) -> Result<Vec<RealLine>, String> {
    let mut out: Vec<RealLine> = vec![];
    let mut i = prefix_len;
    while i < v.len() {
        let need_glue = i > 0; // interline glue precedes every box except on an empty list
        if let ds::Vertical::Glue(_) = &v[i] {
            if !need_glue {
                return Err("interline glue on an empty vertical list".to_string());
            }
            i += 1;
        } else if need_glue {
            return Err(format!("item {i}: expected interline glue before the line box"));
        }
        let Some(ds::Vertical::HBox(b)) = v.get(i) else {
            return Err(format!("item {i}: expected a line box"));
        };
        i += 1;
        let mut penalty_after = None;
        if let Some(ds::Vertical::Penalty(p)) = v.get(i) {
            penalty_after = Some(p.0);
            i += 1;
        }
        out.push(RealLine { width: b.width.0, shift: b.shift_amount.0, items: list_to_m(&b.list), penalty_after });
    }
    Ok(out)
}

/// Nodes that hyphenation may rewrite (letters, their ligatures and kerns, discretionaries) are
/// collapsed to the text they spell; everything else is kept verbatim.
fn skeleton(list: &[MNode]) -> Vec<Result<String, MNode>> {
    let mut out: Vec<Result<String, MNode>> = vec![];
    for n in list {
        match n {
            MNode::Char { .. } | MNode::Lig { .. } | MNode::Disc { .. } | MNode::Kern { kind: model::KernKind::Normal, .. } => {
                if !matches!(out.last(), Some(Ok(_))) {
                    out.push(Ok(String::new()));
                }
                if let Some(Ok(s)) = out.last_mut() {
                    n.spelled(s);
                }
            }
            other => out.push(Err(other.clone())),
        }
    }
    out
}

fn run_break<F: boxworks::FontRepo>(
    obs: &mut Obs,
    font_repo: &F,
    hyph: &dyn boxworks::Hyphenator,
    bs: &BreakSetup,
    h_list: &[ds::Horizontal],
    case_json: &dyn Fn() -> Value,
    tag: &str,
) -> BreakOutcome {
    let mut out = BreakOutcome::default();
    let list0 = list_to_m(h_list);
    let pfs = glue_to_spec(&bs.kp.par_fill_skip);
    let left = glue_to_spec(&bs.kp.left_skip);
    let right = glue_to_spec(&bs.kp.right_skip);
    let base = |what: &str, extra: Value| -> Value {
        json!({"what": what, "case": case_json(), "setup": bs.json(), "list_before": model::render_list(&list0), "more": extra})
    };

    // ---- run A: the breakpoints, through the public break_line_all_attempts, on the list as
    // §816 leaves it (our own §816: break_line's is checked against it below)
    let spy_a = SpyHyphenator::new(hyph);
    let mut list_a: Vec<ds::Horizontal> = h_list.to_vec();
    if matches!(list_a.last(), Some(ds::Horizontal::Glue(_))) {
        list_a.pop();
    }
    list_a.push(ds::Horizontal::Penalty(ds::Penalty(10000)));
    list_a.push(ds::Horizontal::Glue(ds::Glue { kind: ds::GlueKind::Normal, value: bs.kp.par_fill_skip }));
    let ra = catch(|| {
        let mut lb = kp::LineBreaker {
            params: &bs.kp,
            line_widths: &bs.widths,
            line_indents: &bs.indents,
            debug_logger: None,
            hyphenator: &spy_a,
        };
        let mut v = bs.prefix.clone();
        lb.break_line_all_attempts(font_repo, &spy_a, &mut v, &mut list_a)
    });
    let breaks = match ra {
        Ok(b) => b,
        Err(p) => {
            obs.repo_panic(&p, base("break_line_all_attempts panicked", json!({})));
            out.failed = true;
            return out;
        }
    };

    // ---- run B: the real thing
    let spy_b = SpyHyphenator::new(hyph);
    let mut list_b: Vec<ds::Horizontal> = h_list.to_vec();
    let mut v_list = bs.prefix.clone();
    let rb = catch(|| {
        let lb = kp::LineBreaker {
            params: &bs.kp,
            line_widths: &bs.widths,
            line_indents: &bs.indents,
            debug_logger: None,
            hyphenator: &spy_b,
        };
        lb.break_line(font_repo, &mut v_list, &mut list_b);
    });
    if let Err(p) = rb {
        // Sums of glue components are plain (unchecked) integer additions in TeX as well: when
        // the components of one paragraph can add up beyond 2^31-1 sp (e.g. \\spaceskip shrink
        // scaled by 1000/sf with \\sfcode=1, a dozen times on a line) TeX's own arithmetic
        // overflows and the instance is outside the range in which the property is defined.
        let total = |f: &dyn Fn(&common::Glue) -> i64| -> i64 {
            h_list
                .iter()
                .map(|n| match n {
                    ds::Horizontal::Glue(g) => f(&g.value).abs(),
                    _ => 0,
                })
                .sum()
        };
        let limit = i32::MAX as i64;
        if p.message.contains("overflow")
            && (total(&|g| g.width.0 as i64) > limit
                || total(&|g| g.stretch.0 as i64) > limit
                || total(&|g| g.shrink.0 as i64) > limit)
        {
            obs.skip("glue totals of the paragraph exceed 2^31-1 sp (TeX's unchecked sums overflow too)");
            out.failed = true;
            return out;
        }
        obs.repo_panic(&p, base("break_line panicked", json!({"breakpoints": breaks})));
        out.failed = true;
        return out;
    }
    if spy_a.panicked.borrow().is_some() || spy_b.panicked.borrow().is_some() {
        // the hyphenator is C13/C14's subject; the spy left the list unhyphenated
        obs.skip("hyphenator panicked (left to C14); paragraph broken without hyphenation");
    }
    if spy_b.calls.get() > 0 {
        obs.count("second_pass_reached");
    }
    let h = list_to_m(&list_b);
    let ha = list_to_m(&list_a);
    if h != ha {
        obs.violation(
            "list:break_line-and-all_attempts-disagree",
            base("the list left by break_line differs from §816 + break_line_all_attempts", json!({"break_line": model::render_list(&h), "all_attempts": model::render_list(&ha)})),
        );
        out.failed = true;
        return out;
    }

    // ---- E: the list before and after (§816; hyphenation may only rewrite words)
    let want = model::finish_list_816(&list0, pfs);
    if h == want {
        obs.count("list_unchanged_except_816");
    } else if bs.hyphenation && spy_b.calls.get() > 0 && skeleton(&h) == skeleton(&want) {
        out.hyphenated = true;
        obs.count("list_hyphenated");
    } else {
        obs.violation(
            "list:after-differs-from-before",
            base(
                "the list after break_line is not the list before with §816 applied (and words re-hyphenated)",
                json!({"after": model::render_list(&h), "want": model::render_list(&want)}),
            ),
        );
        out.failed = true;
        return out;
    }
    if matches!(list0.last(), Some(MNode::Glue { .. })) {
        obs.count("trailing_glue_removed_816");
    }

    // ---- breakpoints: increasing, legal, ending at the end
    let mut ok = !breaks.is_empty() && breaks.last() == Some(&h.len());
    for w in breaks.windows(2) {
        ok &= w[0] < w[1];
    }
    for &b in &breaks {
        ok &= b <= h.len() && model::is_legal_breakpoint(&h, b);
    }
    if !ok {
        obs.violation(
            "breakpoints:not-a-legal-increasing-sequence",
            base("breakpoints are not strictly increasing legal breakpoints ending at the end of the list", json!({"breakpoints": breaks, "list": model::render_list(&h)})),
        );
        out.failed = true;
        return out;
    }
    for &b in &breaks {
        let kind = match h.get(b) {
            None => "final",
            Some(MNode::Glue { .. }) => "glue",
            Some(MNode::Kern { .. }) => "kern",
            Some(MNode::Penalty(_)) => "penalty",
            Some(MNode::Disc { pre, post, replace }) => {
                if !pre.is_empty() {
                    obs.count(&format!("{tag}:disc_break_with_pre"));
                }
                if !post.is_empty() {
                    obs.count(&format!("{tag}:disc_break_with_post"));
                }
                if *replace > 0 {
                    obs.count(&format!("{tag}:disc_break_with_replaced_nodes"));
                }
                "disc"
            }
            _ => "other",
        };
        obs.count(&format!("{tag}:break_at_{kind}"));
    }

    // ---- the vertical list
    if v_list.len() < bs.prefix.len() || v_list[..bs.prefix.len()] != bs.prefix[..] {
        obs.violation("vlist:prefix-changed", base("material already on the vertical list was changed", json!({})));
        out.failed = true;
        return out;
    }
    let lines = match split_vlist(&v_list, bs.prefix.len()) {
        Ok(l) => l,
        Err(e) => {
            obs.violation("vlist:shape", base(&e, json!({"vlist": format!("{:?}", &v_list[bs.prefix.len()..]).chars().take(2000).collect::<String>()})));
            out.failed = true;
            return out;
        }
    };
    out.lines = lines.len();
    let real_items: Vec<Vec<MNode>> = lines.iter().map(|l| l.items.clone()).collect();
    let render_lines = |ls: &[Vec<MNode>]| -> Vec<String> { ls.iter().map(|l| model::render_list(l)).collect() };
    let full = |what: &str, extra: Value| -> Value {
        json!({
            "what": what, "case": case_json(), "setup": bs.json(),
            "list_broken": model::render_list(&h), "breakpoints": breaks,
            "lines": render_lines(&real_items), "more": extra,
        })
    };
    if lines.len() != breaks.len() {
        obs.violation("lines:count", full("number of line boxes differs from the number of breakpoints", json!({"lines": lines.len()})));
        out.failed = true;
        return out;
    }

    // ---- geometry (§889) and penalties (§890)
    let widths: Vec<i32> = bs.widths.iter().map(|w| w.0).collect();
    let indents: Vec<i32> = bs.indents.iter().map(|w| w.0).collect();
    let tex = match model::expected_lines(&h, &breaks, left, right, Prune::Tex) {
        Ok(t) => t,
        Err(e) => {
            obs.violation("breakpoints:unusable", full(&e, json!({})));
            out.failed = true;
            return out;
        }
    };
    for (k, l) in lines.iter().enumerate() {
        let (w, ind) = model::line_geometry(k, &widths, &indents);
        if k >= widths.len() {
            obs.count("line_past_end_of_width_sequence");
        }
        if !indents.is_empty() && k >= indents.len() {
            obs.count("line_past_end_of_indent_sequence");
        }
        if l.width != w {
            obs.violation("geometry:width", full("line box width is not the requested line width", json!({"line": k, "got": model::print_scaled(l.width), "want": model::print_scaled(w)})));
            out.failed = true;
        }
        if l.shift != ind {
            obs.violation("geometry:indent", full("line box shift is not the requested indent", json!({"line": k, "got": model::print_scaled(l.shift), "want": model::print_scaled(ind)})));
            out.failed = true;
        }
        let want_pen = model::interline_penalty(
            k,
            lines.len(),
            tex[k].disc_break,
            bs.kp.inter_line_penalty,
            bs.kp.club_penalty,
            bs.kp.final_widow_penalty,
            bs.kp.broken_penalty,
        );
        if want_pen.is_some() {
            obs.count("interline_penalty_nodes");
        }
        if tex[k].disc_break && k + 1 < lines.len() {
            obs.count("broken_penalty_lines");
        }
        if l.penalty_after != want_pen {
            obs.violation(
                "penalty:interline",
                full("penalty after the line differs from TeX §890", json!({"line": k, "of": lines.len(), "got": l.penalty_after, "want": want_pen, "disc_break": tex[k].disc_break})),
            );
            out.failed = true;
        }
    }
    if out.failed {
        return out;
    }

    // ---- content: exact expectation and conservation walk
    let tex_items: Vec<Vec<MNode>> = tex.iter().map(|l| l.items.clone()).collect();
    let exact_ok = tex_items == real_items;
    let cons = model::check_conservation(&h, &breaks, &real_items, left, right);
    let cons_ok = cons.problems.is_empty();
    let would_prune: usize = tex.iter().map(|l| l.pruned).sum();
    // independent of whether the code prunes (TeX) or keeps (open finding) them
    obs.add("discardables_following_chosen_breaks", would_prune as u64);
    if exact_ok != cons_ok {
        obs.inconclusive(format!(
            "the two formulations of the line-content oracle disagree (exact={exact_ok}, conservation problems={:?})",
            cons.problems
        ));
        if obs.verbose {
            println!("{}", serde_json::to_string_pretty(&full("formulations disagree", json!({"tex": render_lines(&tex_items)}))).unwrap_or_default());
        }
        out.failed = true;
        return out;
    }
    if exact_ok {
        obs.add("nodes_pruned_after_breaks_879", would_prune as u64);
        if would_prune > 0 {
            obs.count("paragraphs_where_879_prunes");
        }
        obs.add("break_glue_vanished", cons.vanished_break_glue as u64);
        obs.add("replaced_nodes_vanished", cons.vanished_replaced as u64);
        obs.add("lines_starting_with_post_break", cons.lines_starting_with_post_break as u64);
    } else {
        // trigger of F_KEPT: §879 has something to delete after one of the chosen breaks
        let trigger = would_prune > 0;
        let dev = model::expected_lines(&h, &breaks, left, right, Prune::None).expect("same breaks as above");
        let dev_items: Vec<Vec<MNode>> = dev.iter().map(|l| l.items.clone()).collect();
        let first_diff = tex_items.iter().zip(&real_items).position(|(a, b)| a != b).unwrap_or(0);
        let d = full(
            "line contents differ from TeX's post_line_break",
            json!({
                "first_differing_line": first_diff,
                "tex": render_lines(&tex_items),
                "conservation_problems": cons.problems.iter().map(|(s, d)| format!("{s}: {d}")).collect::<Vec<_>>(),
                "nodes_879_deletes": would_prune,
                "open_finding_model_no_879": render_lines(&dev_items),
            }),
        );
        if trigger && dev_items == real_items {
            obs.known(F_KEPT, d);
            obs.add("known_kept_discardables", would_prune as u64);
        } else {
            // With the open finding's trigger present the conservation problems are a mix of the
            // finding and whatever else happened: name the case by what it is.
            let sig = if trigger {
                "differs-from-tex-and-from-the-open-finding-model"
            } else {
                cons.problems.first().map(|p| p.0).unwrap_or("content")
            };
            obs.violation(format!("lines:{sig}"), d);
        }
        out.failed = true;
    }
    if obs.wants_sample() {
        out.observed = Some(json!({
            "list_broken": model::render_list(&h),
            "breakpoints": breaks,
            "line_boxes": lines.iter().zip(&real_items).map(|(l, items)| json!({
                "width": model::print_scaled(l.width), "shift": model::print_scaled(l.shift),
                "content": model::render_list(items), "penalty_after": l.penalty_after,
            })).collect::<Vec<_>>(),
        }));
    }
    obs.add("lines_checked", lines.len() as u64);
    obs.count(&format!("paragraphs_with_lines_{}", match lines.len() { 1 => "1", 2 => "2", 3..=5 => "3to5", 6..=15 => "6to15", _ => "16plus" }));
    out.canonical = stable_hash(&(model::render_list(&h), &breaks, &widths, &indents, left, right));
    out
}

// ------------------------------------------------------------------------------------------
// phases

fn text_case(rng: &mut Rng, obs: &mut Obs, fixed: Option<(TextSetup, BreakSetup)>) {
    let zero_kerns = fixed.is_none() && rng.coin();
    if zero_kerns {
        obs.count("text_cases_with_zero_kerns_in_the_font");
    }
    let ctx = match if zero_kerns { ctx_zero_kerns() } else { ctx() } {
        Ok(c) => c,
        Err(e) => {
            obs.inconclusive(format!("font context: {e}"));
            return;
        }
    };
    let (ts, bs) = match fixed {
        Some(x) => x,
        None => {
            let max_words = if obs.tier == Tier::Thorough { 120 } else { 70 };
            let text = gen::text(rng, max_words);
            let (sf_codes, space_skip, xspace_skip) = gen::text_params(rng);
            let primer = if rng.chance(1, 3) { Some(format!("{}{}", gen::word(rng), *rng.pick(&[".", "!", ":", ",", "A", ")", ""]))) } else { None };
            let ts = TextSetup { primer, text, sf_codes, space_skip, xspace_skip };
            let narrow = rng.chance(1, 3);
            let bs = BreakSetup {
                kp: gen::kp_params(rng),
                widths: if narrow { gen::widths(rng, 40, 120) } else { gen::widths(rng, 80, 420) },
                indents: gen::indents(rng),
                prefix: gen::prefix(rng),
                hyphenation: rng.chance(2, 3),
            };
            (ts, bs)
        }
    };
    let Some(list) = real_add_text(&ctx, &ts, obs) else { return };
    let m = list_to_m(&list);
    let text_ok = check_text_list(&ctx, &ts, &m, obs, false);
    obs.count("texts_checked");
    let case_json = || ts.json();
    let o = if bs.hyphenation {
        run_break(obs, &ctx.font_repo, &ctx.hyphenator, &bs, &list, &case_json, "text")
    } else {
        run_break(obs, &ctx.font_repo, &NoHyphenation, &bs, &list, &case_json, "text")
    };
    if o.hyphenated {
        obs.count("paragraphs_hyphenated");
    }
    if o.lines >= 2 {
        obs.nontrivial_hash(o.canonical);
        obs.count("text_paragraphs_multi_line");
    }
    if obs.wants_sample() && o.lines >= 2 && text_ok && !o.failed {
        obs.sample(json!({"text": ts.text, "text_setup": ts.json(), "setup": bs.json(), "list_from_add_text": model::render_list(&m), "hyphenated": o.hyphenated, "observed": o.observed}));
    }
}

fn list_case(rng: &mut Rng, obs: &mut Obs, fixed: Option<(Vec<ds::Horizontal>, BreakSetup)>) {
    let (list, bs) = match fixed {
        Some(x) => x,
        None => {
            let max_items = if obs.tier == Tier::Thorough { 90 } else { 60 };
            let list = gen::ListGen::new().list(rng, max_items);
            let bs = BreakSetup {
                kp: gen::kp_params(rng),
                widths: gen::widths(rng, 15, 150),
                indents: gen::indents(rng),
                prefix: gen::prefix(rng),
                hyphenation: false,
            };
            (list, bs)
        }
    };
    let rendered = model::render_list(&list_to_m(&list));
    let case_json = || json!({"hand_built_list": rendered});
    let o = run_break(obs, &SynthFont, &NoHyphenation, &bs, &list, &case_json, "list");
    obs.count("lists_checked");
    if o.lines >= 2 {
        obs.nontrivial_hash(o.canonical);
        obs.count("list_paragraphs_multi_line");
    }
    if obs.wants_sample() && o.lines >= 2 && !o.failed {
        obs.sample(json!({"list": rendered, "setup": bs.json(), "observed": o.observed}));
    }
}

// ------------------------------------------------------------------------------------------
// coverage-guided stage
// ------------------------------------------------------------------------------------------

/// Entry point of the libFuzzer target `c12_paragraph` (harness/vfuzz). Line 1 holds comma separated integers:
/// \pretolerance, \tolerance, \linepenalty, \hyphenpenalty, \exhyphenpenalty, \looseness, emergency stretch, \leftskip
/// width, \rightskip width and stretch, \clubpenalty, \widowpenalty, \interlinepenalty, \brokenpenalty, an indent, then one
/// to three line widths (all dimensions in sp); the rest is a horizontal list in the Box language (parsed by the
/// repository's own parser). The paragraph goes through `list_case` with a fixed list - the oracle of the generated
/// list phase: the lines must reproduce the broken list (discardables after breaks, the chosen discretionary branches,
/// \leftskip/\rightskip, inter-line penalties) and `break_line` must agree with the attempts it made.
pub fn fuzz_one(data: &[u8], obs: &mut Obs) {
    let Ok(text) = std::str::from_utf8(data) else {
        return;
    };
    let Some((header, body)) = text.split_once('\n') else {
        return;
    };
    let nums: Vec<i64> = header.split(',').map(|t| t.trim().parse::<i64>().unwrap_or(0)).collect();
    let n = |i: usize, lo: i64, hi: i64, default: i64| -> i32 { nums.get(i).copied().unwrap_or(default).clamp(lo, hi) as i32 };
    let Ok(list) = boxworks::lang::parse_horizontal_list(body) else {
        return;
    };
    if list.is_empty() || list.len() > 60 {
        return;
    }
    // node kinds of the property's quantifier (math, marks, insertions, adjusts and whatsits are `todo!()` in post_line_break)
    if !list.iter().all(|e| {
        matches!(
            e,
            ds::Horizontal::Char(_) | ds::Horizontal::Ligature(_) | ds::Horizontal::HBox(_) | ds::Horizontal::VBox(_) | ds::Horizontal::Rule(_)
                | ds::Horizontal::Glue(_) | ds::Horizontal::Kern(_) | ds::Horizontal::Penalty(_) | ds::Horizontal::Discretionary(_)
        )
    }) {
        obs.skip("fuzz:node-kind-outside-the-quantifier");
        return;
    }
    for (i, e) in list.iter().enumerate() {
        if let ds::Horizontal::Discretionary(d) = e {
            let r = d.replace_count as usize;
            // (TeX §841/§869: characters, ligatures, boxes, rules and kerns only - anything else is `confusion`)
            let box_like = |x: &ds::Horizontal| {
                matches!(x, ds::Horizontal::Char(_) | ds::Horizontal::Ligature(_) | ds::Horizontal::HBox(_) | ds::Horizontal::VBox(_) | ds::Horizontal::Rule(_) | ds::Horizontal::Kern(_))
            };
            if (r > 0 && i + r >= list.len()) || !list[i + 1..(i + 1 + r).min(list.len())].iter().all(box_like) {
                obs.skip("fuzz:discretionary-replaces-missing-nodes-or-nodes-that-are-not-box-like");
                return;
            }
        }
    }
    const P: i64 = 65536;
    let mut kp = kp::Params::plain_tex_defaults();
    kp.pre_tolerance = n(0, -1, 10000, 100);
    kp.tolerance = n(1, -1, 10000, 200);
    kp.line_penalty = n(2, -10000, 10000, 10);
    kp.hyphen_penalty = n(3, -30000, 30000, 50);
    kp.ex_hyphen_penalty = n(4, -30000, 30000, 50);
    kp.looseness = n(5, -3, 3, 0);
    kp.emergency_stretch = Scaled(n(6, 0, 20 * P, 0));
    kp.left_skip = common::Glue { width: Scaled(n(7, 0, 20 * P, 0)), ..Default::default() };
    kp.right_skip = common::Glue { width: Scaled(n(8, 0, 20 * P, 0)), stretch: Scaled(n(9, 0, 30 * P, 0)), ..Default::default() };
    kp.club_penalty = n(10, -10000, 10000, 150);
    kp.final_widow_penalty = n(11, -10000, 10000, 150);
    kp.inter_line_penalty = n(12, -10000, 10000, 0);
    kp.broken_penalty = n(13, -10000, 10000, 100);
    let indent = n(14, 0, 20 * P, 0);
    let mut widths: Vec<Scaled> = (15..18).filter(|i| nums.len() > *i).map(|i| Scaled(n(i, 15 * P, 300 * P, 100 * P))).collect();
    if widths.is_empty() {
        widths.push(Scaled((100 * P) as i32));
    }
    let bs = BreakSetup { kp, widths, indents: if indent > 0 { vec![Scaled(indent)] } else { vec![] }, prefix: vec![], hyphenation: false };
    let mut rng = Rng::new(0);
    list_case(&mut rng, obs, Some((list, bs)));
}

/// Seed corpus (generated lists of the list phase, printed in the Box language) and dictionary.
pub fn fuzz_seeds() -> vcore::fuzzglue::Seeds {
    use boxworks::lang::convert::ToBoxLang;
    use std::fmt::Write;
    let mut inputs = vec![];
    for k in 0..200u64 {
        let mut rng = Rng::new(0xC12 + k);
        let list = gen::ListGen::new().list(&mut rng, 40);
        let printed = catch(|| {
            let mut s = String::new();
            for e in list.clone().to_box_lang() {
                let _ = write!(&mut s, "{e}");
            }
            s
        });
        let Ok(body) = printed else { continue };
        let w = gen::widths(&mut rng, 15, 150);
        let mut header = format!("100,{},10,50,50,0,0,{},0,{},150,150,0,100,{}", [200, 1000, 10000][(k % 3) as usize], (k % 4) * 3 * 65536, (k % 5) * 65536, (k % 2) * 5 * 65536);
        for x in w.iter().take(3) {
            header.push_str(&format!(",{}", x.0));
        }
        if body.len() <= 3500 {
            inputs.push(format!("{header}\n{body}").into_bytes());
        }
    }
    let dictionary = [
        "glue(", "kern(", "penalty(", "chars(\"", "disc(", "pre_break=[", "post_break=[", "replace_count=", "hbox(", "math(", "font=", "plus", "minus", "fil", "fill",
        "filll", "pt", "-10000", "10000", "9999", ",", ")", "\n", "0pt", "1sp", "lig(",
    ]
    .iter()
    .map(|s| s.to_string())
    .collect();
    vcore::fuzzglue::Seeds { inputs, dictionary }
}

/// Exhaustive: every word of length 1..=3 over one representative per space-factor class, in the
/// four zero/non-zero combinations of \spaceskip and \xspaceskip, followed by a space.
const SF_ALPHABET: &[char] = &['a', 'A', '.', ',', ';', ':', ')', '!'];
const SF_ENUM_WORDS: u64 = 8 + 64 + 512;
const SF_ENUM_CASES: u64 = SF_ENUM_WORDS * 4;

fn sf_enum_case(idx: u64, obs: &mut Obs) {
    let ctx = match ctx() {
        Ok(c) => c,
        Err(e) => {
            obs.inconclusive(format!("font context: {e}"));
            return;
        }
    };
    let cfg = idx / SF_ENUM_WORDS;
    let mut w = idx % SF_ENUM_WORDS;
    let len = if w < 8 {
        1
    } else if w < 72 {
        w -= 8;
        2
    } else {
        w -= 72;
        3
    };
    let mut word = String::new();
    for _ in 0..len {
        word.push(SF_ALPHABET[(w % 8) as usize]);
        w /= 8;
    }
    let pt = |x: i32| Scaled(x * 65536);
    let ss = if cfg & 1 == 1 {
        common::Glue { width: pt(10), stretch: pt(4), shrink: pt(2), ..common::Glue::ZERO }
    } else {
        common::Glue::ZERO
    };
    let xs = if cfg & 2 == 2 {
        common::Glue { width: pt(7), stretch: pt(1), shrink: pt(3), ..common::Glue::ZERO }
    } else {
        common::Glue::ZERO
    };
    let ts = TextSetup { primer: if idx % 3 == 0 { Some("A.".into()) } else if idx % 3 == 1 { Some("a.".into()) } else { None }, text: format!("{word} x"), sf_codes: model::plain_sf_codes(), space_skip: ss, xspace_skip: xs };
    let Some(list) = real_add_text(&ctx, &ts, obs) else { return };
    check_text_list(&ctx, &ts, &list_to_m(&list), obs, false);
    obs.count("sf_enum_checked");
    obs.nontrivial_by_construction(1);
    if obs.wants_sample() {
        obs.sample(json!({"case": ts.json(), "list": model::render_list(&list_to_m(&list))}));
    }
}

/// Exhaustive: every sequence of 1..=6 items over {char, glue, penalty, forced-break penalty,
/// explicit kern, discretionary{-|y|0}, discretionary{||1}+char} at a width of two characters,
/// plain parameters. Items carry their position (glue/kern width, penalty value) so that a node
/// that survives a break names itself.
const ENUM_KINDS: u64 = 7;
const ENUM_MAX_LEN: u32 = 6;
fn lists_enum_cases() -> u64 {
    (1..=ENUM_MAX_LEN).map(|l| ENUM_KINDS.pow(l)).sum()
}

fn lists_enum_case(idx: u64, rng: &mut Rng, obs: &mut Obs) {
    let mut rest = idx;
    let mut len = 1u32;
    while rest >= ENUM_KINDS.pow(len) {
        rest -= ENUM_KINDS.pow(len);
        len += 1;
    }
    let pt = |x: i32| Scaled(x * 65536);
    let mut l: Vec<ds::Horizontal> = vec![];
    for pos in 0..len as i32 {
        let k = rest % ENUM_KINDS;
        rest /= ENUM_KINDS;
        match k {
            0 => l.push(ds::Char { char: 'a', font: 0 }.into()),
            1 => l.push(
                ds::Glue {
                    kind: ds::GlueKind::Normal,
                    value: common::Glue { width: Scaled(3 * 65536 + pos), stretch: pt(1), shrink: pt(1), ..common::Glue::ZERO },
                }
                .into(),
            ),
            2 => l.push(ds::Penalty(pos).into()),
            3 => l.push(ds::Penalty(-10000).into()),
            4 => l.push(ds::Kern { width: Scaled(65536 + pos), kind: ds::KernKind::Explicit }.into()),
            5 => l.push(
                ds::Discretionary {
                    pre_break: vec![ds::DiscretionaryElem::Char(ds::Char { char: '-', font: 0 })],
                    post_break: vec![ds::DiscretionaryElem::Char(ds::Char { char: 'y', font: 0 })],
                    replace_count: 0,
                }
                .into(),
            ),
            _ => {
                l.push(ds::Discretionary { pre_break: vec![], post_break: vec![], replace_count: 1 }.into());
                l.push(ds::Char { char: 'b', font: 0 }.into());
            }
        }
    }
    let bs = BreakSetup { kp: kp::Params::plain_tex_defaults(), widths: vec![pt(12)], indents: vec![], prefix: vec![], hyphenation: false };
    list_case(rng, obs, Some((l, bs)));
    obs.count("lists_enum_checked");
}

/// Fixed reproducers of the listed findings. They go through exactly the same oracles as the
/// random cases, so they report KNOWN-FINDING while the defect is present and nothing once it is
/// repaired.
fn known_case(idx: u64, rng: &mut Rng, obs: &mut Obs) {
    let pt = |x: i32| Scaled(x * 65536);
    match idx {
        0 => {
            // AAAAA glue BBBBB glue penalty(0) glue CCCCC at a width that fits two words
            let mut l: Vec<ds::Horizontal> = vec![];
            let word = |l: &mut Vec<ds::Horizontal>, c: char| {
                for _ in 0..5 {
                    l.push(ds::Char { char: c, font: 0 }.into());
                }
            };
            let glue = |w: i32| -> ds::Horizontal {
                ds::Glue { kind: ds::GlueKind::Normal, value: common::Glue { width: pt(w), stretch: pt(2), ..common::Glue::ZERO } }.into()
            };
            word(&mut l, 'a'); // 'a' = 97: 97%5+3 = 5pt each
            l.push(glue(5));
            word(&mut l, 'f'); // 102%5+3 = 5pt
            l.push(glue(5));
            l.push(ds::Penalty(0).into());
            l.push(glue(4));
            word(&mut l, 'k'); // 107%5+3 = 5pt
            let bs = BreakSetup { kp: kp::Params::plain_tex_defaults(), widths: vec![pt(56)], indents: vec![], prefix: vec![], hyphenation: false };
            list_case(rng, obs, Some((l, bs)));
        }
        1 => {
            let ts = TextSetup {
                primer: None,
                text: "a, b. c".into(),
                sf_codes: model::plain_sf_codes(),
                space_skip: common::Glue { width: pt(10), stretch: pt(4), shrink: pt(2), ..common::Glue::ZERO },
                xspace_skip: common::Glue::ZERO,
            };
            let bs = BreakSetup { kp: kp::Params::plain_tex_defaults(), widths: vec![pt(300)], indents: vec![], prefix: vec![], hyphenation: false };
            text_case(rng, obs, Some((ts, bs)));
        }
        _ => {
            // an explicit kern break: the glue that makes the kern a legal breakpoint is always
            // the first node of the next line
            let mut l: Vec<ds::Horizontal> = vec![];
            for _ in 0..6 {
                l.push(ds::Char { char: 'a', font: 0 }.into());
            }
            l.push(ds::Kern { width: pt(1), kind: ds::KernKind::Explicit }.into());
            l.push(ds::Glue { kind: ds::GlueKind::Normal, value: common::Glue { width: pt(3), ..common::Glue::ZERO } }.into());
            for _ in 0..6 {
                l.push(ds::Char { char: 'f', font: 0 }.into());
            }
            let bs = BreakSetup { kp: kp::Params::plain_tex_defaults(), widths: vec![pt(30)], indents: vec![pt(3), pt(0)], prefix: vec![], hyphenation: false };
            list_case(rng, obs, Some((l, bs)));
        }
    }
}

mod calib;

/// (quick, thorough) sizes of the random phases; the two scale together (see `floors`).
const TEXT_CASES: (u64, u64) = (150_000, 3_000_000);
const LIST_CASES: (u64, u64) = (300_000, 6_000_000);

impl Monitor for M {
    fn id(&self) -> &'static str {
        "C12"
    }
    fn rule(&self) -> String {
        "phase text: a random text over cmr10's printable ASCII (dictionary words with ff/fi/fl/ffi/ffl, kern pairs, \
         capitals, . ? ! : ; , ) ' ], explicit hyphens and dashes, blank runs), random \\spaceskip/\\xspaceskip/\\sfcode, is turned \
         into a list by the real add_text and checked against the §1034/§1041-1044 model; the list is then broken by the \
         real break_line (hyphenation on in 2/3 of the cases, 1-5 line widths, 0-6 indents, random skip/penalty/tolerance \
         parameters, sometimes material already on the vertical list) and every line box is compared with the §816/§877-890 \
         model. phase lists: the same for hand-built lists (words of chars/ligatures/boxes/rules/font kerns, runs of 1-6 \
         glue/penalty/explicit-kern items, discretionaries with 0-2 pre/post items replacing 0-3 nodes) with synthetic \
         metrics. phase sf-enum: exhaustive. A case is non-trivial when the paragraph has at least two lines; distinct = \
         hash of (list that was broken, breakpoints, widths, indents, left/right skip)."
            .into()
    }
    fn assumptions(&self) -> Vec<String> {
        vec![
            "reference model = own transcription of TeX §102-107, §148, §564-575, §816, §866-869, §877-890, §1034, §1041-1044 (vmodels::paragraph), calibrated against the repo's TeX-generated goldens (boxworks-knuthplass/testdata/*_want.txt) and the spacing table in boxworks-text's unit tests".into(),
            "breakpoints are taken as chosen by the real Knuth-Plass code (their optimality is C04); only increasing order and legality are demanded here".into(),
            "the hyphenator is a black box (C13/C14): demanded is only that the hyphenated list spells the same words between the same non-word nodes".into(),
            "ligature/kern programs are C05: demanded is that the nodes of a word spell the word (ligature originals), not which ligatures form".into(),
            "glue set ratios, heights and depths of the line boxes are C15; the interline glue value (\\baselineskip, marked TODO in the code) is not checked, only its presence".into(),
            "glue parameters are bounded so that xn_over_d cannot overflow; shrink is finite; no math, marks, inserts or adjusts (HBox::pack has todo!() for them)".into(),
            "replaced material of hand-built discretionaries contains no explicit kerns (TeX never looks for breakpoints there, §869)".into(),
        ]
    }
    fn phases(&self, tier: Tier) -> Vec<Phase> {
        vec![
            Phase::new("known", 3).batch(1),
            Phase::new("sf-enum", SF_ENUM_CASES).batch(64).exhaustive(
                "all words of length 1..3 over {a A . , ; : ) !} x {spaceskip zero/non-zero} x {xspaceskip zero/non-zero}, followed by a space",
            ),
            Phase::new("lists-enum", lists_enum_cases()).batch(512).exhaustive(
                "all lists of 1..6 items over {char, glue, penalty, penalty-10000, explicit kern, disc{-|y|0}, disc{||1}+char}, 12pt lines, plain parameters",
            ),
            Phase::new("text", tier.pick(TEXT_CASES.0, TEXT_CASES.1)).batch(64),
            Phase::new("lists", tier.pick(LIST_CASES.0, LIST_CASES.1)).batch(128),
        ]
    }
    fn floors(&self, tier: Tier) -> Vec<(&'static str, u64)> {
        // Second column: what the *random* phases contributed to the counter in a quick run at
        // seed 0 (150 000 texts + 300 000 lists; the exhaustive phases' share subtracted). The
        // floor is 35% of that, scaled with the size of the random phases of the tier.
        let f = TEXT_CASES.1 as f64 / TEXT_CASES.0 as f64;
        let f = if tier == Tier::Quick { 1.0 } else { f };
        let random_part: &[(&'static str, u64)] = &[
            ("texts_checked", 150_000),
            ("lists_checked", 300_000),
            ("lines_checked", 2_060_000),
            ("text_paragraphs_multi_line", 130_000),
            ("list_paragraphs_multi_line", 208_000),
            ("paragraphs_hyphenated", 71_000),
            ("second_pass_reached", 290_000),
            ("text:break_at_glue", 720_000),
            ("text:break_at_disc", 381_000),
            ("text:disc_break_with_pre", 302_000),
            ("text:disc_break_with_post", 68_000),
            ("text:disc_break_with_replaced_nodes", 78_000),
            ("list:break_at_glue", 126_000),
            ("list:break_at_penalty", 193_000),
            ("list:break_at_kern", 16_000),
            ("list:break_at_disc", 172_000),
            ("list:disc_break_with_pre", 111_000),
            ("list:disc_break_with_post", 115_000),
            ("list:disc_break_with_replaced_nodes", 101_000),
            ("discardables_following_chosen_breaks", 408_000),
            ("broken_penalty_lines", 553_000),
            ("interline_penalty_nodes", 1_199_000),
            ("line_past_end_of_width_sequence", 1_262_000),
            ("line_past_end_of_indent_sequence", 696_000),
            ("trailing_glue_removed_816", 75_000),
            ("space_sf_1000_font", 1_302_000),
            ("space_sf_1000_spaceskip", 1_069_000),
            ("space_sf_lt1000_font", 161_000),
            ("space_sf_lt1000_spaceskip", 132_000),
            ("space_sf_1001to1999_font", 93_000),
            ("space_sf_1001to1999_spaceskip", 76_000),
            ("space_sf_ge2000_font", 113_000),
            ("space_sf_ge2000_spaceskip", 93_000),
            ("space_sf_ge2000_xspaceskip", 169_000),
            ("texts_where_1044_modifies_spaceskip", 52_000),
            ("text_ligatures", 2_195_000),
            ("text_font_kerns", 1_817_000),
            ("text_explicit_hyphen_discretionaries", 323_000),
        ];
        let mut v: Vec<(&'static str, u64)> = vec![("sf_enum_checked", SF_ENUM_CASES), ("lists_enum_checked", lists_enum_cases())];
        for (name, n) in random_part {
            if *n > 0 {
                v.push((name, (*n as f64 * 0.35 * f) as u64));
            }
        }
        v
    }
    fn calibrate(&self, obs: &mut Obs) {
        calib::calibrate(obs);
    }
    fn run_case(&self, phase: &str, idx: u64, rng: &mut Rng, obs: &mut Obs) {
        match phase {
            "known" => known_case(idx, rng, obs),
            "sf-enum" => sf_enum_case(idx, obs),
            "text" => text_case(rng, obs, None),
            "lists" => list_case(rng, obs, None),
            "lists-enum" => lists_enum_case(idx, rng, obs),
            other => obs.inconclusive(format!("unknown phase {other}")),
        }
    }
}
