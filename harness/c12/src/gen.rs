//! Workload generators for C12. Everything is a pure function of the `Rng` handed in.

use boxworks::ds;
use boxworks_knuthplass::Params as KpParams;
use common::{Glue, GlueOrder, Scaled};
use vcore::Rng;

pub const PT: i32 = 65536;

fn pt(rng: &mut Rng, lo: i32, hi: i32) -> Scaled {
    // whole points, tenths, or arbitrary scaled values
    match rng.below(3) {
        0 => Scaled(rng.range_i32(lo, hi) * PT),
        1 => Scaled(rng.range_i32(lo * 10, hi * 10) * (PT / 10)),
        _ => Scaled(rng.range_i32(lo * PT, hi * PT)),
    }
}

/// A glue parameter (`\leftskip`, `\rightskip`, `\parfillskip`, `\spaceskip`, ...). Shrink is
/// always finite (TeX §825/§1232 rejects infinite shrinkage inside paragraphs).
pub fn glue_param(rng: &mut Rng, max_width_pt: i32, max_stretch_pt: i32, max_shrink_pt: i32, allow_inf: bool) -> Glue {
    let mut g = Glue::ZERO;
    match rng.below(8) {
        0 => {} // zero
        1 => {
            // zero values but an infinite order: still "zero_glue" for TeX (§1229)
            if allow_inf {
                g.stretch_order = GlueOrder::Fil;
            }
        }
        2 => g.width = pt(rng, 1, max_width_pt),
        3 => g.stretch = pt(rng, 1, max_stretch_pt),
        4 => {
            g.width = pt(rng, 0, max_width_pt);
            g.stretch = pt(rng, 0, max_stretch_pt);
            g.shrink = pt(rng, 0, max_shrink_pt);
        }
        5 => {
            g.width = pt(rng, -max_width_pt / 4, max_width_pt);
            g.stretch = pt(rng, 0, max_stretch_pt);
        }
        6 => {
            if allow_inf {
                g.stretch = Scaled(rng.range_i32(1, 3) * PT);
                g.stretch_order = *rng.pick(&[GlueOrder::Fil, GlueOrder::Fill, GlueOrder::Filll]);
                if rng.coin() {
                    g.width = pt(rng, 0, max_width_pt);
                }
            } else {
                g.shrink = pt(rng, 1, max_shrink_pt);
            }
        }
        _ => {
            g.width = pt(rng, 1, max_width_pt);
            g.shrink = pt(rng, 0, max_shrink_pt);
        }
    }
    g
}

fn pen_param(rng: &mut Rng, default: i32) -> i32 {
    match rng.below(8) {
        0..=2 => default,
        3 => 0,
        4 => *rng.pick(&[1, -1, 50, 100, 150, 500, 1000, -50, -150]),
        5 => rng.range_i32(-300, 300),
        6 => rng.range_i32(-10000, 10000),
        _ => *rng.pick(&[10000, -10000, 9999, -9999]),
    }
}

pub fn kp_params(rng: &mut Rng) -> KpParams {
    let mut p = KpParams::plain_tex_defaults();
    if rng.chance(1, 5) {
        return p;
    }
    p.adj_demerits = *rng.pick(&[10000, 10000, 0, -10000, 5000, 50000]);
    p.broken_penalty = pen_param(rng, 100);
    p.club_penalty = pen_param(rng, 150);
    p.final_widow_penalty = pen_param(rng, 150);
    p.inter_line_penalty = pen_param(rng, 0);
    p.double_hyphen_demerits = *rng.pick(&[10000, 10000, 0, -10000, 100000]);
    p.final_hyphen_demerits = *rng.pick(&[5000, 5000, 0, -5000, 100000]);
    p.emergency_stretch = if rng.chance(1, 4) { pt(rng, 1, 40) } else { Scaled::ZERO };
    p.ex_hyphen_penalty = *rng.pick(&[50, 50, 0, -100, -1000, 500, 10000, -10000]);
    p.hyphen_penalty = *rng.pick(&[50, 50, 50, 0, -100, 500, 5000, 10000, -10000]);
    p.left_skip = if rng.chance(1, 2) { Glue::ZERO } else { glue_param(rng, 30, 30, 5, true) };
    p.right_skip = if rng.chance(1, 2) { Glue::ZERO } else { glue_param(rng, 30, 30, 5, true) };
    p.line_penalty = *rng.pick(&[10, 10, 10, 0, 1, 100, 200]);
    p.looseness = if rng.chance(1, 6) { rng.range_i32(-2, 2) } else { 0 };
    p.par_fill_skip = match rng.below(6) {
        0..=2 => p.par_fill_skip,
        3 => Glue::ZERO,
        _ => glue_param(rng, 40, 40, 5, true),
    };
    p.pre_tolerance = *rng.pick(&[100, 100, -1, -1, 0, 50, 200, 10000]);
    p.tolerance = *rng.pick(&[200, 200, 200, -1, 0, 100, 1000, 10000, 10000]);
    p
}

pub fn widths(rng: &mut Rng, lo_pt: i32, hi_pt: i32) -> Vec<Scaled> {
    let n = *rng.pick(&[1usize, 1, 1, 2, 2, 3, 4, 5]);
    let base = pt(rng, lo_pt, hi_pt);
    (0..n)
        .map(|i| {
            if i == 0 || rng.chance(1, 3) {
                base
            } else {
                pt(rng, lo_pt, hi_pt)
            }
        })
        .collect()
}

pub fn indents(rng: &mut Rng) -> Vec<Scaled> {
    let n = *rng.pick(&[0usize, 0, 0, 1, 2, 3, 4, 5, 6]);
    (0..n)
        .map(|_| match rng.below(4) {
            0 => Scaled::ZERO,
            1 => Scaled(rng.range_i32(-20, 40) * PT),
            _ => Scaled(rng.range_i32(-5 * PT, 40 * PT)),
        })
        .collect()
}

/// Material already on the vertical list when the paragraph ends.
pub fn prefix(rng: &mut Rng) -> Vec<ds::Vertical> {
    let mut v: Vec<ds::Vertical> = vec![];
    if !rng.chance(1, 4) {
        return v;
    }
    let n = rng.range_usize(1, 3);
    for k in 0..n {
        match rng.below(4) {
            0 => v.push(ds::Penalty(rng.range_i32(-500, 500)).into()),
            1 => v.push(
                ds::Glue { kind: ds::GlueKind::Normal, value: Glue { width: Scaled((k as i32 + 1) * PT), ..Glue::ZERO } }.into(),
            ),
            2 => v.push(ds::Rule { height: Scaled(PT), width: Scaled(100 * PT), depth: Scaled(0) }.into()),
            _ => v.push(
                ds::HBox {
                    height: Scaled(rng.range_i32(0, 9) * PT),
                    depth: Scaled(rng.range_i32(0, 4) * PT),
                    width: Scaled(rng.range_i32(10, 200) * PT),
                    ..Default::default()
                }
                .into(),
            ),
        }
    }
    v
}

// ------------------------------------------------------------------------------------------
// text

const DICT: &[&str] = &[
    "hyphenation", "computer", "typesetting", "algorithm", "difficult", "efficient", "office", "waffle", "shuffling",
    "affliction", "paragraph", "discretionary", "ligature", "different", "sufficient", "official", "baffling",
    "information", "university", "mathematics", "beautiful", "represent", "development", "professor", "fluffiest",
    "insufficient", "stiffly", "affinity", "butterfly", "reflection", "confidence", "scientific", "specifically",
    "traffic", "afflict", "effigy", "raffish", "offload", "halfling", "selfish", "shelfful", "manuscript", "supercalifragilistic",
];
const LIGS: &[&str] = &["ff", "fi", "fl", "ffi", "ffl", "fff", "ffff", "fif", "flf", "ffif"];
const KERNS: &[&str] = &["AV", "AO", "VA", "Vo", "To", "Ta", "yo", "we", "bo", "ov", "Wa", "Ya", "PA", "LT", "ky", "xe", "FA", "AT", "AY", "ow"];
const ENDS: &[&str] = &[".", ".", ",", ",", ";", ":", "?", "!", ")", "'", "]", ".)", "?'", ".'", "!)", ",'", "A.", "X,", ".]", "):", ";)"];

fn pick_str<'a>(rng: &mut Rng, xs: &[&'a str]) -> &'a str {
    xs[rng.usize_below(xs.len())]
}

pub fn word(rng: &mut Rng) -> String {
    let mut w = String::new();
    match rng.below(10) {
        0..=2 => w.push_str(pick_str(rng, DICT)),
        _ => {
            let chunks = rng.range_usize(1, 4);
            for _ in 0..chunks {
                match rng.weighted(&[40, 15, 10, 8, 4, 5, 3, 3, 2, 1]) {
                    0 => {
                        for _ in 0..rng.range_usize(1, 4) {
                            w.push((b'a' + rng.below(26) as u8) as char);
                        }
                    }
                    1 => w.push_str(pick_str(rng, LIGS)),
                    2 => w.push_str(pick_str(rng, KERNS)),
                    3 => w.push((b'A' + rng.below(26) as u8) as char),
                    4 => w.push_str(&rng.below(2000).to_string()),
                    5 => w.push_str(pick_str(rng, &["-", "-", "--", "---"])),
                    6 => w.push_str(pick_str(rng, &["``", "''", "`", "'", "!`", "?`"])),
                    7 => w.push(rng.range_i32(33, 126) as u8 as char),
                    // characters above 127 (eight-bit codes of a T1-like font; cmr10 simply has no such character): a word is
                    // a sequence of characters, not of UTF-8 bytes
                    9 => w.push(*rng.pick(&['\u{e9}', '\u{df}', '\u{f8}', '\u{c5}', '\u{ff}', '\u{a1}'])),
                    _ => w.push_str(pick_str(rng, DICT)),
                }
            }
        }
    }
    if rng.chance(1, 12) {
        // capitalise
        let mut cs: Vec<char> = w.chars().collect();
        if let Some(c) = cs.first_mut() {
            *c = c.to_ascii_uppercase();
        }
        w = cs.into_iter().collect();
    }
    if rng.chance(1, 60) {
        w = w.to_ascii_uppercase();
    }
    if rng.chance(1, 4) {
        w.push_str(pick_str(rng, ENDS));
    }
    if rng.chance(1, 200) {
        // longer than TeX's 63-letter hyphenation buffer
        while w.len() < 70 {
            w.push_str(pick_str(rng, DICT));
        }
    }
    w
}

pub fn text(rng: &mut Rng, max_words: usize) -> String {
    let n = match rng.below(10) {
        0 => rng.range_usize(1, 3),
        1..=6 => rng.range_usize(4, max_words.min(30)),
        _ => rng.range_usize(10, max_words),
    };
    let mut t = String::new();
    for i in 0..n {
        if i > 0 {
            match rng.below(20) {
                0 => t.push_str("  "),
                1 => t.push('\n'),
                2 => t.push('\t'),
                3 => t.push_str(" \n "),
                _ => t.push(' '),
            }
        }
        t.push_str(&word(rng));
    }
    if rng.chance(1, 10) {
        t.push_str(pick_str(rng, &[" ", "\n", "  "]));
    }
    t
}

/// (`\sfcode` table, `\spaceskip`, `\xspaceskip`)
pub fn text_params(rng: &mut Rng) -> ([i32; 256], Glue, Glue) {
    let mut codes = vmodels::paragraph::plain_sf_codes();
    if rng.chance(1, 8) {
        // a few re-assigned codes, all inside TeX's range 0..=32767
        for _ in 0..rng.range_usize(1, 6) {
            let c = rng.range_i32(33, 126) as usize;
            codes[c] = *rng.pick(&[0, 1, 500, 999, 1000, 1001, 1999, 2000, 2001, 3000, 10000, 32767]);
        }
    }
    // bounded so that xn_over_d (stretch*sf/1000, shrink*1000/sf with sf in 1..=32767) cannot
    // overflow TeX's 2^30 limit
    let skip = |rng: &mut Rng| -> Glue {
        match rng.below(5) {
            0 | 1 => Glue::ZERO,
            _ => {
                let mut g = glue_param(rng, 12, 8, 4, true);
                if rng.chance(1, 8) {
                    g.stretch = Scaled(-g.stretch.0);
                }
                g
            }
        }
    };
    let ss = skip(rng);
    let xs = skip(rng);
    (codes, ss, xs)
}

// ------------------------------------------------------------------------------------------
// hand-built horizontal lists

pub struct ListGen {
    unique: i32,
}

impl ListGen {
    pub fn new() -> Self {
        ListGen { unique: 0 }
    }

    fn ch(&mut self, rng: &mut Rng) -> ds::Horizontal {
        let c = if rng.chance(1, 60) { '~' } else { (b'a' + rng.below(26) as u8) as char };
        ds::Char { char: c, font: 0 }.into()
    }

    /// A box-like node with a width no other node of the list has (unambiguous histories).
    fn solid(&mut self, rng: &mut Rng) -> ds::Horizontal {
        self.unique += 1;
        let w = Scaled(4 * PT + self.unique * 17);
        match rng.below(4) {
            0 => ds::Rule { width: w, height: Scaled(5 * PT), depth: Scaled(0) }.into(),
            1 => ds::Horizontal::VBox(ds::VBox { width: w, height: Scaled(8 * PT), depth: Scaled(PT), ..Default::default() }),
            2 => ds::HBox { width: w, height: Scaled(6 * PT), depth: Scaled(3 * PT), shift_amount: Scaled(PT), ..Default::default() }.into(),
            _ => ds::HBox { width: w, height: Scaled(6 * PT), depth: Scaled(PT), list: vec![ds::Char { char: 'x', font: 0 }.into()], ..Default::default() }
                .into(),
        }
    }

    fn lig(&mut self, rng: &mut Rng) -> ds::Horizontal {
        let orig: &str = pick_str(rng, &["ff", "fi", "ffl", "--"]);
        ds::Ligature {
            char: *rng.pick(&['\u{b}', '\u{c}', '\u{f}', '{']),
            font: 0,
            original_chars: orig.into(),
            includes_left_boundary: false,
            includes_right_boundary: false,
        }
        .into()
    }

    fn word_item(&mut self, rng: &mut Rng) -> ds::Horizontal {
        match rng.weighted(&[70, 8, 10, 12]) {
            0 => self.ch(rng),
            1 => self.lig(rng),
            2 => self.solid(rng),
            _ => ds::Kern { width: Scaled(rng.range_i32(-PT, PT)), kind: *rng.pick(&[ds::KernKind::Normal, ds::KernKind::Normal, ds::KernKind::Accent]) }.into(),
        }
    }

    fn glue(&mut self, rng: &mut Rng) -> ds::Horizontal {
        self.unique += 1;
        let mut g = Glue::ZERO;
        // widths unique per list, so that a glue that survives a break names itself
        g.width = Scaled(rng.range_i32(2, 6) * PT + self.unique * 13);
        match rng.below(8) {
            0 => {}
            1 => {
                g.stretch = Scaled(rng.range_i32(1, 3) * PT);
                g.stretch_order = *rng.pick(&[GlueOrder::Fil, GlueOrder::Fill]);
            }
            2 => {
                g.width = Scaled(-PT - self.unique * 13);
                g.stretch = Scaled(2 * PT);
            }
            3 => g.width = Scaled(0),
            _ => {
                g.stretch = Scaled(rng.range_i32(0, 4 * PT));
                g.shrink = Scaled(rng.range_i32(0, 2 * PT));
            }
        }
        ds::Glue { kind: ds::GlueKind::Normal, value: g }.into()
    }

    fn penalty(&mut self, rng: &mut Rng, strong_left: &mut u32) -> ds::Horizontal {
        // keep the number of huge penalties per list small: the demerit sums stay far inside i32
        let p = match rng.below(10) {
            0 | 1 => 0,
            2 => *rng.pick(&[10000, 10000, 10001, 20000]),
            3 if *strong_left > 0 => {
                *strong_left -= 1;
                *rng.pick(&[-10000, -10000, -10001, -20000, 9999, -9999])
            }
            4 if *strong_left > 0 => {
                *strong_left -= 1;
                rng.range_i32(-10000, 10000)
            }
            _ => rng.range_i32(-300, 300),
        };
        ds::Penalty(p).into()
    }

    fn explicit_kern(&mut self, rng: &mut Rng) -> ds::Horizontal {
        self.unique += 1;
        ds::Kern { width: Scaled(rng.range_i32(-2, 4) * PT + self.unique * 11), kind: ds::KernKind::Explicit }.into()
    }

    fn disc_elems(&mut self, rng: &mut Rng, max: usize) -> Vec<ds::DiscretionaryElem> {
        let n = rng.range_usize(0, max);
        (0..n)
            .map(|_| match rng.below(6) {
                0 => ds::DiscretionaryElem::Kern(ds::Kern { width: Scaled(rng.range_i32(-PT, PT)), kind: ds::KernKind::Normal }),
                1 => {
                    self.unique += 1;
                    ds::DiscretionaryElem::Rule(ds::Rule { width: Scaled(3 * PT + self.unique * 17), height: Scaled(PT), depth: Scaled(0) })
                }
                2 => ds::DiscretionaryElem::Char(ds::Char { char: '-', font: 0 }),
                _ => ds::DiscretionaryElem::Char(ds::Char { char: (b'A' + rng.below(26) as u8) as char, font: 0 }),
            })
            .collect()
    }

    /// A list of "words" separated by runs of discardable items, with discretionaries inside
    /// words. Replaced material consists of characters, ligatures, boxes, rules and font kerns.
    pub fn list(&mut self, rng: &mut Rng, max_items: usize) -> Vec<ds::Horizontal> {
        let target = match rng.below(10) {
            0 => rng.range_usize(1, 6),
            1..=6 => rng.range_usize(5, max_items.min(40)),
            _ => rng.range_usize(20, max_items),
        };
        let mut strong_left = 6u32;
        let mut l: Vec<ds::Horizontal> = vec![];
        if rng.chance(1, 12) {
            // the list may begin with discardable material (\noindent\hskip...)
            l.push(self.glue(rng));
        }
        while l.len() < target {
            // a word
            let wl = rng.range_usize(1, 7);
            let mut k = 0;
            while k < wl {
                if rng.chance(1, 6) {
                    let pre = self.disc_elems(rng, 2);
                    let post = self.disc_elems(rng, 2);
                    let replace = *rng.pick(&[0u32, 0, 0, 1, 1, 2, 3]);
                    l.push(ds::Discretionary { pre_break: pre, post_break: post, replace_count: replace }.into());
                    for _ in 0..replace {
                        let it = match rng.weighted(&[70, 10, 10, 10]) {
                            0 => self.ch(rng),
                            1 => self.lig(rng),
                            2 => self.solid(rng),
                            _ => ds::Kern { width: Scaled(rng.range_i32(-PT, PT)), kind: ds::KernKind::Normal }.into(),
                        };
                        l.push(it);
                        k += 1;
                    }
                } else {
                    l.push(self.word_item(rng));
                }
                k += 1;
            }
            // a run of discardable items
            let run = match rng.below(10) {
                0..=3 => 1,
                4..=6 => 2,
                7 | 8 => 3,
                _ => rng.range_usize(4, 6),
            };
            for j in 0..run {
                let it = match rng.weighted(&[if j == 0 { 60 } else { 40 }, 30, 15]) {
                    0 => self.glue(rng),
                    1 => self.penalty(rng, &mut strong_left),
                    _ => self.explicit_kern(rng),
                };
                l.push(it);
            }
        }
        if rng.chance(1, 2) {
            // end with a non-discardable node (otherwise the list ends with the run: trailing
            // glue exercises §816)
            l.push(self.ch(rng));
        }
        l
    }
}
