//! Calibration of the C12 reference model against TeX-derived ground truth kept in the repo:
//!
//! 1. our TFM reading of cmr10 (widths, space parameters) against the repo's reader;
//! 2. the inter-word glue model against the `spacing_tests!` table of boxworks-text's unit tests
//!    (20 rows recorded from TeX, parsed out of the test source at run time);
//! 3. the §816/§877-§890 model against the `*_want.txt` goldens of boxworks-knuthplass (vertical
//!    lists dumped by real TeX): text -> real add_text -> real hyphenator/Knuth-Plass give the
//!    list and the breakpoints; the *model's* lines, penalties and widths must then equal TeX's.
//!    (The repo's own tests assert that the real pipeline reproduces these files, so list and
//!    breakpoints are the ones TeX used.) The text -> list oracle is run on the same inputs in
//!    strict (TeX-only) mode, which ties the glue model to the glue TeX printed in the goldens.
//!
//! A mismatch is reported with `obs.violation`, which the runner turns into INCONCLUSIVE
//! ("calibration mismatch"): a model that disagrees with a golden is wrong by definition.

use crate::*;

struct Row {
    name: &'static str,
    input: &'static str,
    want: &'static str,
    widths: &'static [&'static str],
    ragged: bool,
    tweak: fn(&mut kp::Params),
}

fn dim(s: &str) -> Scaled {
    Scaled::parse_from_string(s).expect("valid dimension in calibration table")
}

fn rows() -> Vec<Row> {
    fn none(_: &mut kp::Params) {}
    let r = |name, input, want, widths, tweak| Row { name, input, want, widths, ragged: false, tweak };
    let wh = "wolf_hall_input.txt";
    let mut v = vec![
        r("wolf_hall_5in", wh, "wolf_hall_5in_want.txt", &["5in"] as &[&str], none as fn(&mut kp::Params)),
        r("wolf_hall_3in", wh, "wolf_hall_3in_want.txt", &["3in"], none),
        r("wolf_hall_2in", wh, "wolf_hall_2in_want.txt", &["2in"], none),
        r("wolf_hall_1in", wh, "wolf_hall_1in_want.txt", &["1in"], none),
        r("wolf_hall_emergency_stretch", wh, "wolf_hall_emergency_stretch_want.txt", &["1in"], |p| p.emergency_stretch = dim("10.0pt")),
        r("wolf_hall_emergency_stretch_2", wh, "wolf_hall_emergency_stretch_2_want.txt", &["3in"], |p| p.emergency_stretch = dim("10.0pt")),
        r("wolf_hall_variable_widths", wh, "wolf_hall_variable_widths_want.txt", &["5in", "4in", "3in", "4in"], none),
        r("farewell_looseness_plus_1", "farewell_to_arms_input.txt", "farewell_to_arms_looseness_plus_1_want.txt", &["3in"], |p| p.looseness = 1),
        r("farewell_looseness_minus_1", "farewell_to_arms_input.txt", "farewell_to_arms_looseness_minus_1_want.txt", &["5in"], |p| p.looseness = -1),
        r("wolf_hall_adj_demerits", wh, "wolf_hall_adj_demerits_want.txt", &["3in"], |p| p.adj_demerits = -10000),
        r("wolf_hall_broken_penalty", wh, "wolf_hall_broken_penalty_want.txt", &["3in"], |p| p.broken_penalty = 500),
        r("wolf_hall_club_penalty", wh, "wolf_hall_club_penalty_want.txt", &["3in"], |p| p.club_penalty = 1000),
        r("wolf_hall_double_hyphen_demerits", wh, "wolf_hall_double_hyphen_demerits_want.txt", &["3in"], |p| p.double_hyphen_demerits = -100000),
        r("wolf_hall_stone_eyed", "wolf_hall_stone_eyed_input.txt", "wolf_hall_stone_eyed_want.txt", &["3in"], none),
        r("wolf_hall_ex_hyphen_penalty", "wolf_hall_stone_eyed_input.txt", "wolf_hall_ex_hyphen_penalty_want.txt", &["3in"], |p| p.ex_hyphen_penalty = -10000),
        r("wolf_hall_final_hyphen_demerits", wh, "wolf_hall_final_hyphen_demerits_want.txt", &["3in"], |p| p.final_hyphen_demerits = 0),
        r("wolf_hall_final_widow_penalty", wh, "wolf_hall_final_widow_penalty_want.txt", &["3in"], |p| p.final_widow_penalty = 1000),
        r("wolf_hall_hyphen_penalty", wh, "wolf_hall_hyphen_penalty_want.txt", &["3in"], |p| p.hyphen_penalty = 10000),
        r("wolf_hall_inter_line_penalty", wh, "wolf_hall_inter_line_penalty_want.txt", &["3in"], |p| p.inter_line_penalty = 100),
        r("wolf_hall_left_skip", wh, "wolf_hall_left_skip_want.txt", &["3in"], |p| p.left_skip = common::Glue { width: dim("20.0pt"), ..Default::default() }),
        r("wolf_hall_line_penalty", wh, "wolf_hall_line_penalty_want.txt", &["3in"], |p| p.line_penalty = 100),
        r("wolf_hall_par_fill_skip", wh, "wolf_hall_par_fill_skip_want.txt", &["3in"], |p| p.par_fill_skip = common::Glue::ZERO),
        r("wolf_hall_pre_tolerance", wh, "wolf_hall_pre_tolerance_want.txt", &["3in"], |p| p.pre_tolerance = 10000),
        r("wolf_hall_right_skip", wh, "wolf_hall_right_skip_want.txt", &["3in"], |p| p.right_skip = common::Glue { stretch: dim("20.00003pt"), ..Default::default() }),
        r("wolf_hall_tolerance", wh, "wolf_hall_tolerance_want.txt", &["3in"], |p| p.tolerance = 45),
        r("alice_paragraph_1", "alice_paragraph_1.txt", "alice_paragraph_1_want.txt", &["10in"], none),
        r("alice_paragraph_2", "alice_paragraph_2.txt", "alice_paragraph_2_want.txt", &["10in"], none),
    ];
    v.push(Row {
        name: "wolf_hall_ragged_right",
        input: wh,
        want: "wolf_hall_ragged_right.txt",
        widths: &["5in"],
        ragged: true,
        tweak: |p| p.right_skip = common::Glue { stretch: dim("20.00003pt"), ..Default::default() },
    });
    v.push(Row {
        name: "wolf_hall_ragged_right_margin",
        input: wh,
        want: "wolf_hall_ragged_right_margin.txt",
        widths: &["5in"],
        ragged: true,
        tweak: |p| p.right_skip = common::Glue { width: dim("20.0pt"), stretch: dim("20.00003pt"), ..Default::default() },
    });
    v
}

/// All string literals of a piece of Rust source, in order (no raw strings in that table).
fn string_literals(src: &str) -> Vec<String> {
    let mut out = vec![];
    let mut chars = src.chars().peekable();
    while let Some(c) = chars.next() {
        if c == '/' && chars.peek() == Some(&'/') {
            for d in chars.by_ref() {
                if d == '\n' {
                    break;
                }
            }
            continue;
        }
        if c != '"' {
            continue;
        }
        let mut s = String::new();
        while let Some(d) = chars.next() {
            match d {
                '\\' => {
                    if let Some(e) = chars.next() {
                        s.push(e);
                    }
                }
                '"' => break,
                d => s.push(d),
            }
        }
        out.push(s);
    }
    out
}

fn parse_glue_literal(s: &str) -> Option<GlueSpec> {
    let inner = s.strip_prefix("glue(")?.strip_suffix(')')?;
    let parts: Vec<&str> = inner.split(',').map(|p| p.trim()).collect();
    if parts.len() != 3 {
        return None;
    }
    let f = |p: &str| model::parse_printed_scaled(p.strip_suffix("pt")?);
    Some(GlueSpec { width: f(parts[0])?, stretch: f(parts[1])?, stretch_order: 0, shrink: f(parts[2])?, shrink_order: 0 })
}

pub fn calibrate(obs: &mut Obs) {
    let ctx = match ctx() {
        Ok(c) => c,
        Err(e) => {
            obs.inconclusive(format!("font context: {e}"));
            return;
        }
    };

    // ---- 1. two readings of cmr10
    use boxworks::FontRepo;
    for c in 0u32..256 {
        let ch = char::from_u32(c).unwrap();
        let repo_w = ctx.font_repo.width(ch, 0).map(|s| s.0);
        let lite_w = ctx.lite.widths[c as usize];
        // the repo maps only 7-bit... whatever it maps, the two must agree where both know the character
        if c < 128 && repo_w != lite_w {
            obs.violation("calibration:tfm-width", json!({"char": c, "repo": repo_w, "model": lite_w}));
            return;
        }
        obs.count("calibrated_char_widths");
    }
    let repo_space = model::FontSpace {
        space: ctx.tfm_file.named_param_scaled(tfm::NamedParameter::Space).map(|s| s.0).unwrap_or(-1),
        stretch: ctx.tfm_file.named_param_scaled(tfm::NamedParameter::Stretch).map(|s| s.0).unwrap_or(-1),
        shrink: ctx.tfm_file.named_param_scaled(tfm::NamedParameter::Shrink).map(|s| s.0).unwrap_or(-1),
        extra: ctx.tfm_file.named_param_scaled(tfm::NamedParameter::ExtraSpace).map(|s| s.0).unwrap_or(-1),
    };
    if repo_space != ctx.font_space {
        obs.violation("calibration:tfm-params", json!({"repo": format!("{repo_space:?}"), "model": format!("{:?}", ctx.font_space)}));
        return;
    }

    // ---- 2. the spacing table of boxworks-text's unit tests
    let src_path = vcore::repo_dir().join("crates/boxworks-text/src/lib.rs");
    let mut rows_ok = 0;
    if let Ok(src) = std::fs::read_to_string(&src_path) {
        // the macro *invocation* is the last occurrence
        if let Some(pos) = src.rfind("spacing_tests!(") {
            let tail = &src[pos..];
            let end = tail.find("const TFM_SMFEBSL").unwrap_or(tail.len());
            let lits = string_literals(&tail[..end]);
            let mut i = 0;
            while i + 1 < lits.len() {
                let (input, want) = (&lits[i], &lits[i + 1]);
                let Some(want_glue) = parse_glue_literal(want) else {
                    i += 1;
                    continue;
                };
                i += 2;
                let text = format!("{input} a");
                let words = model::expected_words(&text, &model::plain_sf_codes(), &ctx.font_space, &GlueSpec::ZERO, &GlueSpec::ZERO);
                let got = words.as_ref().and_then(|w| w.first()).and_then(|w| w.space_after).map(|x| x.1);
                if got != Some(want_glue) {
                    obs.violation(
                        "calibration:spacing-table",
                        json!({"input": input, "table": want_glue.render(), "model": got.map(|g| g.render())}),
                    );
                    return;
                }
                rows_ok += 1;
            }
        }
    }
    obs.add("calibrated_spacing_table_rows", rows_ok);
    if rows_ok < 16 {
        obs.inconclusive(format!("spacing table in {} not found or too short ({rows_ok} rows)", src_path.display()));
    }

    // ---- 3. goldens
    let dir = vcore::repo_dir().join("crates/boxworks-knuthplass/testdata");
    let mut goldens_ok = 0u64;
    for row in rows() {
        let (Ok(input), Ok(want)) = (std::fs::read_to_string(dir.join(row.input)), std::fs::read_to_string(dir.join(row.want))) else {
            obs.count("calibration_golden_missing");
            continue;
        };
        let parsed = match boxworks::lang::parse_horizontal_list(&want) {
            Ok(p) => p,
            Err(e) => {
                obs.inconclusive(format!("golden {} does not parse: {:?}", row.want, e.len()));
                continue;
            }
        };
        let Some(ds::Horizontal::VBox(vbox)) = parsed.into_iter().next() else {
            obs.inconclusive(format!("golden {} is not a vbox", row.want));
            continue;
        };
        let golden = match split_vlist(&vbox.list, 0) {
            Ok(g) => g,
            Err(e) => {
                obs.inconclusive(format!("golden {}: {e}", row.want));
                continue;
            }
        };
        let mut kpp = kp::Params::plain_tex_defaults();
        (row.tweak)(&mut kpp);
        let ts = TextSetup {
            primer: None,
            text: input.clone(),
            sf_codes: model::plain_sf_codes(),
            space_skip: if row.ragged { common::Glue { width: dim("3.33298pt"), ..Default::default() } } else { common::Glue::ZERO },
            xspace_skip: if row.ragged { common::Glue { width: dim("5.0pt"), ..Default::default() } } else { common::Glue::ZERO },
        };
        let widths: Vec<Scaled> = row.widths.iter().map(|w| dim(w)).collect();
        // real pipeline up to the breakpoints
        let r = catch(|| {
            let mut tp = new_preprocessor(&ctx, ts.params());
            let mut list = vec![];
            tp.add_text(&ts.text, &mut list);
            let before = list_to_m(&list);
            if matches!(list.last(), Some(ds::Horizontal::Glue(_))) {
                list.pop();
            }
            list.push(ds::Horizontal::Penalty(ds::Penalty(10000)));
            list.push(ds::Horizontal::Glue(ds::Glue { kind: ds::GlueKind::Normal, value: kpp.par_fill_skip }));
            let mut lb = kp::LineBreaker { params: &kpp, line_widths: &widths, line_indents: &[], debug_logger: None, hyphenator: &ctx.hyphenator };
            let mut v = vec![];
            let breaks = lb.break_line_all_attempts(&ctx.font_repo, &ctx.hyphenator, &mut v, &mut list);
            (before, list_to_m(&list), breaks)
        });
        let (before, h, breaks) = match r {
            Ok(x) => x,
            Err(p) => {
                obs.inconclusive(format!("golden {}: the real pipeline panicked: {}", row.name, p.message));
                continue;
            }
        };
        // the glue model on TeX's own input, TeX only
        if !check_text_list(&ctx, &ts, &before, obs, true) {
            return;
        }
        let left = glue_to_spec(&kpp.left_skip);
        let right = glue_to_spec(&kpp.right_skip);
        let tex = match model::expected_lines(&h, &breaks, left, right, Prune::Tex) {
            Ok(t) => t,
            Err(e) => {
                obs.violation("calibration:golden-breaks", json!({"golden": row.name, "error": e}));
                return;
            }
        };
        if tex.len() != golden.len() {
            obs.violation("calibration:golden-line-count", json!({"golden": row.name, "model": tex.len(), "tex": golden.len()}));
            return;
        }
        let w: Vec<i32> = widths.iter().map(|w| w.0).collect();
        for (k, (m, g)) in tex.iter().zip(&golden).enumerate() {
            let pen = model::interline_penalty(k, tex.len(), m.disc_break, kpp.inter_line_penalty, kpp.club_penalty, kpp.final_widow_penalty, kpp.broken_penalty);
            let (gw, gi) = model::line_geometry(k, &w, &[]);
            if m.items != g.items || pen != g.penalty_after || gw != g.width || gi != g.shift {
                obs.violation(
                    "calibration:golden-line",
                    json!({
                        "golden": row.name, "line": k,
                        "model": model::render_list(&m.items), "tex": model::render_list(&g.items),
                        "model_penalty": pen, "tex_penalty": g.penalty_after,
                        "model_width": gw, "tex_width": g.width,
                    }),
                );
                return;
            }
            obs.count("calibrated_golden_lines");
        }
        let lines: Vec<Vec<MNode>> = golden.iter().map(|g| g.items.clone()).collect();
        let cons = model::check_conservation(&h, &breaks, &lines, left, right);
        if !cons.problems.is_empty() {
            obs.violation("calibration:golden-conservation", json!({"golden": row.name, "problems": format!("{:?}", cons.problems)}));
            return;
        }
        goldens_ok += 1;
    }
    obs.add("calibrated_goldens", goldens_ok);
    if goldens_ok < 15 {
        obs.inconclusive(format!("only {goldens_ok} goldens could be used for calibration"));
    }
}
