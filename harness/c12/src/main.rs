fn main() {
    vcore::run_main(&c12::MONITOR)
}
