//! Glue between the repo's data structures and the model's (`vmodels::paragraph::MNode`), the
//! per-process font context, and small harness-side implementations of the repo's traits
//! (a font repository with synthetic metrics, a hyphenator that does nothing, a spy around the
//! real hyphenator).

use boxworks::ds;
use common::Scaled;
use std::cell::{Cell, RefCell};
use vmodels::paragraph::{FontSpace, GlueSpec, KernKind, MNode, TfmLite};

pub fn order_to_u8(o: common::GlueOrder) -> u8 {
    match o {
        common::GlueOrder::Normal => 0,
        common::GlueOrder::Fil => 1,
        common::GlueOrder::Fill => 2,
        common::GlueOrder::Filll => 3,
    }
}

pub fn glue_to_spec(g: &common::Glue) -> GlueSpec {
    GlueSpec {
        width: g.width.0,
        stretch: g.stretch.0,
        stretch_order: order_to_u8(g.stretch_order),
        shrink: g.shrink.0,
        shrink_order: order_to_u8(g.shrink_order),
    }
}

fn glue_kind_to_u8(k: &ds::GlueKind) -> u8 {
    match k {
        ds::GlueKind::Normal => 0,
        ds::GlueKind::ConditionalMath => 1,
        ds::GlueKind::Math => 2,
        ds::GlueKind::AlignedLeader => 3,
        ds::GlueKind::CenteredLeader => 4,
        ds::GlueKind::ExpandedLeader => 5,
    }
}

fn kern_kind(k: ds::KernKind) -> KernKind {
    match k {
        ds::KernKind::Normal => KernKind::Normal,
        ds::KernKind::Explicit => KernKind::Explicit,
        ds::KernKind::Accent => KernKind::Accent,
        ds::KernKind::Math => KernKind::Math,
    }
}

fn box_tag(is_h: bool, content_debug: String, ratio: &ds::GlueRatio, order: common::GlueOrder) -> u64 {
    vcore::stable_hash(&(is_h, content_debug, ratio.num.0, ratio.den.0, order_to_u8(order)))
}

pub fn to_m(h: &ds::Horizontal) -> MNode {
    use ds::Horizontal as H;
    match h {
        H::Char(c) => MNode::Char { c: c.char as u32, font: c.font },
        H::Ligature(l) => MNode::Lig {
            c: l.char as u32,
            font: l.font,
            orig: l.original_chars.to_string(),
            left_boundary: l.includes_left_boundary,
            right_boundary: l.includes_right_boundary,
        },
        H::HBox(b) => MNode::Box {
            width: b.width.0,
            height: b.height.0,
            depth: b.depth.0,
            shift: b.shift_amount.0,
            tag: box_tag(true, format!("{:?}", b.list), &b.glue_ratio, b.glue_order),
        },
        H::VBox(b) => MNode::Box {
            width: b.width.0,
            height: b.height.0,
            depth: b.depth.0,
            shift: b.shift_amount.0,
            tag: box_tag(false, format!("{:?}", b.list), &b.glue_ratio, b.glue_order),
        },
        H::Rule(r) => MNode::Rule { width: r.width.0, height: r.height.0, depth: r.depth.0 },
        H::Glue(g) => MNode::Glue { spec: glue_to_spec(&g.value), kind: glue_kind_to_u8(&g.kind) },
        H::Kern(k) => MNode::Kern { width: k.width.0, kind: kern_kind(k.kind) },
        H::Penalty(p) => MNode::Penalty(p.0),
        H::Discretionary(d) => MNode::Disc {
            pre: d.pre_break.iter().map(|e| to_m(&e.clone().into())).collect(),
            post: d.post_break.iter().map(|e| to_m(&e.clone().into())).collect(),
            replace: d.replace_count,
        },
        other => MNode::Other(format!("{other:?}")),
    }
}

pub fn list_to_m(l: &[ds::Horizontal]) -> Vec<MNode> {
    l.iter().map(to_m).collect()
}

// ------------------------------------------------------------------------------------------
// harness-side trait implementations

/// Hyphenation off.
pub struct NoHyphenation;
impl boxworks::Hyphenator for NoHyphenation {
    fn hyphenate(&self, _list: &mut Vec<ds::Horizontal>) {}
}

/// Wraps a hyphenator: counts calls, and turns a panic inside it (C13/C14's subject, not ours)
/// into "list left as it was" plus a flag.
pub struct SpyHyphenator<'a> {
    pub inner: &'a dyn boxworks::Hyphenator,
    pub calls: Cell<u32>,
    pub panicked: RefCell<Option<vcore::PanicInfo>>,
}

impl<'a> SpyHyphenator<'a> {
    pub fn new(inner: &'a dyn boxworks::Hyphenator) -> Self {
        SpyHyphenator { inner, calls: Cell::new(0), panicked: RefCell::new(None) }
    }
}

impl<'a> boxworks::Hyphenator for SpyHyphenator<'a> {
    fn hyphenate(&self, list: &mut Vec<ds::Horizontal>) {
        self.calls.set(self.calls.get() + 1);
        let backup = list.clone();
        let r = vcore::catch(|| self.inner.hyphenate(list));
        if let Err(p) = r {
            *list = backup;
            *self.panicked.borrow_mut() = Some(p);
        }
    }
}

/// Font repository with made-up metrics for the hand-built lists: width 3pt..7pt by character
/// code, `~` has no metrics at all (a character missing from its font).
pub struct SynthFont;
impl boxworks::FontRepo for SynthFont {
    fn width(&self, c: char, _font: u32) -> Option<Scaled> {
        if c == '~' {
            None
        } else {
            Some(Scaled(((c as i32 % 5) + 3) * 65536))
        }
    }
    fn height(&self, c: char, _font: u32) -> Option<Scaled> {
        if c == '~' {
            None
        } else {
            Some(Scaled(7 * 65536))
        }
    }
    fn depth(&self, c: char, _font: u32) -> Option<Scaled> {
        if c == '~' {
            None
        } else {
            Some(Scaled(2 * 65536))
        }
    }
}

// ------------------------------------------------------------------------------------------
// per-process context: cmr10, read once

pub struct Ctx {
    pub tfm_file: tfm::File,
    pub program: tfm::ligkern::CompiledProgram,
    pub font_repo: boxworks_text::TfmFontRepo,
    pub hyphenator: boxworks_hyphenate::Hyphenator,
    /// our own reading of the same bytes
    pub lite: TfmLite,
    pub font_space: FontSpace,
}

pub fn cmr10_path() -> std::path::PathBuf {
    vcore::repo_dir().join("crates/tfm/corpus/computer-modern/cmr10.tfm")
}

fn build_ctx(zero_kerns: bool) -> Result<Ctx, String> {
    let path = cmr10_path();
    let mut bytes = std::fs::read(&path).map_err(|e| format!("cannot read {}: {e}", path.display()))?;
    // Every fourth kern amount of cmr10 is set to ZERO (in the bytes both readers get): TeX appends a kern node for every
    // kern step whatever its amount (§1040), and a font may well say `KRN .. R 0.0` or have a kern that rounds to zero at
    // its design size; cmr10 itself has no zero kern, so nothing would notice a reader that drops them.
    if zero_kerns && bytes.len() >= 24 {
        let h = |i: usize| u16::from_be_bytes([bytes[2 * i], bytes[2 * i + 1]]) as usize;
        let (lh, bc, ec, nw, nh, nd, ni, nl, nk) = (h(1), h(2), h(3), h(4), h(5), h(6), h(7), h(8), h(9));
        let kern0 = 4 * (6 + lh + (ec + 1 - bc) + nw + nh + nd + ni + nl);
        for k in (0..nk).step_by(4) {
            let at = kern0 + 4 * k;
            if at + 4 <= bytes.len() {
                bytes[at..at + 4].copy_from_slice(&[0, 0, 0, 0]);
            }
        }
    }
    let lite = TfmLite::parse(&bytes).ok_or("model cannot parse cmr10.tfm")?;
    let mut tfm_file = tfm::File::deserialize(&bytes).0.map_err(|e| format!("repo cannot parse cmr10.tfm: {e:?}"))?;
    let program = tfm::ligkern::CompiledProgram::compile_from_tfm_file(&mut tfm_file).0;
    let mut font_repo: boxworks_text::TfmFontRepo = Default::default();
    font_repo.register_font(0, tfm_file.clone());
    let hyphenator = boxworks_hyphenate::Hyphenator::plain_tex_en_us(program.clone());
    let font_space = lite.font_space();
    Ok(Ctx { tfm_file, program, font_repo, hyphenator, lite, font_space })
}

thread_local! {
    static CTX: RefCell<Option<Result<std::rc::Rc<Ctx>, String>>> = const { RefCell::new(None) };
    static CTX_ZERO_KERNS: RefCell<Option<Result<std::rc::Rc<Ctx>, String>>> = const { RefCell::new(None) };
}

/// cmr10 with every fourth kern amount set to zero (see `build_ctx`): used by half of the generated text cases, never
/// by the calibration against the goldens (those were produced with the real cmr10).
pub fn ctx_zero_kerns() -> Result<std::rc::Rc<Ctx>, String> {
    CTX_ZERO_KERNS.with(|c| {
        let mut c = c.borrow_mut();
        if c.is_none() {
            *c = Some(build_ctx(true).map(std::rc::Rc::new));
        }
        c.as_ref().unwrap().clone()
    })
}

/// The font context is immutable once built; it is cached per thread only to avoid re-parsing
/// the 4447 hyphenation patterns for every case.
pub fn ctx() -> Result<std::rc::Rc<Ctx>, String> {
    CTX.with(|c| {
        let mut c = c.borrow_mut();
        if c.is_none() {
            *c = Some(build_ctx(false).map(std::rc::Rc::new));
        }
        c.as_ref().unwrap().clone()
    })
}

pub fn new_preprocessor(ctx: &Ctx, params: boxworks_text::Params) -> boxworks_text::TextPreprocessorImpl {
    let mut tp = boxworks_text::TextPreprocessorImpl::new(params);
    tp.register_font(0, &ctx.tfm_file, ctx.program.clone());
    tp.activate_font(0);
    tp
}
