//! Generator of file trees for the `\input` / `\endinput` part of C19.
//!
//! The tree is generated in *execution order* (TeX semantics): the generator keeps the open
//! groups and conditionals as TeX would have them at the point it is writing, so every case is
//! inside the property's quantifier by construction:
//!   * no file ends while conditional text is being skipped (skipped chunks are written
//!     atomically inside one file),
//!   * no `\input` follows an `\endinput` on the same line (TeX82's global `force_eof` quirk),
//!   * file names are ended by a space or by the end of the line,
//!   * `}` only when a group is open, `\else`/`\fi` only when a conditional is open.
//! While writing it keeps three by-products, all "by definition" and independent of the model
//! interpreter in vmodels::inputfiles:
//!   * `expected_markers`: the unique marker words that are live, in the order in which a reader
//!     who puts each file's lines in place of the `\input` would meet them;
//!   * `expected_probe_depths`: the file nesting depth at every live `\vprobe`;
//!   * `inlined`: one text without any `\input`, in which every file's lines stand in place and
//!     which is scanner-state neutral by construction: the text before `\input` ends with `%`, each
//!     file line is a physical line of its own (the scanner is in state N there in both versions),
//!     the rest of the `\input` line is a physical line of its own unless it is blank (states S and
//!     N only differ at an end of line), an executed `\endinput` in a file becomes `\relax` and the
//!     unread lines behind it are left out, `\vprobe` becomes `\relax`, a macro call is replaced by
//!     its body (bodies end in `\relax` so that the state after the call is S in both versions;
//!     when a body does not, the case is marked `neutral = false`).

use std::collections::BTreeMap;
use vcore::Rng;

pub struct TreeCase {
    /// (full file name, content)
    pub files: Vec<(String, String)>,
    pub main: String,
    pub inlined: String,
    pub neutral: bool,
    pub expected_markers: Vec<String>,
    pub expected_probe_depths: Vec<usize>,
    pub feats: BTreeMap<&'static str, u64>,
    pub max_depth: usize,
    pub avoid_known: bool,
}

struct Sink {
    lines: Vec<String>,
    cur: String,
    multi: bool,
}

impl Sink {
    fn new(multi: bool) -> Sink {
        Sink { lines: vec![], cur: String::new(), multi }
    }
    fn newline(&mut self) {
        let l = std::mem::take(&mut self.cur);
        self.lines.push(l);
    }
}

struct FileCtx {
    depth: usize,
    is_main: bool,
    /// an `\endinput` has been executed in this file (on the line being written)
    ended: bool,
    /// the text being written is a macro body (single line, no braces)
    body: bool,
    /// this file must contain an `\input` (to reach the target depth)
    spine: bool,
}

struct SimpleFile {
    name: String,
    markers: Vec<String>,
    inl_lines: Vec<String>,
}

pub struct Gen<'r> {
    rng: &'r mut Rng,
    files: Vec<(String, String)>,
    macros: Vec<(String, String)>,
    next_marker: u32,
    next_file: u32,
    next_macro: u32,
    group_depth: usize,
    /// true = already in the \else branch
    conds: Vec<bool>,
    expected: Vec<String>,
    probes: Vec<usize>,
    inl_lines: Vec<String>,
    inl_cur: String,
    inl_skip_blank: bool,
    neutral: bool,
    items_left: i32,
    files_left: i32,
    target_depth: usize,
    max_depth_seen: usize,
    feats: BTreeMap<&'static str, u64>,
    simple: Vec<SimpleFile>,
    cur_simple: bool,
    /// keep clear of the trigger predicates of the known findings: \endinput only as the last
    /// thing on its line, no zero-byte files
    avoid_known: bool,
}

fn ends_with_control_word(buf: &str) -> bool {
    let b = buf.as_bytes();
    let mut i = b.len();
    while i > 0 && b[i - 1].is_ascii_alphabetic() {
        i -= 1;
    }
    i < b.len() && i > 0 && b[i - 1] == b'\\'
}

/// Append `s`; a blank is inserted only where the two pieces would otherwise fuse into one
/// control word (the blank is skipped by the scanner: state S).
pub fn put(buf: &mut String, s: &str) {
    if s.as_bytes().first().map_or(false, |c| c.is_ascii_alphabetic()) && ends_with_control_word(buf) {
        buf.push(' ');
    }
    buf.push_str(s);
}

#[derive(PartialEq)]
enum Flow {
    Continue,
    LineEnded,
}

impl<'r> Gen<'r> {
    pub fn new(rng: &'r mut Rng) -> Gen<'r> {
        Gen {
            rng,
            files: vec![],
            macros: vec![],
            next_marker: 0,
            next_file: 0,
            next_macro: 0,
            group_depth: 0,
            conds: vec![],
            expected: vec![],
            probes: vec![],
            inl_lines: vec![],
            inl_cur: String::new(),
            inl_skip_blank: false,
            neutral: true,
            items_left: 0,
            files_left: 0,
            target_depth: 0,
            max_depth_seen: 0,
            feats: BTreeMap::new(),
            simple: vec![],
            cur_simple: true,
            avoid_known: false,
        }
    }

    fn feat(&mut self, k: &'static str) {
        *self.feats.entry(k).or_insert(0) += 1;
    }

    fn marker(&mut self) -> String {
        self.next_marker += 1;
        let letter = (b'A' + (self.next_marker % 20) as u8) as char; // A..T
        format!("{letter}{}", self.next_marker)
    }

    fn dead_marker(&mut self) -> String {
        self.next_marker += 1;
        format!("Z{}", self.next_marker)
    }

    fn blanks(&mut self) -> String {
        let n = match self.rng.below(6) {
            0..=3 => 1,
            4 => 2,
            _ => 3,
        };
        " ".repeat(n)
    }

    fn emit(&mut self, sink: &mut Sink, file_text: &str, inl_text: &str) {
        put(&mut sink.cur, file_text);
        put(&mut self.inl_cur, inl_text);
    }

    fn emit_blank(&mut self, sink: &mut Sink) {
        let b = self.blanks();
        sink.cur.push_str(&b);
        self.inl_cur.push_str(&b);
    }

    /// Text that is skipped (never executed): same in both versions, may span lines.
    fn emit_dead(&mut self, sink: &mut Sink, text: &str) {
        let mut first = true;
        for piece in text.split('\n') {
            if !first {
                sink.newline();
                let l = std::mem::take(&mut self.inl_cur);
                self.inl_lines.push(l);
                self.inl_skip_blank = false;
            }
            first = false;
            sink.cur.push_str(piece);
            self.inl_cur.push_str(piece);
        }
    }

    fn inl_end_line(&mut self) {
        let l = std::mem::take(&mut self.inl_cur);
        if self.inl_skip_blank && l.trim().is_empty() {
            // the rest of an \input line is blank: nothing is scanned there (state S)
        } else {
            self.inl_lines.push(l);
        }
        self.inl_skip_blank = false;
    }

    fn dead_text(&mut self, allow_nl: bool) -> String {
        let n = 1 + self.rng.below(4);
        let mut s = String::from(" ");
        for _ in 0..n {
            let tok = match self.rng.below(12) {
                0..=5 => self.dead_marker(),
                6 => "\\input nofile".to_string(),
                7 => "\\endinput".to_string(),
                8 => format!("\\iftrue {} \\else {} \\fi", self.dead_marker(), self.dead_marker()),
                9 => format!("\\iffalse {} \\fi", self.dead_marker()),
                10 => "\\relax".to_string(),
                _ => "\\vprobe".to_string(),
            };
            s.push_str(&tok);
            if allow_nl && self.rng.chance(1, 4) {
                self.feat("dead_chunk_spans_lines");
                s.push('\n');
            } else {
                s.push(' ');
            }
        }
        s
    }

    /// A line behind an executed `\endinput`: it must never be read.
    fn unread_line(&mut self) -> String {
        let mut s = String::new();
        let n = 1 + self.rng.below(3);
        for _ in 0..n {
            let tok = match self.rng.below(10) {
                0..=5 => self.dead_marker(),
                6 => "\\input nofile".to_string(),
                7 => "}".to_string(),
                8 => "\\fi".to_string(),
                _ => "\\undefinedcs".to_string(),
            };
            put(&mut s, &tok);
            s.push(' ');
        }
        s
    }

    fn gen_input(&mut self, sink: &mut Sink, ctx: &mut FileCtx, force_new: bool) -> Flow {
        // choose the child: a fresh file, or (sometimes) a simple file used before
        let reuse = !force_new && !self.simple.is_empty() && self.rng.chance(1, 7);
        let name = if reuse {
            let i = self.rng.usize_below(self.simple.len());
            self.simple[i].name.clone()
        } else {
            self.next_file += 1;
            // §526: every non-blank character token belongs to the name, whatever its category code
            if self.rng.chance(1, 6) {
                self.feat("input_name_with_special_category_character");
                format!("f{}{}", self.rng.pick(&['_', '&', '$']), self.next_file)
            } else if self.rng.chance(1, 6) {
                // characters of more than one byte in front of the extension point (the name is split at byte offsets)
                self.feat("input_name_with_multibyte_character");
                format!("f{}{}", self.rng.pick(&['é', 'ï', 'ß', '字', 'é']), self.next_file)
            } else {
                format!("f{}", self.next_file)
            }
        };
        let with_ext = self.rng.chance(1, 4);
        let b = if self.rng.chance(1, 5) { "  " } else { " " };
        put(&mut sink.cur, "\\input");
        sink.cur.push_str(b);
        sink.cur.push_str(&name);
        if with_ext {
            sink.cur.push_str(".tex");
            self.feat("input_name_with_extension");
        }
        self.cur_simple = false;
        self.feat("input_live");
        if ctx.body {
            self.feat("input_in_macro_body");
        }
        // what stood before the \input on this line
        let before = std::mem::take(&mut self.inl_cur);
        if before.trim().is_empty() {
            self.feat("input_first_on_line");
        } else {
            self.inl_lines.push(format!("{before}%"));
        }
        self.inl_skip_blank = false;
        if reuse {
            self.feat("input_file_reused");
            let i = self.simple.iter().position(|s| s.name == name).unwrap();
            let (m, l) = (self.simple[i].markers.clone(), self.simple[i].inl_lines.clone());
            self.expected.extend(m);
            self.inl_lines.extend(l);
            self.max_depth_seen = self.max_depth_seen.max(ctx.depth + 1);
        } else {
            let spine = ctx.spine;
            ctx.spine = false;
            self.files_left -= 1;
            self.gen_file(&name, ctx.depth + 1, spine);
        }
        self.inl_skip_blank = true;
        // how the name ends
        let eol = !ctx.body && self.rng.chance(1, 3);
        if eol {
            self.feat("input_name_ended_by_eol");
            if self.rng.chance(1, 4) {
                sink.cur.push_str("  "); // trailing blanks are removed with the line end
            }
            Flow::LineEnded
        } else {
            self.feat("input_name_ended_by_space");
            sink.cur.push(' ');
            Flow::Continue
        }
    }

    fn gen_item(&mut self, sink: &mut Sink, ctx: &mut FileCtx, force_input: bool) -> Flow {
        self.items_left -= 1;
        let can_input = !ctx.ended && ctx.depth < self.target_depth && (self.files_left > 0 || !self.simple.is_empty());
        if force_input && !ctx.ended && ctx.depth < self.target_depth {
            return self.gen_input(sink, ctx, true);
        }
        let low = self.items_left <= 0;
        let w_input = if can_input && !low { 20 } else { 0 };
        let w_endinput = if ctx.ended || low {
            0
        } else if ctx.is_main {
            2
        } else {
            9
        };
        let w_begin = if ctx.body || low { 0 } else { 5 };
        let w_end = if ctx.body || self.group_depth == 0 { 0 } else { 6 };
        let w_iftrue = if low { 0 } else { 4 };
        let w_iffalse_else = if low { 0 } else { 3 };
        let w_iffalse_fi = if low { 0 } else { 3 };
        let w_else_fi = if self.conds.last() == Some(&false) { 5 } else { 0 };
        let w_fi = if self.conds.is_empty() { 0 } else { 6 };
        let w_macro = if ctx.body || ctx.ended || low || self.next_macro >= 4 { 0 } else { 6 };
        let w_probe = 4;
        let w_relax = 2;
        let weights = [
            30, w_input, w_endinput, w_begin, w_end, w_iftrue, w_iffalse_else, w_iffalse_fi, w_else_fi, w_fi,
            w_macro, w_probe, w_relax,
        ];
        let allow_nl = sink.multi && !ctx.body && !ctx.ended;
        match self.rng.weighted(&weights) {
            0 => {
                let m = self.marker();
                self.emit(sink, &m, &m);
                self.expected.push(m);
            }
            1 => return self.gen_input(sink, ctx, false),
            2 => {
                self.cur_simple = false;
                let inl = if ctx.is_main { "\\endinput" } else { "\\relax" };
                self.emit(sink, "\\endinput", inl);
                ctx.ended = true;
                self.feat("endinput_live");
                if ctx.body {
                    self.feat("endinput_in_macro_body");
                }
                if ctx.is_main {
                    self.feat("endinput_in_main");
                }
            }
            3 => {
                self.cur_simple = false;
                self.emit(sink, "{", "{");
                self.group_depth += 1;
            }
            4 => {
                self.cur_simple = false;
                self.emit(sink, "}", "}");
                self.group_depth -= 1;
            }
            5 => {
                self.cur_simple = false;
                self.emit(sink, "\\iftrue", "\\iftrue");
                self.conds.push(false);
            }
            6 => {
                self.cur_simple = false;
                self.emit(sink, "\\iffalse", "\\iffalse");
                let d = self.dead_text(allow_nl);
                self.emit_dead(sink, &d);
                self.emit(sink, "\\else", "\\else");
                self.conds.push(true);
            }
            7 => {
                self.cur_simple = false;
                self.emit(sink, "\\iffalse", "\\iffalse");
                let d = self.dead_text(allow_nl);
                self.emit_dead(sink, &d);
                self.emit(sink, "\\fi", "\\fi");
            }
            8 => {
                self.cur_simple = false;
                self.emit(sink, "\\else", "\\else");
                let d = self.dead_text(allow_nl);
                self.emit_dead(sink, &d);
                self.emit(sink, "\\fi", "\\fi");
                self.conds.pop();
            }
            9 => {
                self.cur_simple = false;
                self.emit(sink, "\\fi", "\\fi");
                self.conds.pop();
            }
            10 => {
                self.cur_simple = false;
                self.gen_macro_call(sink, ctx);
            }
            11 => {
                self.cur_simple = false;
                self.emit(sink, "\\vprobe", "\\relax");
                self.probes.push(ctx.depth);
            }
            _ => {
                self.cur_simple = false;
                self.emit(sink, "\\relax", "\\relax");
            }
        }
        Flow::Continue
    }

    fn gen_macro_call(&mut self, sink: &mut Sink, ctx: &mut FileCtx) {
        let name = format!("m{}", (b'A' + self.next_macro as u8) as char);
        self.next_macro += 1;
        self.feat("macro_call");
        put(&mut sink.cur, &format!("\\{name}"));
        let mut body = Sink::new(false);
        let was_body = ctx.body;
        ctx.body = true;
        let k = 2 + self.rng.below(4);
        // an \input somewhere inside most bodies: the rest of the body must wait for the file
        let input_at = if self.rng.chance(3, 4) { Some(self.rng.below(k)) } else { None };
        for i in 0..k {
            let force = input_at == Some(i);
            self.gen_item(&mut body, ctx, force);
            if self.rng.chance(1, 2) {
                self.emit_blank(&mut body);
            }
        }
        if self.rng.chance(6, 7) {
            self.emit(&mut body, "\\relax", "\\relax");
        } else {
            // the scanner state after the call (S) differs from the state after the inlined body
            self.neutral = false;
            self.feat("macro_body_not_state_neutral");
        }
        ctx.body = was_body;
        self.macros.push((name, body.cur));
    }

    fn gen_line(&mut self, sink: &mut Sink, ctx: &mut FileCtx, force_input: bool) {
        if self.rng.chance(1, 4) {
            self.emit_blank(sink);
        }
        let mut k = match self.rng.below(12) {
            0 => 0,
            1..=3 => 1,
            4..=6 => 2,
            7..=9 => 3,
            _ => 5,
        };
        if force_input && k == 0 {
            k = 1;
        }
        let force_at = if force_input { Some(self.rng.below(k.max(1))) } else { None };
        for i in 0..k {
            let f = force_at == Some(i);
            if self.gen_item(sink, ctx, f) == Flow::LineEnded {
                return;
            }
            if self.avoid_known && ctx.ended {
                // nothing but blanks behind an executed \endinput
                if self.rng.chance(1, 3) {
                    self.emit_blank(sink);
                }
                return;
            }
            if self.rng.chance(1, 2) {
                self.emit_blank(sink);
            }
        }
        if k == 0 {
            self.feat("blank_line");
        }
        if self.rng.chance(1, 6) {
            self.emit_blank(sink);
        }
    }

    fn gen_file(&mut self, name: &str, depth: usize, spine: bool) {
        self.max_depth_seen = self.max_depth_seen.max(depth);
        let saved_simple = self.cur_simple;
        self.cur_simple = true;
        let exp_start = self.expected.len();
        let inl_start = self.inl_lines.len();
        self.inl_skip_blank = false;
        let mut n_lines = match self.rng.below(100) {
            0..=8 => 0,
            9..=43 => 1,
            44..=71 => 2,
            72..=88 => 3,
            _ => 4,
        };
        if (self.avoid_known || (spine && depth < self.target_depth)) && n_lines == 0 {
            n_lines = 1;
        }
        let mut sink = Sink::new(true);
        let mut ctx = FileCtx { depth, is_main: false, ended: false, body: false, spine };
        let content;
        if n_lines == 0 {
            // TeX §538: an empty file is considered to contain a single blank line
            self.feat("file_empty");
            self.inl_lines.push(String::new());
            content = String::new();
        } else {
            let force_line = if spine && depth < self.target_depth { Some(self.rng.below(n_lines)) } else { None };
            let mut written = 0;
            while written < n_lines {
                if ctx.ended {
                    let l = self.unread_line();
                    sink.cur = l;
                    sink.newline();
                    self.feat("unread_line_behind_endinput");
                    written += 1;
                    continue;
                }
                self.gen_line(&mut sink, &mut ctx, force_line == Some(written));
                sink.newline();
                self.inl_end_line();
                written += 1;
            }
            let mut c = sink.lines.join("\n");
            let last_empty = sink.lines.last().map_or(true, |l| l.is_empty());
            if last_empty || self.rng.chance(1, 2) {
                c.push('\n');
            } else {
                self.feat("file_without_final_newline");
            }
            content = c;
        }
        let simple = self.cur_simple;
        if simple {
            self.simple.push(SimpleFile {
                name: name.to_string(),
                markers: self.expected[exp_start..].to_vec(),
                inl_lines: self.inl_lines[inl_start..].to_vec(),
            });
        }
        self.cur_simple = saved_simple;
        self.files.push((format!("{name}.tex"), content));
    }

    pub fn tree(mut self) -> TreeCase {
        self.target_depth = self.rng.weighted(&[4, 10, 18, 24, 22, 22]);
        self.avoid_known = self.rng.chance(3, 5);
        self.items_left = 20 + self.rng.below(50) as i32;
        self.files_left = 2 + self.rng.below(10) as i32;
        let mut sink = Sink::new(true);
        let mut ctx = FileCtx { depth: 0, is_main: true, ended: false, body: false, spine: true };
        let n_lines = 1 + self.rng.below(5);
        let force_line = if self.target_depth > 0 { Some(self.rng.below(n_lines)) } else { None };
        let mut written = 0;
        while written < n_lines {
            if ctx.ended {
                let l = self.unread_line();
                sink.cur = l;
                sink.newline();
                self.feat("unread_line_behind_endinput");
                written += 1;
                continue;
            }
            self.gen_line(&mut sink, &mut ctx, force_line == Some(written));
            sink.newline();
            self.inl_end_line();
            written += 1;
        }
        if !ctx.ended && self.rng.chance(7, 10) {
            // close what is still open
            while self.conds.pop().is_some() {
                self.emit(&mut sink, "\\fi", "\\fi");
            }
            while self.group_depth > 0 {
                self.group_depth -= 1;
                self.emit(&mut sink, "}", "}");
            }
            if !sink.cur.is_empty() {
                sink.newline();
                self.inl_end_line();
            }
        } else if !self.conds.is_empty() || self.group_depth > 0 {
            self.feat("main_ends_with_open_group_or_conditional");
        }
        let mut pre = String::from("\\def\\par{!}");
        for (n, b) in &self.macros {
            pre.push_str(&format!("\\def\\{n}{{{b}}}"));
        }
        pre.push_str("\\vprobe");
        let mut main = pre;
        main.push('\n');
        main.push_str(&sink.lines.join("\n"));
        if sink.lines.last().map_or(true, |l| l.is_empty()) || self.rng.chance(1, 2) {
            main.push('\n');
        }
        let mut inlined = String::from("\\def\\par{!}\\relax\n");
        for l in &self.inl_lines {
            inlined.push_str(l);
            inlined.push('\n');
        }
        TreeCase {
            files: self.files,
            main,
            inlined,
            neutral: self.neutral,
            expected_markers: self.expected,
            expected_probe_depths: self.probes,
            feats: self.feats,
            max_depth: self.max_depth_seen,
            avoid_known: self.avoid_known,
        }
    }
}

/// Marker words (letter + digits) in an output string, in order.
pub fn markers_of(out: &str) -> Vec<String> {
    let b = out.as_bytes();
    let mut v = vec![];
    let mut i = 0;
    while i < b.len() {
        if b[i].is_ascii_uppercase() {
            let s = i;
            i += 1;
            while i < b.len() && b[i].is_ascii_digit() {
                i += 1;
            }
            v.push(out[s..i].to_string());
        } else {
            i += 1;
        }
    }
    v
}
