fn main() {
    vcore::run_main(&c19::MONITOR)
}
