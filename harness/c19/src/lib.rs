//! Monitor for property C19 - `\input`, `\endinput` and `\read` treat files as lines standing in
//! place (DESIGN.md §6 C19).
//!
//! Events observed (all at the public boundary of the real code, through vstate): the characters
//! handed to `vm::Handlers`, the outcome of `VM::run` (fatal error title), every macro expansion
//! reported by `post_macro_expansion_hook` (name, arguments, body - this is how "the target of
//! `\read` is a parameterless macro whose body is the line" is seen), and the guarded hook H2
//! `VM::verif_snapshot().num_sources` read by `\vprobe`.
//!
//! Oracles
//!  O1  vmodels::inputfiles - a miniature TeX written from tex.web §343-362, 378, 482-486, 494-510,
//!      526, 537-538, 1275 - interprets the same text and file map; output, outcome, probe depths
//!      and macro bodies must be equal.
//!  O2  the tree generator writes files in execution order and knows by construction which marker
//!      words are live and in which order ("inline expansion of the tree"); the real output's marker
//!      sequence must equal it.  If O1 and O2 disagree with each other the case is INCONCLUSIVE.
//!  O3  differential: the generator also writes ONE text with every file's lines in place
//!      (scanner-state neutral by construction, see gen.rs); the same VM must print the same on it.
//!  O4  nesting chains: the documented limit is 100 input levels. Whether "100" counts the main
//!      file is the only ambiguity: a chain of depth <= 99 (100 levels including the main file)
//!      must succeed under either reading, depth >= 101 (and every recursion) must end in the
//!      documented "too many input levels" error after 99..=100 opened files - never a crash, a
//!      success or another error -, depth 100 either way. (The band was 96..=101 at first; a seeded
//!      off-by-one that refused depth 99 slipped through it and it was tightened.)
//!  O5  panic oracle on every run; the source stack must be back at its old height after a run
//!      that ended normally.
//!
//! Known findings are attributed only by trigger predicate + deviation model (`model::Sem`):
//! the real observation must equal, in every compared component, what the model predicts with
//! exactly the listed rules replaced, for a minimal set of such rules whose triggers occur.

mod gen;
mod readgen;

use std::collections::BTreeMap;
use vcore::*;
use vmodels::inputfiles as model;
use vmodels::inputfiles::{Sem, Status};
use vstate::{Event, VmOptions};

pub struct M;
pub static MONITOR: M = M;

const K_ENDINPUT: &str = "C19-endinput-drops-rest-of-line";
const K_IFEOF: &str = "C19-ifeof-one-read-early";
const K_EMPTY: &str = "C19-input-empty-file-no-blank-line";

// ------------------------------------------------------------------------------------------
// running the real code

#[derive(Debug, Clone)]
struct Real {
    ok: bool,
    title: String,
    out: String,
    probes: Vec<i64>,
    /// (name, number of arguments, body)
    macros: Vec<(String, usize, String)>,
    sources_before: usize,
    sources_after: usize,
    panic: Option<PanicInfo>,
}

fn probe_fn(vm: &vstate::texlang::vm::VM<vstate::VState>) -> Value {
    json!(vm.verif_snapshot().num_sources)
}

fn run_real(files: &[(String, String)], terminal: &[String], main: &str) -> Real {
    let opts = VmOptions {
        files: files.to_vec(),
        terminal_lines: terminal.to_vec(),
        record_macros: true,
        ..VmOptions::default()
    };
    let main = main.to_string();
    let r = catch(move || {
        let mut vm = vstate::new_vm(&opts);
        vm.state.mon.probe_fn = Some(probe_fn);
        let before = vm.verif_snapshot().num_sources;
        let o = vstate::run(&mut vm, "main.tex", &main);
        let out = vstate::take_out(&mut vm);
        let ev = vstate::take_events(&mut vm);
        let probes: Vec<i64> = vm.state.mon.probes.iter().map(|v| v.as_i64().unwrap_or(-1)).collect();
        let after = vm.verif_snapshot().num_sources;
        (o, out, ev, probes, before, after)
    });
    match r {
        Ok((o, out, ev, probes, before, after)) => {
            let macros = ev
                .into_iter()
                .filter_map(|e| match e {
                    Event::Macro { name, args, expansion } => Some((name, args.len(), expansion)),
                    _ => None,
                })
                .collect();
            Real {
                ok: o.is_ok(),
                title: o.err_title().unwrap_or("").to_string(),
                out,
                probes,
                macros,
                sources_before: before,
                sources_after: after,
                panic: None,
            }
        }
        Err(p) => Real {
            ok: false,
            title: String::new(),
            out: String::new(),
            probes: vec![],
            macros: vec![],
            sources_before: 0,
            sources_after: 0,
            panic: Some(p),
        },
    }
}

// ------------------------------------------------------------------------------------------
// comparing an observation with a model run

fn relative(v: &[i64]) -> Vec<i64> {
    match v.first() {
        None => vec![],
        Some(b) => v.iter().map(|x| x - b).collect(),
    }
}

/// None = equal in every compared component; Some(kind) = first component that differs.
fn differs(real: &Real, m: &model::Run) -> Option<&'static str> {
    match (&m.status, real.ok) {
        (Status::Ok, false) => return Some("unexpected-error"),
        (Status::Error(_), true) => return Some("error-expected-but-run-succeeded"),
        (Status::OutOfDomain(_), _) => return Some("model-out-of-domain"),
        _ => {}
    }
    if real.out != m.out {
        return Some("output");
    }
    let mp: Vec<i64> = m.probes.iter().map(|x| *x as i64).collect();
    if relative(&real.probes) != relative(&mp) {
        return Some("source-stack-depth");
    }
    if real.macros.len() != m.macro_calls.len() {
        return Some("macro-expansions");
    }
    for (r, e) in real.macros.iter().zip(m.macro_calls.iter()) {
        if r.1 != 0 {
            return Some("macro-has-parameters");
        }
        if r.0 != e.0 || r.2 != e.1 {
            return Some("macro-meaning");
        }
    }
    None
}

#[derive(Clone, Copy, PartialEq, Eq, Debug)]
enum Dev {
    Endinput,
    Ifeof,
    Empty,
}

impl Dev {
    fn id(self) -> &'static str {
        match self {
            Dev::Endinput => K_ENDINPUT,
            Dev::Ifeof => K_IFEOF,
            Dev::Empty => K_EMPTY,
        }
    }
    fn trigger(self, f: &model::Flags) -> bool {
        match self {
            Dev::Endinput => f.endinput_nonblank_rest > 0,
            Dev::Ifeof => f.eof_pending_observed > 0,
            Dev::Empty => f.empty_file_inputs > 0,
        }
    }
}

const DEV_SETS: &[&[Dev]] = &[
    &[Dev::Endinput],
    &[Dev::Ifeof],
    &[Dev::Empty],
    &[Dev::Endinput, Dev::Empty],
    &[Dev::Endinput, Dev::Ifeof],
    &[Dev::Ifeof, Dev::Empty],
    &[Dev::Endinput, Dev::Ifeof, Dev::Empty],
];

fn sem_of(set: &[Dev]) -> Sem {
    Sem {
        endinput_drops_rest: set.contains(&Dev::Endinput),
        ifeof_early: set.contains(&Dev::Ifeof),
        empty_file_no_line: set.contains(&Dev::Empty),
    }
}

enum Verdict {
    Pass,
    Known(Vec<Dev>),
    Fail(&'static str),
}

struct Checked {
    verdict: Verdict,
    tex: model::Run,
    real: Real,
}

fn files_map(files: &[(String, String)]) -> BTreeMap<String, String> {
    files.iter().cloned().collect()
}

/// Run the real code and the model on one program and classify the observation.
fn check_program(files: &[(String, String)], terminal: &[String], main: &str) -> Checked {
    let fm = files_map(files);
    let tex = model::run(&fm, terminal, main, Sem::default());
    let real = run_real(files, terminal, main);
    if real.panic.is_some() {
        return Checked { verdict: Verdict::Fail("panic"), tex, real };
    }
    let d = differs(&real, &tex);
    let verdict = match d {
        None => {
            if real.ok && real.sources_after != real.sources_before {
                Verdict::Fail("source-stack-not-restored-after-run")
            } else {
                Verdict::Pass
            }
        }
        Some(kind) => {
            let mut v = Verdict::Fail(kind);
            for set in DEV_SETS {
                let dev = model::run(&fm, terminal, main, sem_of(set));
                if matches!(dev.status, Status::OutOfDomain(_)) {
                    continue;
                }
                if differs(&real, &dev).is_some() {
                    continue;
                }
                // every member's trigger predicate must occur (in TeX's run or in the deviating one)
                if set.iter().all(|d| d.trigger(&tex.flags) || d.trigger(&dev.flags)) {
                    v = Verdict::Known(set.to_vec());
                    break;
                }
            }
            v
        }
    };
    Checked { verdict, tex, real }
}

fn detail(files: &[(String, String)], terminal: &[String], main: &str, c: &Checked) -> Value {
    json!({
        "files": files.iter().map(|(n, c)| json!({"name": n, "content": c})).collect::<Vec<_>>(),
        "terminal": terminal,
        "main": main,
        "model": {"status": format!("{:?}", c.tex.status), "out": c.tex.out, "probes": c.tex.probes,
                  "macros": c.tex.macro_calls},
        "real": {"ok": c.real.ok, "error_title": c.real.title, "out": c.real.out, "probes": c.real.probes,
                 "macros": c.real.macros, "sources_before": c.real.sources_before,
                 "sources_after": c.real.sources_after},
        "expected_markers": gen::markers_of(&c.tex.out),
        "real_markers": gen::markers_of(&c.real.out),
    })
}

/// Report the verdict. Returns true if the case passed or was attributed to known findings.
fn report(obs: &mut Obs, label: &str, files: &[(String, String)], terminal: &[String], main: &str, c: &Checked) -> bool {
    match &c.verdict {
        Verdict::Pass => {
            obs.count(&format!("{label}.pass"));
            true
        }
        Verdict::Known(set) => {
            for d in set {
                obs.count(&format!("{label}.known.{}", d.id()));
                let sem = sem_of(set);
                let dev = model::run(&files_map(files), terminal, main, sem);
                let mut det = detail(files, terminal, main, c);
                if let Value::Object(m) = &mut det {
                    m.insert("deviation_model_out".into(), json!(dev.out));
                    m.insert("deviations_applied".into(), json!(set.iter().map(|d| d.id()).collect::<Vec<_>>()));
                }
                obs.known(d.id(), det);
            }
            true
        }
        Verdict::Fail(kind) => {
            if let Some(p) = &c.real.panic {
                if p.budget {
                    obs.violation(
                        format!("{label}:step-budget-exceeded (program does not terminate)"),
                        detail(files, terminal, main, c),
                    );
                } else {
                    obs.repo_panic(p, detail(files, terminal, main, c));
                }
            } else {
                obs.violation(format!("{label}:{kind}"), detail(files, terminal, main, c));
            }
            false
        }
    }
}

fn add_flags(obs: &mut Obs, f: &model::Flags) {
    let rows: &[(&str, u64)] = &[
        ("m.inputs", f.inputs),
        ("m.inputs_name_ended_by_space", f.inputs_term_space),
        ("m.inputs_name_ended_by_eol", f.inputs_term_eol),
        ("m.inputs_from_token_list", f.inputs_from_token_list),
        ("m.empty_file_inputs", f.empty_file_inputs),
        ("m.endinput_executed", f.endinput_exec),
        ("m.endinput_with_nonblank_rest", f.endinput_nonblank_rest),
        ("m.endinput_from_token_list", f.endinput_from_token_list),
        ("m.endinput_in_main", f.endinput_in_main),
        ("m.files_ended", f.files_ended),
        ("m.file_left_group_open", f.file_left_group_open),
        ("m.file_left_conditional_open", f.file_left_cond_open),
        ("m.file_closed_outer_group", f.file_closed_outer_group),
        ("m.file_closed_outer_conditional", f.file_closed_outer_cond),
        ("m.lines_unread_behind_endinput", f.lines_unread_after_endinput),
        ("m.par_tokens", f.pars),
        ("m.skipped_regions", f.skipped_regions),
        ("m.macro_expansions", f.macro_calls),
        ("m.openin_found", f.openin_found),
        ("m.openin_missing", f.openin_missing),
        ("m.closein", f.closein),
        ("m.reads", f.reads),
        ("m.reads_multiline_group", f.reads_multiline),
        ("m.reads_unmatched_close_brace", f.reads_unmatched_close),
        ("m.reads_of_appended_empty_line", f.reads_final_empty_line),
        ("m.reads_from_terminal", f.reads_terminal),
        ("m.reads_inside_group", f.reads_in_group),
        ("m.ifeof_true", f.ifeof_true),
        ("m.ifeof_false", f.ifeof_false),
        ("m.eof_pending_observed", f.eof_pending_observed),
    ];
    for (k, v) in rows {
        if *v > 0 {
            obs.add(k, *v);
        }
    }
}

// ------------------------------------------------------------------------------------------
// phase "tree"

fn tree_case(rng: &mut Rng, obs: &mut Obs) {
    let case = gen::Gen::new(rng).tree();
    for (k, v) in &case.feats {
        obs.add(&format!("g.{k}"), *v);
    }
    obs.count(&format!("g.tree_max_depth_{}", case.max_depth));
    obs.count(if case.avoid_known { "tree.cases_avoiding_known_triggers" } else { "tree.cases_unrestricted" });
    obs.add("g.files", case.files.len() as u64);
    if obs.verbose {
        println!("MAIN:\n{}\nFILES: {:#?}\nINLINED:\n{}", case.main, case.files, case.inlined);
    }
    let c = check_program(&case.files, &[], &case.main);
    add_flags(obs, &c.tex.flags);
    obs.count(&format!("m.max_file_depth_{}", c.tex.flags.max_file_depth.saturating_sub(1)));

    // O1 against O2: the model and the generator's definition must agree, else nothing is decided
    if c.tex.status != Status::Ok {
        obs.inconclusive(format!("tree: model status {:?} on a generated case", c.tex.status));
        return;
    }
    let model_markers = gen::markers_of(&c.tex.out);
    if model_markers != case.expected_markers {
        obs.inconclusive("tree: model and generator bookkeeping disagree on the marker order");
        if obs.verbose {
            println!("model {:?}\nbookkeeping {:?}", model_markers, case.expected_markers);
        }
        return;
    }
    let mut exp_probes: Vec<i64> = vec![0];
    exp_probes.extend(case.expected_probe_depths.iter().map(|d| *d as i64));
    let mp: Vec<i64> = c.tex.probes.iter().map(|x| *x as i64).collect();
    if relative(&mp) != exp_probes {
        obs.inconclusive("tree: model and generator bookkeeping disagree on the file depth at the probes");
        return;
    }
    if c.tex.flags.inputs > 0 || c.tex.flags.endinput_exec > 0 {
        obs.nontrivial(&(&case.files, &case.main));
    }
    obs.add("tree.markers_checked", model_markers.len() as u64);
    obs.add("tree.probes_checked", c.tex.probes.len() as u64);
    if case.avoid_known && (c.tex.flags.endinput_nonblank_rest > 0 || c.tex.flags.empty_file_inputs > 0) {
        obs.inconclusive("tree: generator steering failed (a case meant to avoid the known triggers hit one)");
    }
    let passed = report(obs, "tree", &case.files, &[], &case.main, &c);
    if matches!(c.verdict, Verdict::Pass) {
        // O2 explicitly (implied by O1 = O2, kept as an independent statement of the definition)
        if gen::markers_of(&c.real.out) != case.expected_markers {
            obs.violation("tree:marker-order", detail(&case.files, &[], &case.main, &c));
        }
    }

    // O3 differential on the inlined text
    if passed && case.neutral {
        let no_files: Vec<(String, String)> = vec![];
        let ci = check_program(&no_files, &[], &case.inlined);
        if ci.tex.status != Status::Ok || ci.tex.out != c.tex.out {
            obs.inconclusive("tree: the inlined text is not equivalent to the tree according to the model");
            if obs.verbose {
                println!("inlined:\n{}\nmodel(tree)={:?}\nmodel(inl) ={:?}", case.inlined, c.tex.out, ci.tex.out);
            }
            return;
        }
        obs.count("diff.runs");
        let tree_known = matches!(c.verdict, Verdict::Known(_));
        match &ci.verdict {
            Verdict::Pass => {
                if ci.real.out == c.real.out {
                    obs.count("diff.equal");
                } else if tree_known {
                    obs.count("diff.differs_where_known_finding_applies");
                } else {
                    obs.violation(
                        "diff:tree-and-inlined-runs-differ",
                        json!({"tree": detail(&case.files, &[], &case.main, &c), "inlined": case.inlined,
                               "inlined_out": ci.real.out}),
                    );
                }
            }
            Verdict::Known(_) => {
                // only \endinput in the main file survives inlining
                report(obs, "diff", &no_files, &[], &case.inlined, &ci);
                if ci.real.out == c.real.out {
                    obs.count("diff.equal");
                } else {
                    obs.count("diff.differs_where_known_finding_applies");
                }
            }
            Verdict::Fail(_) => {
                report(obs, "diff", &no_files, &[], &case.inlined, &ci);
            }
        }
    } else if passed {
        obs.count("diff.not_applicable_inlining_not_state_neutral");
    }
    if obs.wants_sample() {
        obs.sample(json!({
            "files": case.files, "main": case.main, "inlined": case.inlined, "neutral": case.neutral,
            "expected_markers": case.expected_markers, "real_out": c.real.out, "model_out": c.tex.out,
            "probe_depths": c.real.probes,
        }));
    }
}

// ------------------------------------------------------------------------------------------
// phase "place": every placement of \input / \endinput within a line (enumerated)

const PLACE_FILES: &[&str] = &[
    "",
    "\n",
    "A1\n",
    "A1",
    "A1\nB2\n",
    "A1 \nB2",
    "  A1  B2  \n",
    "\nA1\n",
    "A1\n\n",
    "A1\\endinput\nZ9\n",
    "A1 \\endinput B2\nZ9\n",
    "\\endinput A1 B2\nZ9",
    "{A1\n",
    "\\iftrue A1\n",
];
// (blanks before the primitive, blanks after it / name ending)
const PLACE_BEFORE: &[&str] = &["", " ", "  "];
const PLACE_AFTER: &[&str] = &[" ", "  ", "\n"];
const PLACE_WHAT: usize = 4; // \input, \endinput, macro containing \input, macro containing \endinput
const PLACE_HOST: usize = 3; // line in main, line in an \input file, last line (no newline) of an \input file
const PLACE_POS: usize = 4;

fn place_count() -> u64 {
    (PLACE_FILES.len() * PLACE_BEFORE.len() * PLACE_AFTER.len() * PLACE_WHAT * PLACE_HOST * PLACE_POS) as u64
}

fn place_case(idx: u64, obs: &mut Obs) {
    let mut i = idx as usize;
    let fv = i % PLACE_FILES.len();
    i /= PLACE_FILES.len();
    let before = PLACE_BEFORE[i % PLACE_BEFORE.len()];
    i /= PLACE_BEFORE.len();
    let after = PLACE_AFTER[i % PLACE_AFTER.len()];
    i /= PLACE_AFTER.len();
    let what = i % PLACE_WHAT;
    i /= PLACE_WHAT;
    let host = i % PLACE_HOST;
    i /= PLACE_HOST;
    let pos = i % PLACE_POS;

    // the line: three words W5 W6 W7 with the primitive at position pos (0 = before W5 .. 3 = after W7)
    let prim = match what {
        0 => "\\input g".to_string(),
        1 => "\\endinput".to_string(),
        2 => "\\mi".to_string(),
        _ => "\\me".to_string(),
    };
    let words = ["W5", "W6", "W7"];
    let mut line = String::new();
    for k in 0..=words.len() {
        if k == pos {
            line.push_str(before);
            gen::put(&mut line, &prim);
            if k < words.len() || after != "\n" {
                // "\n": the line ends behind the primitive, the remaining words stand on the next line
                line.push_str(after);
            }
        }
        if k < words.len() {
            gen::put(&mut line, words[k]);
            // between a word and the primitive only `before` decides about blanks
            if k + 1 < words.len() && k + 1 != pos {
                line.push(' ');
            }
        }
    }
    // for \input inside a macro body the name is always ended by a blank inside the body
    let pre = "\\def\\par{!}\\def\\mi{M3 \\input g M4}\\def\\me{M3 \\endinput M4}\\vprobe\n";
    let mut files = vec![("g.tex".to_string(), PLACE_FILES[fv].to_string())];
    let main = match host {
        0 => format!("{pre}{line}\nV8 \\vprobe\n"),
        1 => {
            files.push(("h.tex".to_string(), format!("H1\n{line}\nH2\n")));
            format!("{pre}S0 \\input h E9\\vprobe\n")
        }
        _ => {
            files.push(("h.tex".to_string(), format!("H1\n{line}")));
            format!("{pre}S0 \\input h E9\\vprobe\n")
        }
    };
    // (the excluded quirk - \input behind an executed \endinput on one line - cannot arise: every
    // enumerated line holds one primitive and g's own \endinput has taken effect before the host
    // line goes on)
    let c = check_program(&files, &[], &main);
    add_flags(obs, &c.tex.flags);
    match c.tex.status {
        Status::Ok => {}
        ref s => {
            obs.inconclusive(format!("place: model status {s:?}"));
            return;
        }
    }
    obs.nontrivial_by_construction(1);
    obs.count(match what {
        0 => "place.input",
        1 => "place.endinput",
        2 => "place.input_in_macro",
        _ => "place.endinput_in_macro",
    });
    report(obs, "place", &files, &[], &main, &c);
    if obs.wants_sample() && idx % 97 == 0 {
        obs.sample(json!({"files": files, "main": main, "real_out": c.real.out, "model_out": c.tex.out}));
    }
}

// ------------------------------------------------------------------------------------------
// phase "chain": nesting limit

fn count_opened(out: &str, letter: char) -> usize {
    gen::markers_of(out).iter().filter(|m| m.starts_with(letter)).count()
}

fn chain_case(idx: u64, rng: &mut Rng, obs: &mut Obs) {
    let variant = idx % 4;
    if variant == 3 {
        // recursion: a cycle of 1..3 files
        let cyc = 1 + rng.below(3) as usize;
        let mut files = vec![];
        for i in 0..cyc {
            let next = (i + 1) % cyc;
            let body = match rng.below(3) {
                0 => format!("R{i} \\input r{next} Q{i}\n"),
                1 => format!("R{i}\n\\input r{next}\nQ{i}\n"),
                _ => format!("R{i} \\input r{next}.tex"),
            };
            files.push((format!("r{i}.tex"), body));
        }
        let main = "\\def\\par{!}S \\input r0 E\n".to_string();
        let real = run_real(&files, &[], &main);
        obs.count("chain.recursion_cases");
        obs.nontrivial(&(&files, &main));
        let det = json!({"files": files, "main": main, "real": {"ok": real.ok, "title": real.title, "out_len": real.out.len()}});
        if let Some(p) = &real.panic {
            if p.budget {
                obs.violation("chain:recursion-not-stopped (step budget exceeded)", det);
            } else {
                obs.repo_panic(p, det);
            }
            return;
        }
        if real.ok {
            obs.violation("chain:recursion-succeeded", det);
            return;
        }
        if !real.title.contains("too many input levels") {
            obs.violation("chain:recursion-ended-in-another-error", det);
            return;
        }
        let k = count_opened(&real.out, 'R');
        obs.count(&format!("chain.recursion_refused_after_{k}_files"));
        let well_formed = real.out.starts_with("S ")
            && gen::markers_of(&real.out[2..]).iter().enumerate().all(|(j, m)| *m == format!("R{}", j % cyc));
        if !(99..=100).contains(&k) || !well_formed {
            obs.violation("chain:recursion-refused-at-wrong-depth-or-output-garbled", det);
        } else {
            obs.count("chain.recursion_refused_with_documented_error");
        }
        return;
    }
    // linear chain of depth d
    let d: usize = match variant {
        0 => (idx / 4) as usize % 140,
        1 => 88 + rng.below(24) as usize,
        _ => rng.below(140) as usize,
    };
    let mut files = vec![];
    for i in 1..=d {
        let content = if i == d {
            match rng.below(3) {
                0 => format!("X{i}\\vprobe\n"),
                1 => format!("X{i} \\vprobe"),
                _ => format!("\nX{i}\n\\vprobe\n"),
            }
        } else {
            let n = i + 1;
            match rng.below(5) {
                0 => format!("O{i} \\input c{n} C{i}\n"),
                1 => format!("O{i}\n\\input c{n}\nC{i}\n"),
                2 => format!("O{i} \\input c{n}.tex\nC{i}"),
                3 => format!("{{O{i} \\input  c{n} }}C{i}\n"),
                _ => format!("O{i}\\iftrue\\input c{n} \\fi C{i}"),
            }
        };
        files.push((format!("c{i}.tex"), content));
    }
    let main = if d == 0 {
        "\\def\\par{!}\\vprobe\nS X0\\vprobe E\n".to_string()
    } else {
        "\\def\\par{!}\\vprobe\nS \\input c1 E\n".to_string()
    };
    let fm = files_map(&files);
    let tex = model::run(&fm, &[], &main, Sem::default());
    if tex.status != Status::Ok {
        obs.inconclusive(format!("chain: model status {:?}", tex.status));
        return;
    }
    let real = run_real(&files, &[], &main);
    obs.nontrivial(&(&files, &main));
    let class = if d <= 99 {
        "must_succeed"
    } else if d <= 100 {
        "grey"
    } else {
        "must_be_refused"
    };
    obs.count(&format!("chain.depth_class_{class}"));
    let c = Checked { verdict: Verdict::Pass, tex, real };
    let det = || {
        json!({"depth": d, "main": main, "real": {"ok": c.real.ok, "title": c.real.title, "out": c.real.out,
               "probes": c.real.probes}, "model_out": c.tex.out, "files_sample": files.iter().take(3).collect::<Vec<_>>() })
    };
    if let Some(p) = &c.real.panic {
        if p.budget {
            obs.violation("chain:step-budget-exceeded", det());
        } else {
            obs.repo_panic(p, det());
        }
        return;
    }
    if c.real.ok {
        if d >= 101 {
            obs.violation("chain:nesting-beyond-the-documented-limit-succeeded", det());
            return;
        }
        match differs(&c.real, &c.tex) {
            None => {
                obs.count(&format!("chain.ok_{class}"));
                if c.real.probes.len() == 2 && c.real.probes[1] - c.real.probes[0] == d as i64 {
                    obs.count("chain.num_sources_equals_depth");
                }
            }
            Some(k) => obs.violation(format!("chain:{k}"), det()),
        }
    } else {
        if !c.real.title.contains("too many input levels") {
            obs.violation("chain:unexpected-error", det());
            return;
        }
        if d <= 99 {
            obs.violation("chain:nesting-within-the-limit-refused", det());
            return;
        }
        let k = count_opened(&c.real.out, 'O');
        obs.count(&format!("chain.refused_after_{k}_files"));
        if !c.tex.out.starts_with(&c.real.out) || !(99..=100).contains(&k) {
            obs.violation("chain:refused-at-wrong-depth-or-output-not-a-prefix", det());
            return;
        }
        obs.count(&format!("chain.refused_{class}"));
    }
    if obs.wants_sample() {
        obs.sample(json!({"depth": d, "ok": c.real.ok, "title": c.real.title, "out_len": c.real.out.len(),
                          "probes": c.real.probes}));
    }
}

// ------------------------------------------------------------------------------------------
// phases "read" (random) and "readenum" (enumerated)

fn check_read_program(obs: &mut Obs, label: &str, files: &[(String, String)], terminal: &[String], main: &str) -> Option<Checked> {
    let c = check_program(files, terminal, main);
    add_flags(obs, &c.tex.flags);
    match &c.tex.status {
        Status::OutOfDomain(r) => {
            obs.inconclusive(format!("{label}: model out of domain: {r}"));
            return None;
        }
        Status::Error(e) => obs.count(&format!("{label}.tex_error:{e}")),
        Status::Ok => {}
    }
    report(obs, label, files, terminal, main, &c);
    Some(c)
}

fn read_case(rng: &mut Rng, obs: &mut Obs) {
    let case = readgen::read_case(rng);
    for (k, v) in &case.feats {
        obs.add(&format!("g.{k}"), *v);
    }
    obs.count(if case.safe_mode { "read.cases_avoiding_known_trigger" } else { "read.cases_unrestricted" });
    let c = match check_read_program(obs, "read", &case.files, &case.terminal, &case.main) {
        None => return,
        Some(c) => c,
    };
    if case.safe_mode && c.tex.flags.eof_pending_observed > 0 {
        obs.inconclusive("read: generator steering failed (safe case looked at a stream with EOF pending)");
    }
    if c.tex.flags.reads > c.tex.flags.reads_terminal {
        obs.nontrivial(&(&case.files, &case.main, &case.terminal));
    }
    obs.count(&format!("m.max_streams_open_{}", c.tex.flags.max_streams_open));
    if obs.wants_sample() {
        obs.sample(json!({"files": case.files, "terminal": case.terminal, "main": case.main,
            "real_out": c.real.out, "model_out": c.tex.out, "macros": c.real.macros}));
    }
}

const RE_FILES: &[&str] = &[
    "",
    "\n",
    "A1",
    "A1\n",
    "A1\nB2",
    "A1\nB2\n",
    "{A1\nB2}\n",
    "A1}Z8\nB2\n",
    "A1\n\n",
    "\nA1\n",
    "A1 {\n\n B2 }  C3\nD4",
    "  A1  \\relax  B2  \n",
];
const RE_MAX_OPS: u32 = 5;

fn readenum_count() -> u64 {
    // op sequences of length 1..=5 over {read, ifeof, closein, openin}
    let seqs: u64 = (1..=RE_MAX_OPS).map(|l| 4u64.pow(l)).sum();
    seqs * RE_FILES.len() as u64
}

fn readenum_case(idx: u64, obs: &mut Obs) {
    let f = (idx % RE_FILES.len() as u64) as usize;
    let mut s = idx / RE_FILES.len() as u64;
    let mut len = 1;
    while s >= 4u64.pow(len) {
        s -= 4u64.pow(len);
        len += 1;
    }
    let stream = 3 + (idx % 13); // 3..15
    let mut prog = format!("\\def\\par{{!}}\\def\\x{{x0}}\\openin{stream}=r ");
    let mut reads = 0;
    for k in 0..len {
        let op = (s / 4u64.pow(k)) % 4;
        match op {
            0 => {
                reads += 1;
                prog.push_str(&format!("\\read{stream} to\\x[\\x]"));
            }
            1 => prog.push_str(&format!("\\ifeof{stream} t{k}\\else f{k}\\fi")),
            2 => prog.push_str(&format!("\\closein{stream}\\relax")),
            _ => prog.push_str(&format!("\\openin{stream}=r ")),
        }
    }
    prog.push_str(&format!("\\ifeof{stream} t9\\else f9\\fi"));
    let files = vec![("r.tex".to_string(), RE_FILES[f].to_string())];
    // the terminal supplies lines for reads from a stream that TeX (or today's code) has closed
    let terminal: Vec<String> = (0..reads).map(|i| format!("Q{i}")).collect();
    obs.nontrivial_by_construction(1);
    check_read_program(obs, "readenum", &files, &terminal, &prog);
}

// ------------------------------------------------------------------------------------------
// phase "known": one fixed reproducer per finding

fn known_case(idx: u64, obs: &mut Obs) {
    let (files, terminal, main): (Vec<(String, String)>, Vec<String>, String) = match idx {
        0 => (
            vec![("f.tex".into(), "A1\\endinput B2\nZ3\n".into())],
            vec![],
            "\\def\\par{!}X4 \\input f Y5\nW6\n".into(),
        ),
        1 => (
            vec![("f.tex".into(), "A1\nB2\n".into())],
            vec!["Q7".into()],
            "\\def\\par{!}\\openin1=f \\read1 to\\x[\\x]\\read1 to\\x[\\x]\\ifeof1 t1\\else f1\\fi\\read1 to\\x[\\x]\\ifeof1 t2\\else f2\\fi\n"
                .into(),
        ),
        _ => (vec![("e.tex".into(), "".into())], vec![], "\\def\\par{!}A1\\input e B2\n".into()),
    };
    let c = check_program(&files, &terminal, &main);
    add_flags(obs, &c.tex.flags);
    obs.nontrivial_by_construction(1);
    report(obs, "known", &files, &terminal, &main, &c);
    if obs.wants_sample() {
        obs.sample(json!({"files": files, "main": main, "real_out": c.real.out, "tex_out": c.tex.out}));
    }
}

// ------------------------------------------------------------------------------------------
// calibration: the model against the repository's unit-test tables (input.rs)

struct Row {
    name: &'static str,
    files: &'static [(&'static str, &'static str)],
    terminal: &'static [&'static str],
    lhs: &'static str,
    rhs: &'static str,
    /// rules under which the repository's expectation holds (TeX itself, or the pinned deviation)
    sem: Sem,
    /// literal that must still stand in input.rs for the row to be ground truth
    literal: &'static str,
}

const TEX: Sem = Sem { endinput_drops_rest: false, ifeof_early: false, empty_file_no_line: false };
const PIN_ENDINPUT: Sem = Sem { endinput_drops_rest: true, ifeof_early: false, empty_file_no_line: false };
const PIN_IFEOF: Sem = Sem { endinput_drops_rest: false, ifeof_early: true, empty_file_no_line: false };

const FS1: &[(&str, &str)] = &[
    ("file1.tex", "content1\n"),
    ("file2.tex", "content2%\n"),
    ("file3.tex", "\\input nested/file4"),
    ("nested/file4.tex", "content4"),
    ("file5.tex", "file1.tex"),
];
const FS2: &[(&str, &str)] = &[("file1.tex", "Hello\\def\\Macro{Hola\\endinput Mundo}\\Macro World\n")];
const FS3: &[(&str, &str)] = &[
    ("file1.tex", "1\n2%\n3"),
    ("file2.tex", "1{\n2\n3}"),
    ("file3.tex", "1}1\n2"),
    ("file4.tex", ""),
    ("file5.tex", "hello { world"),
];
const TERM: &[&str] = &["first-line", "second-line {", "third-line }", "fourth}line"];

fn rows() -> Vec<Row> {
    vec![
        Row { name: "basic_case", files: FS1, terminal: &[], lhs: "\\input file1 hello", rhs: "content1 hello", sem: TEX, literal: r#"(basic_case, r"\input file1 hello", "content1 hello")"# },
        Row { name: "input_together", files: FS1, terminal: &[], lhs: "\\input file2 hello", rhs: "content2hello", sem: TEX, literal: r#"(input_together, r"\input file2 hello", r"content2hello")"# },
        Row { name: "basic_case_with_ext", files: FS1, terminal: &[], lhs: "\\input file1.tex", rhs: "content1 ", sem: TEX, literal: r#"(basic_case_with_ext, r"\input file1.tex", r"content1 ")"# },
        Row { name: "nested", files: FS1, terminal: &[], lhs: "\\input file3", rhs: "content4", sem: TEX, literal: r#"(nested, r"\input file3", r"content4")"# },
        Row { name: "nested_2", files: FS1, terminal: &[], lhs: "\\input \\input file5", rhs: "content1 ", sem: TEX, literal: r#"(nested_2, r"\input \input file5", r"content1 ")"# },
        Row { name: "end_input_simple", files: FS2, terminal: &[], lhs: "Hello\\endinput World", rhs: "Hello", sem: PIN_ENDINPUT, literal: r#"(end_input_simple, r"Hello\endinput World", "Hello",)"# },
        Row { name: "end_input_in_second_file", files: FS2, terminal: &[], lhs: "Before\\input file1 After", rhs: "BeforeHelloHolaMundoAfter", sem: PIN_ENDINPUT, literal: r#""BeforeHelloHolaMundoAfter""# },
        Row { name: "ifeof_nothing_open", files: FS3, terminal: &[], lhs: "\\ifeof 0 Closed\\else Open\\fi", rhs: "Closed", sem: TEX, literal: r#"r"\ifeof 0 Closed\else Open\fi""# },
        Row { name: "ifeof_non_existent_file", files: FS3, terminal: &[], lhs: "\\openin 0 doesNotExist \\ifeof 0 Closed\\else Open\\fi", rhs: "Closed", sem: TEX, literal: r#"r"\openin 0 doesNotExist \ifeof 0 Closed\else Open\fi""# },
        Row { name: "ifeof_file_exists", files: FS3, terminal: &[], lhs: "\\openin 0 file1 \\ifeof 0 Closed\\else Open\\fi", rhs: "Open", sem: TEX, literal: r#"r"\openin 0 file1 \ifeof 0 Closed\else Open\fi""# },
        Row { name: "ifeof_non_existent_file_2", files: FS3, terminal: &[], lhs: "\\openin 0 file1 \\openin 0 doesNotExist \\ifeof 0 Closed\\else Open\\fi", rhs: "Closed", sem: TEX, literal: r#"r"\openin 0 file1 \openin 0 doesNotExist \ifeof 0 Closed\else Open\fi""# },
        Row { name: "ifeof_file_closed", files: FS3, terminal: &[], lhs: "\\openin 0 file1 \\closein 0 \\ifeof 0 Closed\\else Open\\fi", rhs: "Closed", sem: TEX, literal: r#"r"\openin 0 file1 \closein 0 \ifeof 0 Closed\else Open\fi""# },
        Row { name: "read_1", files: FS3, terminal: &[], lhs: "\\openin 0 file1\\read 0 to \\line line1='\\line'\\read 0 to \\line line2='\\line'\\read 0 to \\line line3='\\line'\\ifeof 0 Closed\\else Open\\fi", rhs: "line1='1 'line2='2'line3='3 'Closed", sem: PIN_IFEOF, literal: r#""line1='1 'line2='2'line3='3 'Closed""# },
        // read_2 uses an active character as target in the repository; the model has no active
        // characters, the target is \line here (same expectation)
        Row { name: "read_2(adapted)", files: FS3, terminal: &[], lhs: "\\openin 0 file2\\read 0 to \\line line1='\\line'\\ifeof 0 Closed\\else Open\\fi", rhs: "line1='1{ 2 3} 'Closed", sem: PIN_IFEOF, literal: r#""line1='1{ 2 3} 'Closed""# },
        Row { name: "read_3", files: FS3, terminal: &[], lhs: "\\openin 0 file3\\read 0 to \\line line1='\\line'\\read 0 to \\line line2='\\line'", rhs: "line1='1'line2='2 '", sem: TEX, literal: r#""line1='1'line2='2 '""# },
        Row { name: "read_4", files: FS3, terminal: &[], lhs: "\\def\\par{par}\\openin 0 file4\\read 0 to \\line line1='\\line'\\ifeof 0 Closed\\else Open\\fi", rhs: "line1='par'Closed", sem: TEX, literal: r#""line1='par'Closed""# },
        Row { name: "read_from_terminal", files: FS3, terminal: TERM, lhs: "\\read 0 to \\line line1='\\line'\\read 0 to \\line line2='\\line'\\read 0 to \\line line3='\\line'", rhs: "line1='first-line 'line2='second-line { third-line } 'line3='fourth'", sem: TEX, literal: r#""line1='first-line 'line2='second-line { third-line } 'line3='fourth'""# },
    ]
}

fn trim_one_space(s: &str) -> &str {
    s.strip_suffix(' ').unwrap_or(s)
}

// ------------------------------------------------------------------------------------------

impl Monitor for M {
    fn id(&self) -> &'static str {
        "C19"
    }

    fn rule(&self) -> String {
        "tree: random trees of files (nesting depth 0..5, 0..4 lines each, with/without final newline, empty \
         and blank files, blank lines, files that leave groups/conditionals open or close their parent's, \
         skipped text with \\input/\\endinput in it, \\input and \\endinput at random positions of a line and \
         inside macro bodies, names ended by a blank or by the line end, with or without .tex), every word a \
         unique marker; non-trivial = at least one \\input or \\endinput is executed; distinct by (files, main). \
         place: the full product of 14 file shapes x 4 positions in a three-word line x blanks before x name \
         ending x {\\input, \\endinput, each also inside a macro} x {line in main, in a file, last line without \
         newline}. chain: \\input chains of depth 0..139 (five line shapes per level) and recursive cycles of \
         1..3 files. read: 1..4 files of marker words, blanks, braces (groups over several lines, unmatched \
         close braces, blank lines) and a random interleaving of 6..31 \\openin/\\read/\\ifeof/\\closein/group \
         operations on 1..16 streams, half of the cases steered away from the known \\ifeof defect; non-trivial = \
         at least one \\read from a file. readenum: all operation sequences of length 1..5 over {read, ifeof, \
         closein, openin} x 12 file shapes. known: one fixed reproducer per finding."
            .into()
    }

    fn assumptions(&self) -> Vec<String> {
        vec![
            "No TeX binary exists here: the oracle is vmodels::inputfiles, our transcription of tex.web (sections listed in that file), calibrated against the 17 \\input/\\endinput/\\read/\\ifeof expectations in crates/texlang-stdlib/src/input.rs (two of which pin today's deviations and calibrate the deviation models instead).".into(),
            "Programs stay inside a tiny language (marker words, blanks, newlines, braces, \\relax, \\iftrue/\\iffalse/\\else/\\fi, parameterless \\def, the six primitives); category codes and \\endlinechar are never changed.".into(),
            "Kept out because TeX's own behaviour is a quirk or needs interaction: \\input behind an executed \\endinput on the same line (force_eof is global in TeX82: the NEW file would be cut after one line), a file that ends while conditional text is skipped (TeX: 'Incomplete \\if' error), missing \\input files, file names ended by anything but a blank or the line end, empty terminal lines.".into(),
            "An \\input of a zero-byte file is judged by tex.web §538 ('If the file is empty, it is considered to contain a single blank line').".into(),
            "Nesting limit (documented: 100 levels): chains up to 99 nested files must work, from 101 on they must be refused with the documented error; exactly 100 may go either way (the only ambiguity is whether the main file counts).".into(),
            "A \\read whose file ends inside a brace group is an error in TeX ('File ended within \\read'); the monitor only requires that the run reports an error there.".into(),
            "\\global\\read is rejected by the code as unsupported and is not probed; local scope of the \\read target is.".into(),
        ]
    }

    fn phases(&self, tier: Tier) -> Vec<Phase> {
        vec![
            Phase::new("known", 3).batch(1),
            Phase::new("place", place_count()).batch(128).exhaustive(
                "14 file shapes x 4 positions x 3 blank prefixes x 3 endings x 4 primitives x 3 hosts",
            ),
            Phase::new("readenum", readenum_count())
                .batch(128)
                .exhaustive("operation sequences of length 1..5 over {read,ifeof,closein,openin} x 12 file shapes"),
            Phase::new("chain", tier.pick(1200, 6000)).batch(8),
            Phase::new("tree", tier.pick(100_000, 3_000_000)).batch(64),
            Phase::new("read", tier.pick(60_000, 2_000_000)).batch(64),
        ]
    }

    fn floors(&self, tier: Tier) -> Vec<(&'static str, u64)> {
        let s = match tier {
            Tier::Quick => 1,
            Tier::Thorough => 8,
        };
        vec![
            ("m.inputs", 100000 * s),
            ("m.inputs_name_ended_by_space", 70000 * s),
            ("m.inputs_name_ended_by_eol", 70000 * s),
            ("m.inputs_from_token_list", 20000 * s),
            ("m.max_file_depth_5", 3000 * s),
            ("m.empty_file_inputs", 4000 * s),
            ("m.endinput_executed", 50000 * s),
            ("m.endinput_with_nonblank_rest", 10000 * s),
            ("m.endinput_from_token_list", 9000 * s),
            ("m.endinput_in_main", 3000 * s),
            ("m.lines_unread_behind_endinput", 40000 * s),
            ("m.file_left_group_open", 30000 * s),
            ("m.file_left_conditional_open", 40000 * s),
            ("m.file_closed_outer_group", 7000 * s),
            ("m.file_closed_outer_conditional", 10000 * s),
            ("m.par_tokens", 70000 * s),
            ("g.file_without_final_newline", 60000 * s),
            ("g.dead_chunk_spans_lines", 20000 * s),
            ("g.input_in_macro_body", 20000 * s),
            ("g.endinput_in_macro_body", 9000 * s),
            ("g.file_empty", 3000 * s),
            ("tree.pass", 10000 * s),
            ("tree.cases_avoiding_known_triggers", 10000 * s),
            ("tree.markers_checked", 300000 * s),
            ("tree.probes_checked", 60000 * s),
            ("diff.runs", 20000 * s),
            ("diff.equal", 10000 * s),
            ("m.reads", 60000 * s),
            ("m.reads_multiline_group", 9000 * s),
            ("m.reads_unmatched_close_brace", 5000 * s),
            ("m.reads_of_appended_empty_line", 5000 * s),
            ("m.reads_from_terminal", 8000 * s),
            ("m.reads_inside_group", 10000 * s),
            ("m.ifeof_true", 70000 * s),
            ("m.ifeof_false", 30000 * s),
            ("m.eof_pending_observed", 7000 * s),
            ("m.openin_missing", 10000 * s),
            ("m.closein", 30000 * s),
            ("read.pass", 10000 * s),
            ("read.cases_avoiding_known_trigger", 8000 * s),
            ("place.pass", 3000),
            ("readenum.pass", 10000),
            ("chain.ok_must_succeed", 300),
            ("chain.refused_must_be_refused", 150),
            ("chain.recursion_refused_with_documented_error", 150),
            ("chain.num_sources_equals_depth", 300),
            ("m.max_streams_open_16", 1000),
        ]
    }

    fn calibrate(&self, obs: &mut Obs) {
        let src = std::fs::read_to_string(repo_dir().join("crates/texlang-stdlib/src/input.rs")).unwrap_or_default();
        for row in rows() {
            if !src.contains(row.literal) {
                // the table in the repository changed: the row is no longer ground truth
                obs.count("calibration.rows_no_longer_in_repository");
                continue;
            }
            let fm: BTreeMap<String, String> = row.files.iter().map(|(a, b)| (a.to_string(), b.to_string())).collect();
            let term: Vec<String> = row.terminal.iter().map(|s| s.to_string()).collect();
            let l = model::run(&fm, &term, row.lhs, row.sem);
            let r = model::run(&BTreeMap::new(), &[], row.rhs, TEX);
            // the repository's comparison removes one trailing space token on both sides
            if l.status == Status::Ok && r.status == Status::Ok && trim_one_space(&l.out) == trim_one_space(&r.out) {
                obs.count("calibration.rows_agree");
            } else {
                obs.inconclusive(format!(
                    "calibration: model disagrees with input.rs test `{}`: model {:?} ({:?}), repository {:?}",
                    row.name, l.out, l.status, r.out
                ));
            }
        }
        // the two fatal_error_tests relevant here
        let fm: BTreeMap<String, String> = FS3.iter().map(|(a, b)| (a.to_string(), b.to_string())).collect();
        let e = model::run(&fm, &[], "\\openin 0 file5 \\read 0 to \\X (\\X)", TEX);
        if matches!(e.status, Status::Error(_)) {
            obs.count("calibration.rows_agree");
        } else {
            obs.inconclusive("calibration: file_has_unmatched_braces is not an error in the model");
        }
    }

    fn run_case(&self, phase: &str, idx: u64, rng: &mut Rng, obs: &mut Obs) {
        match phase {
            "known" => known_case(idx, obs),
            "place" => place_case(idx, obs),
            "readenum" => readenum_case(idx, obs),
            "chain" => chain_case(idx, rng, obs),
            "tree" => tree_case(rng, obs),
            "read" => read_case(rng, obs),
            _ => obs.inconclusive(format!("unknown phase {phase}")),
        }
    }
}
